//! C04, tokio runtime: the same generated applications and requests, served by the tokio App.

use crate::engine::{pt, Ctx, Fail};
use crate::props::c04::{arb_case, check_requests, ident, Case, SubSpec};
use crate::tserver;
use humphrey::http::{Request, Response, StatusCode};
use humphrey::stream::Stream;
use humphrey::{App, SubApp};
use serde_json::Value as J;
use std::sync::Arc;
use std::time::Duration;
use tokio::io::AsyncWriteExt;

fn build_sub(spec: &SubSpec, hi: usize) -> SubApp<()> {
    let mut s: SubApp<()> = SubApp::new();
    for (ri, p) in spec.routes.iter().enumerate() {
        let id = ident(hi, ri, false);
        s = s.with_route(p, move |_req: Request, _st: Arc<()>| {
            let id = id.clone();
            async move { Response::new(StatusCode::OK, id) }
        });
    }
    for (ri, p) in spec.ws_routes.iter().enumerate() {
        let id = ident(hi, ri, true);
        s = s.with_websocket_route(p, move |_req: Request, mut stream: Stream, _st: Arc<()>| {
            let id = id.clone();
            async move {
                let _ = stream.write_all(id.as_bytes()).await;
                let _ = stream.shutdown().await;
            }
        });
    }
    for k in &spec.cors_on {
        if !spec.routes.is_empty() {
            s = s.with_cors_config(&spec.routes[*k as usize % spec.routes.len()], humphrey::http::cors::Cors::wildcard());
        }
    }
    s
}

pub fn check(c: &Case, shard: usize, ctx: Option<&Ctx>) -> Vec<Fail> {
    let mut app: App<()> = App::new_with_config(());
    // the tokio App has no with_default_subapp: register the default routes on the app itself
    for (ri, p) in c.default.routes.iter().enumerate() {
        let id = ident(usize::MAX, ri, false);
        app = app.with_route(p, move |_req: Request, _st: Arc<()>| {
            let id = id.clone();
            async move { Response::new(StatusCode::OK, id) }
        });
    }
    for (ri, p) in c.default.ws_routes.iter().enumerate() {
        let id = ident(usize::MAX, ri, true);
        app = app.with_websocket_route(p, move |_req: Request, mut stream: Stream, _st: Arc<()>| {
            let id = id.clone();
            async move {
                let _ = stream.write_all(id.as_bytes()).await;
                let _ = stream.shutdown().await;
            }
        });
    }
    for k in &c.default.cors_on {
        if !c.default.routes.is_empty() {
            app = app.with_cors_config(&c.default.routes[*k as usize % c.default.routes.len()], humphrey::http::cors::Cors::wildcard());
        }
    }
    for (hi, h) in c.hosts.iter().enumerate() {
        app = app.with_host(&h.host, build_sub(h, hi));
    }
    let running = match tserver::start(app, &format!("127.0.4.{}", 101 + shard), 2) {
        Ok(r) => r,
        Err(e) => return vec![Fail::new("harness-app", e)],
    };
    let fails = check_requests(c, running.addr, ctx);
    let _ = running.stop(Duration::from_secs(10));
    fails
}

pub fn run(ctx: &Ctx) {
    ctx.rule("tokio runtime: the same generated applications (host sub-apps, HTTP and WebSocket routes, default app) and requests as the threaded check, served by the tokio App with async handlers; same reference router");
    let cases = ctx.tier.pick(2400u32, 20000u32);
    let nshards = 16;
    crate::engine::shards(nshards, |i| {
        pt::run(
            ctx,
            "tokio-app",
            pt::Opts::new(cases / nshards as u32).salt(450 + i as u64).shrink_iters(150),
            arb_case(),
            |c| serde_json::to_value(c).unwrap(),
            |c| {
                let f = check(c, i, Some(ctx));
                if f.iter().any(|x| x.sig.starts_with("harness-")) {
                    ctx.inconclusive(&f[0].detail);
                    return Vec::new();
                }
                f
            },
        );
    });
}

pub fn replay(_ctx: &Ctx, _kind: &str, case: &J) -> Vec<Fail> {
    match serde_json::from_value::<Case>(case.clone()) {
        Ok(c) => check(&c, 15, None),
        Err(e) => vec![Fail::new("harness", format!("bad replay case: {}", e))],
    }
}
