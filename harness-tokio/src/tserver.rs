//! Running a tokio `App` on a loopback alias from synchronous test code.

use crate::common::net::free_port;
use std::net::{SocketAddr, TcpStream};
use std::time::{Duration, Instant};
use tokio_util::sync::CancellationToken;

pub struct TRunning {
    pub addr: SocketAddr,
    token: CancellationToken,
    done: std::sync::mpsc::Receiver<Result<(), String>>,
}

/// Starts `app` (without a shutdown token) on `ip`:<free port> inside its own multi-thread runtime.
pub fn start<S: Send + Sync + 'static>(app: humphrey::App<S>, ip: &str, workers: usize) -> Result<TRunning, String> {
    let port = free_port(ip);
    let addr: SocketAddr = format!("{}:{}", if ip.contains(':') { format!("[{}]", ip) } else { ip.to_string() }, port).parse().map_err(|e| format!("{}", e))?;
    start_at(app, addr, addr, workers)
}

pub fn start_at<S: Send + Sync + 'static>(app: humphrey::App<S>, bind: SocketAddr, connect: SocketAddr, workers: usize) -> Result<TRunning, String> {
    let token = CancellationToken::new();
    let app = app.with_shutdown(token.clone());
    let (dtx, drx) = std::sync::mpsc::channel();
    std::thread::Builder::new()
        .name("tokio-app".into())
        .spawn(move || {
            let rt = tokio::runtime::Builder::new_multi_thread().worker_threads(workers.max(1)).enable_all().build().unwrap();
            let r = rt.block_on(async move { app.run(bind).await.map_err(|e| e.to_string()) });
            let _ = dtx.send(r);
            // let in-flight connection tasks finish their responses before the runtime goes away
            rt.shutdown_timeout(Duration::from_secs(20));
        })
        .map_err(|e| e.to_string())?;
    let start = Instant::now();
    loop {
        if let Ok(r) = drx.try_recv() {
            return Err(format!("App::run returned early: {:?}", r));
        }
        if let Ok(s) = TcpStream::connect_timeout(&connect, Duration::from_millis(200)) {
            drop(s);
            return Ok(TRunning { addr: connect, token, done: drx });
        }
        if start.elapsed() > Duration::from_secs(10) {
            return Err("tokio app did not start listening within 10 s".into());
        }
        std::thread::sleep(Duration::from_millis(2));
    }
}

impl TRunning {
    pub fn signal(&self) {
        self.token.cancel();
    }
    pub fn wait(&self, max: Duration) -> Result<(), String> {
        match self.done.recv_timeout(max) {
            Ok(Ok(())) => Ok(()),
            Ok(Err(e)) => Err(format!("run returned an error: {}", e)),
            Err(_) => Err(format!("run did not return within {:?} of the shutdown signal", max)),
        }
    }
    pub fn stop(self, max: Duration) -> Result<(), String> {
        self.signal();
        self.wait(max)
    }
}

impl Drop for TRunning {
    fn drop(&mut self) {
        self.token.cancel();
    }
}
