//! `crate::props::targets` of the tokio build: the same target numbers as in /verif/harness/src/props/targets.rs, but
//! only the HTTP request parser (the tokio copy of `Request::from_stream`) and the HTTP response parser are implemented.

use crate::areader::PlanAsyncReader;

pub const T_REQUEST: u8 = 0;
pub const T_RESPONSE: u8 = 1;
pub const T_FRAME: u8 = 2;
pub const T_MESSAGE: u8 = 3;
pub const T_MESSAGE_NB: u8 = 4;
pub const T_JSON: u8 = 5;
pub const T_CONFIG: u8 = 6;

pub const TARGET_NAMES: [&str; 7] = ["http-request(tokio)", "http-response", "ws-frame", "ws-message", "ws-message-nonblocking", "json", "config"];

fn sizes(mode: u8) -> Vec<usize> {
    if mode == 1 {
        vec![1]
    } else {
        vec![usize::MAX]
    }
}

/// (returned a value?, progress, message)
pub fn parser_target(target: u8, mode: u8, data: &[u8]) -> (bool, u8, String) {
    thread_local! {
        static RT: tokio::runtime::Runtime = tokio::runtime::Builder::new_current_thread().enable_all().build().unwrap();
    }
    match target {
        T_REQUEST => RT.with(|rt| {
            rt.block_on(async {
                let mut rd = PlanAsyncReader::new(data.to_vec(), sizes(mode));
                match humphrey::http::Request::from_stream(&mut rd, "1.2.3.4:5678".parse().unwrap()).await {
                    Ok(r) => (true, 0, format!("{} {} {}", r.method, r.uri, r.headers.len())),
                    Err(e) => (false, 0, format!("{:?}", e)),
                }
            })
        }),
        _ => (false, 9, "target not available in the tokio build".into()),
    }
}
