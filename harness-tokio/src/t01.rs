//! C01, tokio runtime: the same connection scripts, model and client, served by the tokio App with async
//! handlers. The tokio App has no connection timeout, so scripts run without idle steps (no 408 there).

use crate::engine::{hash_of, pt, show, Ctx, Fail};
use crate::props::c01::{arb_script, big_body, extras, huge_body, huge_response, cors_for, describe, labels_of, log_request, pool_recovery, render_request, run_script, AppState, LogEntry, Script, Server, Step};
use crate::tserver::{self, TRunning};
use humphrey::http::{Request, Response, StatusCode};
use humphrey::App;
use serde_json::{json, Value as J};
use std::sync::{Arc, Mutex};
use std::time::Duration;

struct TokioServer {
    running: TRunning,
    st: Arc<AppState>,
}

impl Server for TokioServer {
    fn addr(&self) -> std::net::SocketAddr {
        self.running.addr
    }
    fn log(&self) -> Vec<LogEntry> {
        self.st.log.lock().unwrap().clone()
    }
    fn stop(self: Box<Self>, max: Duration) -> Result<(), String> {
        self.running.stop(max)
    }
}

pub fn start_tokio(threads: usize, _timeout: bool, cors_kind: u8, ip: &str) -> Result<Box<dyn Server>, String> {
    let app: App<AppState> = App::new_with_config(AppState { log: Mutex::new(Vec::new()) });
    let st = app.get_state();
    let app = app
        .with_route("/echo", |r: Request, st: Arc<AppState>| async move {
            log_request(&st, &r);
            Response::new(StatusCode::OK, describe("E", &r))
        })
        .with_route("/empty", |r: Request, st: Arc<AppState>| async move {
            log_request(&st, &r);
            Response::empty(StatusCode::OK)
        })
        .with_route("/cors", |r: Request, st: Arc<AppState>| async move {
            log_request(&st, &r);
            Response::new(StatusCode::OK, describe("C", &r))
        })
        .with_route("/panic", |r: Request, st: Arc<AppState>| async move {
            log_request(&st, &r);
            if r.uri.len() < 1000 {
                panic!("handler panics on purpose");
            }
            Response::empty(StatusCode::OK)
        })
        .with_route("/big", |r: Request, st: Arc<AppState>| async move {
            log_request(&st, &r);
            Response::new(StatusCode::OK, big_body())
        })
        .with_route("/huge", |_r: Request, _st: Arc<AppState>| async move { Response::new(StatusCode::OK, huge_body().as_ref().clone()) })
        .with_cors_config("/cors", cors_for(cors_kind));
    let running = tserver::start(app, ip, threads.max(1))?;
    Ok(Box::new(TokioServer { running, st }))
}

pub fn run(ctx: &Ctx) {
    ctx.rule("tokio runtime: the same connection scripts (methods x targets x Connection x version x bodies x malformed kinds, per-request / byte-wise / random segmentation, sequential or pipelined boundaries), reference connection model and probing client as the threaded check, against the tokio App with async handlers (no connection timeout there, so no idle steps / 408); plus handler-panic recovery (after N..N+2 panicking handlers, N simultaneous keep-alive connections are all answered)");
    let cases = ctx.tier.pick(800u32, 20_000u32);
    let nshards = 16usize;
    crate::engine::shards(nshards, |i| {
        let ip = format!("127.0.5.{}", 1 + i);
        pt::run(
            ctx,
            "tokio-script",
            pt::Opts::new(cases / nshards as u32).salt(150 + i as u64).shrink_iters(24),
            arb_script(),
            |s| serde_json::to_value(s).unwrap(),
            |s| {
                let (nt, labels) = labels_of(s);
                ctx.case(hash_of(s), nt, &labels);
                ctx.sample(labels.last().unwrap(), || {
                    json!({"threads": s.threads, "seg": s.seg, "pipelined": s.pipelined, "requests": s.steps.iter().enumerate().map(|(k, st)| match st { Step::Idle => "<idle: dropped on tokio>".to_string(), Step::Request(r) => show(&render_request(r, k)[..render_request(r, k).len().min(160)]) }).collect::<Vec<_>>()})
                });
                let f = run_script(s, &ip, &start_tokio, false);
                if let Some(h) = f.iter().find(|x| x.sig.starts_with("harness-")) {
                    ctx.inconclusive(&format!("{}: {}", h.sig, h.detail));
                    return Vec::new();
                }
                f
            },
        );
    });
    let rec = ctx.tier.pick(16usize, 200usize);
    let found: Mutex<Vec<(Fail, J)>> = Mutex::new(Vec::new());
    let next = std::sync::atomic::AtomicUsize::new(0);
    crate::engine::shards(nshards, |i| loop {
        let k = next.fetch_add(1, std::sync::atomic::Ordering::SeqCst);
        if k >= rec {
            break;
        }
        let threads = 1 + k % 4;
        let panics = threads + k % 3;
        ctx.case(hash_of(&("recovery", threads, panics, k)), true, &["panic-recovery"]);
        let f = pool_recovery(threads, panics, &format!("127.0.5.{}", 1 + i), &start_tokio);
        for x in f {
            if x.sig.starts_with("harness-") {
                ctx.inconclusive(&x.detail);
            } else {
                found.lock().unwrap().push((x, json!({"threads": threads, "panics": panics})));
            }
        }
    });
    for (f, c) in found.into_inner().unwrap() {
        if !ctx.tolerate(&f) {
            ctx.violation(f, "tokio-recovery", c);
        }
    }
    // no connection timeout on tokio: only the late-read 8 MiB response
    extras(ctx, "127.0.5", &start_tokio, false, "tokio-");
}

pub fn replay(_ctx: &Ctx, kind: &str, case: &J) -> Vec<Fail> {
    match kind {
        "tokio-script" => match serde_json::from_value::<Script>(case.clone()) {
            Ok(s) => run_script(&s, "127.0.5.99", &start_tokio, false),
            Err(e) => vec![Fail::new("harness", format!("bad replay case: {}", e))],
        },
        "tokio-extra" => huge_response(case["delay_ms"].as_u64().unwrap_or(150), "127.0.5.99", &start_tokio),
        "tokio-recovery" => pool_recovery(case["threads"].as_u64().unwrap_or(1) as usize, case["panics"].as_u64().unwrap_or(1) as usize, "127.0.5.99", &start_tokio),
        _ => vec![Fail::new("harness", format!("unknown replay kind {}", kind))],
    }
}
