//! Scripted AsyncRead: delivers a byte string according to a read-size plan, then EOF.
//! Between plan steps it returns Pending once (and wakes itself) so that the parser really sees
//! separate reads, as it would with separate TCP segments.

use std::pin::Pin;
use std::task::{Context, Poll};
use tokio::io::{AsyncRead, ReadBuf};

pub struct PlanAsyncReader {
    data: Vec<u8>,
    pos: usize,
    plan: Vec<usize>,
    step: usize,
    left_in_step: usize,
    yield_next: bool,
}

impl PlanAsyncReader {
    pub fn new(data: Vec<u8>, plan: Vec<usize>) -> Self {
        let plan = if plan.is_empty() { vec![usize::MAX] } else { plan };
        let first = plan[0].max(1);
        PlanAsyncReader { data, pos: 0, plan, step: 0, left_in_step: first, yield_next: false }
    }
    pub fn consumed(&self) -> usize {
        self.pos
    }
}

impl AsyncRead for PlanAsyncReader {
    fn poll_read(mut self: Pin<&mut Self>, cx: &mut Context<'_>, buf: &mut ReadBuf<'_>) -> Poll<std::io::Result<()>> {
        if buf.remaining() == 0 || self.pos >= self.data.len() {
            return Poll::Ready(Ok(()));
        }
        if self.left_in_step == 0 {
            if self.step + 1 < self.plan.len() {
                self.step += 1;
            }
            self.left_in_step = self.plan[self.step].max(1);
            self.yield_next = true;
        }
        if self.yield_next {
            self.yield_next = false;
            cx.waker().wake_by_ref();
            return Poll::Pending;
        }
        let n = buf.remaining().min(self.left_in_step).min(self.data.len() - self.pos);
        let start = self.pos;
        buf.put_slice(&self.data[start..start + n]);
        self.pos += n;
        self.left_in_step -= n;
        Poll::Ready(Ok(()))
    }
}
