//! C02, tokio parser: the same specs, read plans and oracles as the sync check, with
//! `Request::from_stream` awaited over a scripted AsyncRead.

use crate::areader::PlanAsyncReader;
use crate::common::http::*;
use crate::engine::{catch, hash_of, pt, show, Ctx, Fail};
use crate::props::c02::{check_with, nontrivial, spec_json};
use humphrey::http::Request;
use proptest::prelude::*;
use serde_json::{json, Value as J};

fn parse_tokio(wire: &[u8], sizes: Vec<usize>, peer: std::net::SocketAddr) -> Result<Result<(Request, usize), String>, String> {
    thread_local! {
        static RT: tokio::runtime::Runtime = tokio::runtime::Builder::new_current_thread().enable_all().build().unwrap();
    }
    catch(|| {
        RT.with(|rt| {
            rt.block_on(async {
                let mut rd = PlanAsyncReader::new(wire.to_vec(), sizes);
                match Request::from_stream(&mut rd, peer).await {
                    Ok(r) => Ok((r, rd.consumed())),
                    Err(e) => Err(format!("{:?}", e)),
                }
            })
        })
    })
}

pub fn run(ctx: &Ctx) {
    ctx.rule("tokio parser: the same generated requests and read plans as the sync check, parsed with the async Request::from_stream over a scripted AsyncRead (which returns Pending between plan steps)");
    ctx.assume("scripted AsyncRead models read boundaries exactly");
    let cases = ctx.tier.pick(8_000u32, 150_000u32);
    crate::engine::shards(16, |i| {
        pt::run(
            ctx,
            "tokio-request",
            pt::Opts::new(cases / 16).salt(250 + i as u64),
            (arb_req(), any::<u64>()),
            |(s, seed)| spec_json(s, *seed),
            |(s, seed)| {
                let (nt, labels) = nontrivial(s);
                let wire = s.render();
                ctx.case(hash_of(&wire), nt, &labels);
                ctx.sample(labels.first().copied().unwrap_or("plain"), || json!({"wire": show(&wire), "peer": s.peer}));
                check_with(s, *seed, Some(ctx), &parse_tokio)
            },
        );
    });
}

pub fn replay(_ctx: &Ctx, _kind: &str, case: &J) -> Vec<Fail> {
    let spec: ReqSpec = match serde_json::from_value(case["spec"].clone()) {
        Ok(s) => s,
        Err(e) => return vec![Fail::new("harness", format!("bad replay case: {}", e))],
    };
    let seed = case["plan_seed"].as_str().and_then(|s| s.parse().ok()).unwrap_or(0);
    check_with(&spec, seed, None, &parse_tokio)
}
