//! C20, tokio runtime: the same traffic states and oracle, with the tokio App and a CancellationToken.

use crate::engine::{hash_of, pt, Ctx, Fail};
use crate::props::c20::{arb_scenario, mark, run_scenario2, ConnState, Gate, Scenario, Started, When, HUGE};
use humphrey::http::{Request, Response, StatusCode};
use humphrey::stream::Stream;
use humphrey::App;
use serde_json::Value as J;
use std::net::SocketAddr;
use std::sync::Arc;
use std::time::Duration;
use tokio::io::{AsyncReadExt, AsyncWriteExt};
use tokio_util::sync::CancellationToken;

fn build(gate: Arc<Gate>) -> App<Arc<Gate>> {
    App::new_with_config(gate)
        .with_route("/ok", |r: Request, s: Arc<Arc<Gate>>| async move {
            mark(&r, &s);
            Response::new(StatusCode::OK, "fine")
        })
        .with_route("/short", |r: Request, s: Arc<Arc<Gate>>| async move {
            mark(&r, &s);
            tokio::time::sleep(Duration::from_millis(25)).await;
            Response::new(StatusCode::OK, "short done")
        })
        .with_route("/long", |r: Request, s: Arc<Arc<Gate>>| async move {
            mark(&r, &s);
            *s.entered.lock().unwrap() += 1;
            loop {
                if *s.open.lock().unwrap() {
                    break;
                }
                tokio::time::sleep(Duration::from_millis(2)).await;
            }
            Response::new(StatusCode::OK, "long done")
        })
        .with_route("/huge", |r: Request, s: Arc<Arc<Gate>>| async move {
            mark(&r, &s);
            Response::new(StatusCode::OK, vec![b'h'; HUGE])
        })
        .with_websocket_route("/ws", |_r: Request, mut stream: Stream, _s: Arc<Arc<Gate>>| async move {
            let _ = stream.write_all(b"HTTP/1.1 101 Switching Protocols\r\nUpgrade: websocket\r\nConnection: Upgrade\r\n\r\n").await;
            let mut b = [0u8; 64];
            loop {
                match stream.read(&mut b).await {
                    Ok(0) | Err(_) => break,
                    Ok(_) => {}
                }
            }
        })
}

fn start_tokio(threads: usize, gate: Arc<Gate>, bind_addr: SocketAddr, signal_first: bool) -> Started {
    let token = CancellationToken::new();
    let gate2 = gate.clone();
    let app = build(gate).with_shutdown(token.clone());
    if signal_first {
        token.cancel();
    }
    let (done_tx, done_rx) = std::sync::mpsc::channel();
    std::thread::spawn(move || {
        let rt = tokio::runtime::Builder::new_multi_thread().worker_threads(threads.clamp(1, 4)).enable_all().build().unwrap();
        let r = rt.block_on(async move { app.run(bind_addr).await.map_err(|e| e.to_string()) });
        let _ = done_tx.send(r);
        // `run` has returned; connection tasks spawned by it keep running on this runtime, as they would in a
        // program whose main goes on after `run`: keep the runtime alive long enough for them to finish
        // ... that is, until the scenario is over (at most 20 s): thousands of idle runtimes would use up the process's threads
        let t = std::time::Instant::now();
        while !gate2.finished.load(std::sync::atomic::Ordering::SeqCst) && t.elapsed() < Duration::from_secs(20) {
            std::thread::sleep(Duration::from_millis(5));
        }
        rt.shutdown_background();
    });
    Started { done: done_rx, signal: Box::new(move || token.cancel()) }
}

pub fn run(ctx: &Ctx) {
    ctx.rule("tokio runtime: the same traffic states, signal timings and bind addresses as the threaded check, with async handlers and a CancellationToken; the runtime stays alive after `run` returns so that in-flight connection tasks can finish (as in a program that continues after run)");
    ctx.assume("tokio: connection handling is not limited by a pool, so `threads` only sizes the runtime (1..4 workers)");
    let cases = ctx.tier.pick(1440u32, 12000u32);
    let nshards = 16;
    crate::engine::shards(nshards, |i| {
        pt::run(
            ctx,
            "tokio-scenario",
            pt::Opts::new(cases / nshards as u32).salt(2050 + i as u64).shrink_iters(24),
            arb_scenario(),
            |s| serde_json::to_value(s).unwrap(),
            |s| {
                let f = run_scenario2(s, i, Some(ctx), &start_tokio, 26000);
                if let Some(h) = f.iter().find(|x| x.sig.starts_with("harness-")) {
                    ctx.inconclusive(&format!("{}: {}", h.sig, h.detail));
                    return Vec::new();
                }
                let not_idle = s.conns.iter().any(|c| !matches!(c, ConnState::IdleKeepAlive | ConnState::JustAccepted));
                let mut labels = vec!["scenario"];
                if not_idle {
                    labels.push("non-idle-connection");
                }
                match s.when {
                    When::DuringBurst(_) => labels.push("signal-during-burst"),
                    When::BeforeFirstConnection => labels.push("signal-before-first-connection"),
                    _ => labels.push("signal-after-states"),
                }
                ctx.case(hash_of(&format!("{:?}", s)), not_idle || matches!(s.when, When::DuringBurst(_)), &labels);
                ctx.sample(labels[labels.len() - 1], || serde_json::to_value(s).unwrap());
                f
            },
        );
    });
}

pub fn replay(_ctx: &Ctx, _kind: &str, case: &J) -> Vec<Fail> {
    match serde_json::from_value::<Scenario>(case.clone()) {
        Ok(s) => run_scenario2(&s, 15, None, &start_tokio, 26000),
        Err(e) => vec![Fail::new("harness", format!("bad replay case: {}", e))],
    }
}
