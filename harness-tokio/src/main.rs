//! hvt — the tokio-runtime twins of C01, C02, C04 and C20 (humphrey built with feature "tokio").
//! Shares the engine, generators, reference models and per-property core logic with /verif/harness
//! through #[path] includes. Writes a summary to /verif/target/tokio-<ID>.json which `hv` merges into
//! the evidence file of the property.
//! usage: hvt <ID> <quick|thorough>  |  hvt <ID> --replay <file>

#[macro_use]
#[path = "/verif/harness/src/engine/mod.rs"]
pub mod engine;

pub mod common {
    #[path = "/verif/harness/src/common/glob.rs"]
    pub mod glob;
    #[path = "/verif/harness/src/common/http.rs"]
    pub mod http;
    #[path = "/verif/harness/src/common/net.rs"]
    pub mod net;
    #[path = "/verif/harness/src/common/refs.rs"]
    pub mod refs;
    #[path = "/verif/harness/src/common/ws.rs"]
    pub mod ws;
}

pub mod props {
    #[path = "/verif/harness/src/props/c01.rs"]
    pub mod c01;
    #[path = "/verif/harness/src/props/c02.rs"]
    pub mod c02;
    #[path = "/verif/harness/src/props/c03.rs"]
    pub mod c03;
    #[path = "/verif/harness/src/props/c04.rs"]
    pub mod c04;
    #[path = "/verif/harness/src/props/c06.rs"]
    pub mod c06;
    #[path = "/verif/harness/src/props/c20.rs"]
    pub mod c20;
    pub use crate::ttargets as targets;
}

mod areader;
mod t01;
mod t02;
mod t04;
mod t20;
mod tserver;
pub mod ttargets;

use engine::{Ctx, Tier};

#[global_allocator]
static ALLOC: engine::worker::CountingAlloc = engine::worker::CountingAlloc;

fn main() {
    let args: Vec<String> = std::env::args().collect();
    if args.len() < 3 {
        eprintln!("usage: hvt <ID> <quick|thorough> | hvt <ID> --replay <file>");
        std::process::exit(2);
    }
    if args[1] == "worker" {
        // isolated worker process for C03 (tokio request parser)
        std::process::exit(engine::worker::worker_loop(ttargets::parser_target));
    }
    let id = args[1].to_uppercase();
    let seed: u64 = std::env::var("VERIF_SEED").ok().and_then(|s| s.trim().parse::<u64>().ok()).unwrap_or(20260928);
    engine::quiet_panics();
    if args[2] == "--replay" {
        let path = args.get(3).cloned().unwrap_or_default();
        let v: serde_json::Value = match std::fs::read_to_string(&path).ok().and_then(|t| serde_json::from_str(&t).ok()) {
            Some(v) => v,
            None => {
                eprintln!("cannot read replay file {}", path);
                std::process::exit(2);
            }
        };
        let mut ctx = Ctx::new(&id, Tier::Quick, seed, "exploration");
        ctx.replay_mode = true;
        let kind = v["kind"].as_str().unwrap_or("").to_string();
        let fails = match id.as_str() {
            "C01" => t01::replay(&ctx, &kind, &v["case"]),
            "C02" => t02::replay(&ctx, &kind, &v["case"]),
            "C03" => props::c03::replay(&ctx, &kind, &v["case"]),
            "C04" => t04::replay(&ctx, &kind, &v["case"]),
            "C06" => props::c06::replay(&ctx, &kind, &v["case"]),
            "C20" => t20::replay(&ctx, &kind, &v["case"]),
            _ => vec![engine::Fail::new("harness", "no tokio replay for this property")],
        };
        let mut code = 0;
        for f in fails {
            if ctx.tolerate(&f) {
                println!("KNOWN-FINDING: property={} key={} {}", id, f.sig, f.detail);
            } else {
                println!("VIOLATION property={} replay={}", id, path);
                println!("  signature: {}", f.sig);
                println!("  detail: {}", f.detail);
                code = 1;
            }
        }
        if code == 0 {
            println!("{} replay {}: property held (tokio runtime)", id, path);
        }
        std::process::exit(code);
    }
    let tier = match args[2].as_str() {
        "quick" => Tier::Quick,
        "thorough" => Tier::Thorough,
        _ => std::process::exit(2),
    };
    let mut ctx = Ctx::new(&id, tier, seed, "exploration");
    ctx.evidence_path = Some(format!("/verif/target/tokio-{}.json", id));
    ctx.replay_tag = "tokio-";
    match id.as_str() {
        "C01" => t01::run(&ctx),
        "C02" => t02::run(&ctx),
        "C03" => {
            ctx.rule("tokio build: the HTTP request inputs of the threaded check (seed prefixes, structural mutants incl. huge / overflowing Content-Length, alphabet strings, random bytes), all at once and byte by byte, through the tokio copy of Request::from_stream in isolated worker processes; same crash / abort / hang / memory oracle");
            let cases = props::c03::build_cases(&ctx, &[ttargets::T_REQUEST]);
            props::c03::run_cases(&ctx, cases);
        }
        "C04" => t04::run(&ctx),
        "C06" => props::c06::run(&ctx),
        "C20" => t20::run(&ctx),
        _ => {
            eprintln!("no tokio twin for {}", id);
            std::process::exit(2);
        }
    }
    std::process::exit(ctx.finish());
}
