//! hvt — the tokio-runtime twins of C01, C02, C04 and C20 (humphrey built with feature "tokio").
//! Shares the engine, generators, reference models and per-property core logic with /verif/harness
//! through #[path] includes. Writes a summary to /verif/target/tokio-<ID>.json which `hv` merges into
//! the evidence file of the property.
fn main() {
    println!("hvt placeholder");
}
