#!/bin/bash
# tools/seed_verify_all.sh <n1,n2> ID...   e.g. tools/seed_verify_all.sh 3,4 C02 C03
# Confirms the delivered changes /tmp/seed/<ID>/change<n>.diff one after the other (each applies its patch to /repo and
# reverts it), prints one summary line per seed.
cd /verif
ns="$1"; shift
for id in "$@"; do
  for n in ${ns//,/ }; do
    [ -f /tmp/seed/$id/change$n.diff ] || { echo "$id-$n: no change$n.diff"; continue; }
    out=$(timeout 3600 python3 tools/seed_verify.py $id $n 2>&1)
    conf=$(echo "$out" | grep -o '"confirmed": [a-z]*' | head -1)
    det=$(echo "$out" | tr -d '\n' | grep -o '"detected_by": \[[^]]*\]' | tr -s ' ')
    sig=$(echo "$out" | grep -o 'signature: [^"]*' | head -2 | tr '\n' ';')
    echo "$id-$n: $conf $det $sig"
    echo "$out" | grep -E "PASSES \(unexpected\)|FAILS \(unexpected\)|does not apply|cannot find|FAIL:" | head -3
  done
done
git -C /repo status --short | head -3
