#!/bin/bash
# Maintainer tool (not a registered check): runs the thorough fuzz tier for every property that has targets and folds the
# coverage-increasing inputs it found back into the committed corpus (corpus/fuzz/<target>/), minimised with libFuzzer's -merge.
# usage: tools/fuzz_campaign.sh [ID ...]
set -u
cd /verif
IDS="${*:-C02 C03 C05 C07 C10 C13 C16 C18}"
BIN=/verif/target/fuzz/x86_64-unknown-linux-gnu/release
for id in $IDS; do
  python3 tools/fuzz_tier.py "$id" thorough
  echo "== $id exit $?"
  for t in $(/verif/target/release/hv fuzz-targets | python3 -c "import json,sys; print(' '.join(t['target'] for t in json.load(sys.stdin) if t['property']=='$id'))"); do
    work=/verif/target/fuzz-work/$t
    [ -d "$work/corpus" ] || continue
    rm -rf "$work/merged"; mkdir -p "$work/merged"
    ASAN_OPTIONS=detect_leaks=0 "$BIN/$t" -merge=1 "$work/merged" "/verif/corpus/fuzz/$t" "$work/corpus" > "$work/merge.log" 2>&1
    # keep the committed corpus small: at most 600 inputs per target, smallest first
    n=0
    for f in $(ls -S -r "$work/merged"); do
      n=$((n+1)); [ $n -gt 600 ] && break
      cp "$work/merged/$f" "/verif/corpus/fuzz/$t/" 2>/dev/null
    done
    echo "   $t: merged $(ls "$work/merged" | wc -l) inputs, corpus now $(ls /verif/corpus/fuzz/$t | wc -l) files, $(du -sh /verif/corpus/fuzz/$t | cut -f1)"
  done
done
