#!/usr/bin/env python3
"""Confirms a seeded breaking change delivered by a sub-agent and runs the checks against it.

usage: seed_verify.py <PROPERTY_ID> <n> [--checks C01,C04] [--tier quick]

Looks in /tmp/seed/<ID>/ for change<n>.diff and demo<n>.rs. Steps, all in the scratch worktree /tmp/seed/<ID>:
  1. apply the change, run the workspace tests (only tests::client::test_url_parser may fail)
  2. place the demo where its header says, run it: must FAIL
  3. revert the change, run the demo again: must PASS; remove the demo
Then against /repo itself: apply the change, run ./check <ID> quick (and any --checks), revert (git checkout -- .).
Writes /verif/seeded/<ID>-<n>/{patch.diff,demo.rs,meta.json}.
"""
import json, os, re, shutil, subprocess, sys, time

def sh(cmd, cwd=None, timeout=3600):
    env = dict(os.environ, CARGO_NET_OFFLINE="true")
    p = subprocess.run(cmd, shell=True, cwd=cwd, stdout=subprocess.PIPE, stderr=subprocess.STDOUT, text=True, timeout=timeout, env=env)
    return p.returncode, p.stdout

def main():
    pid, n = sys.argv[1], sys.argv[2]
    checks = [pid]
    tier = "quick"
    if "--checks" in sys.argv:
        checks = sys.argv[sys.argv.index("--checks") + 1].split(",")
    if "--tier" in sys.argv:
        tier = sys.argv[sys.argv.index("--tier") + 1]
    wt = f"/tmp/seed/{pid}"
    diff = f"{wt}/change{n}.diff"
    demo = f"{wt}/demo{n}.rs"
    meta = {"property": pid, "change": n, "ran": []}
    head = open(demo).read().split("\n")[:25]
    place = None
    run = None
    for l in head:
        m = re.search(r"([\w./-]+/tests/[\w.-]+\.rs|[\w./-]+/examples/[\w.-]+\.rs)", l)
        if m and not place:
            place = m.group(1)
        m = re.search(r"(cargo (test|run)[^`\n]*)", l)
        if m and not run:
            run = "CARGO_NET_OFFLINE=true " + m.group(1).strip()
            rf = re.search(r'(RUSTFLAGS="[^"]*")', l)
            if rf:
                run = rf.group(1) + " " + run
    if not place or not run:
        print("cannot find placement/run command in demo header", place, run)
        sys.exit(2)
    extra_mod = None
    if "--mod" in sys.argv:
        # unit-test demos: "--mod <file to patch>:<line to append>"
        extra_mod = sys.argv[sys.argv.index("--mod") + 1].split(":", 1)
    if "--place" in sys.argv:
        place = sys.argv[sys.argv.index("--place") + 1]
    if "--run" in sys.argv:
        run = sys.argv[sys.argv.index("--run") + 1]
    place = place.lstrip("/")
    if place.startswith("tmp/seed/"):
        place = place.split("/", 3)[3]
    meta["demo_path"] = place
    meta["demo_cmd"] = run
    sh("git checkout -- . && git status --short", wt)
    rc, out = sh(f"git apply {diff}", wt)
    if rc != 0:
        print("patch does not apply in worktree:", out)
        sys.exit(2)
    # 1. existing tests with the change
    rc, out = sh("cargo test --workspace --no-fail-fast --offline 2>&1 | grep -E '^test .* \\.\\.\\. FAILED|^error\\[|could not compile' ", wt)
    failed = [l for l in out.split("\n") if l.strip()]
    failed = [l for l in failed if "test_url_parser" not in l]
    meta["existing_tests_with_change"] = "pass (only test_url_parser fails offline)" if not failed else "FAIL: " + "; ".join(failed[:5])
    meta["ran"].append("cargo test --workspace --no-fail-fast --offline  (with change)")
    # 2. demo with change
    os.makedirs(os.path.dirname(f"{wt}/{place}"), exist_ok=True)
    shutil.copy(demo, f"{wt}/{place}")
    def add_mod():
        if extra_mod:
            with open(f"{wt}/{extra_mod[0]}", "a") as fh:
                fh.write("\n" + extra_mod[1] + "\n")
    add_mod()
    rc1, out1 = sh(run + " 2>&1 | tail -15", wt)
    demo_fails = ("FAILED" in out1) or ("panicked" in out1) or ("error: test failed" in out1)
    meta["demo_with_change"] = "fails" if demo_fails else "PASSES (unexpected)"
    meta["ran"].append(run + "  (with change: expect failure)")
    # 3. revert, demo again
    sh("git checkout -- .", wt)
    add_mod()
    rc2, out2 = sh(run + " 2>&1 | tail -15", wt)
    demo_passes = ("test result: ok" in out2) and ("FAILED" not in out2)
    meta["demo_without_change"] = "passes" if demo_passes else "FAILS (unexpected): " + out2[-300:]
    meta["ran"].append(run + "  (without change: expect pass)")
    os.remove(f"{wt}/{place}")
    sh("git checkout -- .", wt)
    confirmed = (not failed) and demo_fails and demo_passes
    meta["confirmed"] = confirmed
    # against /repo with the checks (one at a time: several runs of this script may confirm their changes side by side)
    import fcntl
    lock = open("/tmp/seed_verify_repo.lock", "w")
    fcntl.flock(lock, fcntl.LOCK_EX)
    rc, out = sh("git status --short", "/repo")
    if out.strip():
        print("/repo is not clean:", out)
        sys.exit(2)
    rc, out = sh(f"git apply {diff}", "/repo")
    if rc != 0:
        print("patch does not apply to /repo:", out)
        meta["applies_to_repo"] = False
    else:
        results = {}
        try:
            for c in checks:
                t0 = time.time()
                rc, out = sh(f"./check {c} {tier}", "/verif", timeout=7200)
                viol = [l for l in out.split("\n") if l.startswith("VIOLATION")]
                sigs = [l.strip() for l in out.split("\n") if l.strip().startswith("signature:")]
                results[c] = {"exit": rc, "violations": len(viol), "signatures": sigs[:6], "seconds": round(time.time() - t0, 1)}
                meta["ran"].append(f"git -C /repo apply patch.diff && ./check {c} {tier}  -> exit {rc}")
        finally:
            sh("git checkout -- .", "/repo")
            # evidence written while the change was applied is not evidence about the unchanged tree
            sh("git checkout -- evidence", "/verif")
        meta["checks"] = results
        meta["detected_by"] = [c for c, r in results.items() if r["exit"] == 1]
    out_dir = f"/verif/seeded/{pid}-{n}"
    os.makedirs(out_dir, exist_ok=True)
    shutil.copy(diff, f"{out_dir}/patch.diff")
    shutil.copy(demo, f"{out_dir}/demo.rs")
    # a second delivery into the same worktree writes NOTES2.md (changes 15, 16)
    nf = f"{wt}/NOTES2.md" if (int(n) >= 15 and os.path.exists(f"{wt}/NOTES2.md")) else f"{wt}/NOTES.md"
    notes = open(nf).read() if os.path.exists(nf) else ""
    meta["agent_notes"] = notes[:6000]
    json.dump(meta, open(f"{out_dir}/meta.json", "w"), indent=1)
    print(json.dumps({k: meta[k] for k in meta if k not in ("agent_notes", "ran")}, indent=1))

main()
