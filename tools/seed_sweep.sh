#!/bin/bash
# tools/seed_sweep.sh <seed> [<seed> ...]: every quick check once per seed on the unchanged tree; prints only what is not clean.
cd /verif
git -C /repo status --short | grep -q . && { echo "/repo is not clean"; exit 2; }
for s in "$@"; do
  for i in $(seq -w 1 20); do
    out=$(VERIF_SEED=$s ./check C$i quick 2>&1); rc=$?
    if [ $rc -ne 0 ] || echo "$out" | grep -q "VIOLATION\|INCONCLUSIVE"; then
      echo "== seed $s C$i exit $rc"; echo "$out" | grep -E "VIOLATION|signature|detail|INCONCLUSIVE" | head -6
    fi
  done
  echo "seed $s done"
done
