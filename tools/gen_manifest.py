#!/usr/bin/env python3
"""Regenerates /verif/MANIFEST.json from the table below (kept in one place so it stays valid)."""
import json, os, subprocess

ROOT = os.path.dirname(os.path.dirname(os.path.abspath(__file__)))

# id -> (level category, technique, level text, level note, design ref)
CHECKS = {
 "C05": ("exploration",
         "bounded-exhaustive enumeration + proptest random generation, differential against a reference DP glob matcher",
         "Differential check of humphrey::krauss::wildcard_match against an independent O(n*m) reference matcher over the complete space of patterns<=6 x texts<=8 on three alphabets (1.68M pairs, exhaustive) plus random long pairs built from self-overlapping literals; both directions (no false negatives, no false positives). Exhaustive for the enumerated space, sampled beyond it.",
         "Trusts the reference DP matcher (cross-checked against a naive recursive matcher on every run) and proptest.",
         "DESIGN.md §5 C05"),
 "C18": ("exploration",
         "bounded-exhaustive enumeration + proptest random generation, differential against RFC reference implementations",
         "Differential check of Humphrey's SHA-1, Base64 encode/decode, percent encode/decode and DateTime against independent reference implementations over the spaces the property names: SHA-1 every length 0..1100 x 3 contents + random to 64 KiB/1 MiB; Base64 all 1/2/3-byte inputs (2^24) and decode of all 65^4 four-symbol groups, plus random malformed strings; percent all bytes/byte pairs/short strings/%XY for every ASCII XY; dates every day 1970..9999 at 00:00:00 and 23:59:59, every second of 8 boundary days, random timestamps. Exhaustive on the enumerated spaces.",
         "Trusts the reference implementations in harness/src/common/refs.rs, which are self-tested on every run against RFC 3174 vectors and the cached `base64` and `httpdate` crates (disagreement = exit 2).",
         "DESIGN.md §5 C18"),
 "C13": ("exploration",
         "bounded-exhaustive enumeration + proptest grammar-based generation with single-edit mutation, differential against a strict RFC 8259 reference recogniser/evaluator; serialise/parse round-trip",
         "Value::parse is compared (accept/reject and denoted value, member order included) with an independent strict RFC 8259 recogniser on: every string of <=5 tokens over a 16-token JSON alphabet, every number-like string of <=7 symbols, the repo's JSONTestSuite files, forced nesting depths around the 256 limit, and grammar-generated documents with generated whitespace/escape/number spellings plus their single-edit mutants. serialize/serialize_pretty(0..8) of generated Values (all Unicode, full finite f64 range) must be accepted by the reference, denote the same value, and parse back equal. Exhaustive on the enumerated spaces, sampled beyond.",
         "Trusts the reference recogniser (cross-checked against serde_json on every case where they are expected to agree, and against JSONTestSuite y_/n_ expectations; disagreement = exit 2) and Rust's f64 parsing for number values.",
         "DESIGN.md §5 C13"),
 "C02": ("exploration",
         "proptest grammar-based generation of requests x enumerated/sampled read segmentations; oracle = generating spec (faithfulness), metamorphic equality across segmentations, round-trip through a strict reference request parser",
         "Requests generated from the supported HTTP/1.x grammar (5 methods, query, 0..40 headers incl. repeated names/non-ASCII values, Cookie, X-Forwarded-For with/without spaces, Content-Length bodies to 64 KiB) are parsed by Request::from_stream over a scripted reader under whole / byte-wise / every single split (short messages) or 64 biased splits / random multi-split plans. The parse must equal the spec, be identical under every plan, and Vec<u8>::from(Request) must be accepted by an independent strict parser as the same request and re-parse equal. Sampled, with measured class histogram in the evidence.",
         "Trusts the in-memory scripted reader as a model of read boundaries and the reference request parser in common/http.rs. Both parsers: the sync one in crate hv and the tokio one (async Request::from_stream over a scripted AsyncRead that returns Pending between plan steps) in crate hvt; the evidence file merges both runs (labels prefixed `tokio:`).",
         "DESIGN.md §5 C02"),
 "C07": ("exploration",
         "proptest generation + bounded-exhaustive chunk compositions, validated by a strict reference response parser/encoder (round-trip + differential), scripted loopback servers for the client",
         "(i) Responses built via the public API over every modelled StatusCode, 0..40 headers, all 256 Set-Cookie attribute combinations and bodies to 64 KiB are serialised and must parse under an independent strict response parser with the registered reason phrase, one line per header/cookie and the exact body, and parse back equal through Response::from_stream. (ii) Conforming responses rendered by a reference encoder with Content-Length or chunked framing (every composition of bodies <=6 bytes into chunks exhaustively; random chunkings above; both hex cases) must be returned exactly under whole/byte-wise/every-split/random read plans. (iii) Client::get/post/put/delete with redirects against scripted loopback servers on 127.x.0.y:80 over chains of 0..5 redirects {301,302,307} with relative and absolute Location: every hop must see the right method, target, Host and body and the client must return the final response.",
         "Trusts the reference response parser/encoder (self-checked: it must read back every generated response) and the scripted reader; the client part needs to bind port 80 on loopback aliases (skipped and reported if impossible). Known finding: stray CRLF after non-empty bodies (pinned by repo tests).",
         "DESIGN.md §5 C07"),
 "C10": ("exploration",
         "bounded-exhaustive enumeration of frame headers + proptest frame generation, differential against a reference RFC 6455 codec under enumerated read segmentations; isolated worker for huge claimed lengths",
         "Through the cfg-gated hook, Humphrey's frame encoder is compared byte-for-byte with a reference RFC 6455 §5.2 encoder over FIN x RSV x opcodes x mask x boundary and random payload lengths (to 70 KiB quick / 1 MiB thorough), and its decoder with a reference decoder: all 65 536 two-byte headers with nothing / truncated / complete remainders, every split point of short frames, sampled splits of long ones; truncation must give ReadError, reserved opcodes InvalidOpcode, and decode(encode(f)) = f with the payload unmasked. Truncated frames claiming up to 2^64-1 bytes run in a child process with an allocation counter: error, no abort, bounded allocation. Message::to_frame checked for text/binary at the boundary lengths.",
         "Trusts the reference codec in common/ws.rs and the scripted reader. Frame.payload is taken to be the on-the-wire payload (the encoder does not apply the mask), as the code documents.",
         "DESIGN.md §5 C10"),
 "C03": ("exploration",
         "structure-aware mutation + bounded-exhaustive short strings + seed-prefix enumeration + random bytes, executed in isolated worker processes with an allocation-counting allocator, RLIMIT_AS and a CPU watchdog (crash / abort / hang / memory oracle)",
         "For each of the seven parser entry points (HTTP request, HTTP response, WebSocket frame via hook, WebSocket message blocking and non-blocking over a loopback socket pair, JSON, config parse_conf+from_tree) the check feeds every prefix of every seed message, structure-aware mutants (length fields -> boundary/huge values, separators deleted/doubled, multi-byte and invalid UTF-8 at every position, frame length bytes patched), deep nesting, all strings of <=4 (quick) / <=5 (thorough) symbols over a protocol alphabet, random alphabet strings and random bytes, all-at-once and byte-by-byte. Oracle per call: returns Ok/Err (no panic, no process death, no stack overflow on a 2 MiB / 8 MiB stack), terminates within 10 s CPU, and peak + largest single allocation <= 1024 x input + 64 KiB.",
         "Trusts the worker protocol (death attributed to the running case and confirmed in a fresh worker), the counting allocator, and the memory constant (set from the honest worst case ~450x for JSON; a claimed-length allocation below ~1 MiB would not be flagged). Config inputs with `include` or device paths are skipped and counted.",
         "DESIGN.md §5 C03"),
 "C16": ("exploration",
         "model-based stateful testing: bounded-exhaustive operation sequences + proptest random sequences against a reference map, lock-order linearisation check for concurrent use, handler-level history invariant",
         "Every set/get sequence up to length 4 (quick) / 5 (thorough) over 24 operations, for three limit/size/time settings, plus random sequences (to 120 ops, 32 keys, limits 0..64 KiB, time limits 0/1/60) and 2000-op sequences, is applied to the real Cache and to a reference map; after every step all keys ever stored are looked up: a hit must be exactly the latest bytes and MIME type for that (host, path), retrievable bytes must not exceed the limit, and a stored item must be retrievable at once. 1..8 threads use one RwLock<Cache> as the handlers do with operations numbered under the lock, and the log is replayed on the model. Sleep cases check expiry; file_handler/directory_handler run over files rewritten between requests (body = current content or content served before for the same (host, uri)).",
         "Trusts the reference map model and wall-clock seconds for the few expiry cases (a miss right after a set is tolerated only when time_limit=0 and the second changed). Set sizes never exceed the limit, as the only caller guarantees.",
         "DESIGN.md §5 C16"),
 "C15": ("exploration",
         "model-based generation: a configuration model rendered by a randomising printer (round-trip against the model, metamorphic across layouts) + single-fault mutation with expected rejection and error location",
         "Configuration models (all documented keys, 0..4 hosts, 0..8 routes of every type incl. multi-pattern routes, proxy lists, size units in both cases, noise keys/sections) are rendered with random indentation, comments, blank lines, key order and include-file splitting nested to 3, in three layouts; parse_conf + Config::from_tree must succeed and equal the model field by field with file order and defaults. For each of nine single-fault mutant classes (missing { or }, missing value, bad number, bad enum, unknown unit, unterminated quote, out-of-range, non-ASCII at a random position, in the main or an included file) the loader must return an error that names the right file and line for syntax-level faults, and never panic or accept the file.",
         "Trusts the model-to-Config comparison and the printer (restricted to the documented syntax: exact `server {`, spaces between key and value, no `#` inside quoted values, no duplicate keys).",
         "DESIGN.md §5 C15"),
 "C06": ("exploration",
         "generated directory trees + generated/enumerated hostile request paths, canary-based confinement oracle and completeness oracle against the generated tree",
         "For generated directory trees (nested directories, index files, extension-less / multi-dot / spaced / Unicode / %-containing names) with canary files placed next to the root, two levels up, in a prefix-named sibling and as an outside index.html, the handlers serve_dir (/* and /s/*), serve_as_file_path and the server's directory_handler (cache on/off) are called in-process with: every file by its path (200, exact bytes, Content-Type per an independent extension table), every directory with and without trailing slash (301 to slash form; index.html, else index.htm, else 404), random compositions of up to 5 hostile segments and a targeted grid of 32 400 traversal spellings. No response may contain canary bytes and every 200 body must be the content of a file inside the root.",
         "Trusts the canary construction and the in-process call convention (uri = route prefix + path, as the router would dispatch). Symlinks excluded.",
         "DESIGN.md §5 C06"),
 "C17": ("exploration",
         "model-based stateful testing: proptest operation sequences against a reference model of users/sessions, with a full token sweep after every step; auth route driven over loopback",
         "Sequences of up to 60 operations over up to 5 users (create/remove user, verify with right/wrong/other/unknown credentials, create_session with default / already-expired / long lifetime, refresh, invalidate, invalidate_user_session, get_uid_by_token, exists, and requests to a with_auth_route route of a real App on loopback with no / garbage / any ever-issued token), with and without pepper and with default or zero refresh lifetime, are run against AuthProvider<Vec<User>> and a reference model. Every return value is predicted by the model, and after every step every token ever issued must authenticate exactly its owner iff its session is live; tokens must be 64 lower-case hex digits and never repeat.",
         "Trusts the reference model; only lifetimes 0 and >=3600 s are used so no expectation depends on the clock.",
         "DESIGN.md §5 C17"),
 "C04": ("exploration",
         "proptest generation of application configurations and requests, differential against a reference router over real loopback sockets",
         "Generated applications (0..4 host sub-apps with literal / wildcard host patterns, 0..6 HTTP and 0..3 WebSocket routes each, plus a default app; patterns over a tiny segment alphabet so they overlap and shadow) are started as a real App on loopback; 30 requests each (Host absent / exact / wildcard-matching / with port / non-matching / matching several hosts; paths matching several, one or no route; optional query; plain and WebSocket upgrade). Each handler answers with its identity; a reference router built on the reference glob matcher predicts the handler by the stated rule (first matching host, first matching route in it, else first matching default route, else 404 / connection closed without upgrade).",
         "Trusts the reference router and glob matcher. Both runtimes: threaded App (crate hv) and tokio App with async handlers (crate hvt), merged into one evidence file.",
         "DESIGN.md §5 C04"),
 "C01": ("exploration",
         "stateful proptest generation of connection scripts x client write segmentations against a real App on loopback; oracle = reference connection model + strict reference response parser; probe-based (not timeout-based) keep-alive/close decisions; handler-side dispatch log",
         "Scripts of 1..6 steps (5 methods x routed/unrouted/CORS/echo/empty/70 KB/panicking targets x Connection absent/close/keep-alive in four letter cases x HTTP/1.0|1.1 x Content-Length bodies incl. request-looking and >8 KiB ones x 7 malformed kinds x idle past the timeout), pool size 1..4, delivered per request / byte-wise / in random segments, with sequential or pipelined boundaries, run against a real threaded App. A reference model predicts every response: status, echoed version, one IMF-fixdate Date, Server, exactly the route's CORS headers, Content-Length framing equal to the body, the body itself (which restates the request the handler saw), 400/408 + close, EOF without bytes for a panicking handler; whether the connection stays open is decided by a follow-up request that must (or must not) be answered; the handlers' dispatch log must equal the well-formed routed requests sent. After panics new connections and N simultaneous keep-alive connections on an N-thread pool must still be served.",
         "Trusts the reference model and response parser; the kernel may coalesce client segments (weakens coverage only). Known findings tolerated and counted: stray CRLF after bodies (K2) and loss of pipelined read-ahead bytes (K1; tails after a pipelined boundary are judged leniently: only exact later responses in order or 400s). Both runtimes: the threaded App (crate hv) and the tokio App with async handlers (crate hvt; it has no connection timeout, so its scripts carry no idle steps and 408 is only checked on the threaded runtime); the evidence file merges both runs (labels prefixed `tokio:`).",
         "DESIGN.md §5 C01"),
 "C09": ("fault_enumeration",
         "fault enumeration (every valid upstream response cut at every byte offset) + proptest generation of requests / upstream behaviours against a scripted loopback upstream; oracle = strict reference response parser on the bytes actually sent, reference request parser on the bytes received, deadline; model-based load-balancer sequences",
         "Generated valid upstream responses (every modelled status; Content-Length, chunked, close-delimited) are each cut at every byte offset and closed (exhaustive per response), and random cases add segmented delivery, garbage, header-malformed, bare-LF, unmodelled status, refused, accept-then-close, accept-then-silence, stall mid-response and 50 ms trickle upstreams, through proxy_request and the server's proxy_handler. The call must return (no panic), within timeout + active sending time + 2 s, the upstream's status/headers/body when what the upstream sent is a complete valid response by the reference parser and 502 otherwise; the upstream must have received the client's request (prefix stripped for proxy_handler) plus one X-Forwarded-For = origin address. LoadBalancer::select_target: strict rotation single-threaded, exact fairness with 1..8 threads, random stays in the set.",
         "Trusts the reference parsers and the scripted upstream; ambiguous cut zones (close-delimited bodies, after a chunked body's terminal 0 CRLF) accept either reading; proxy_handler's 5 s timeout is hard-coded so only a few stall cases go through it.",
         "DESIGN.md §5 C09"),
 "C11": ("exploration",
         "stateful proptest generation of WebSocket sessions (handler behaviour x client frame script x delivery) against a real App on loopback; oracle = reference RFC 6455 client/codec: handshake accept value, strict validation of every server byte, required reply sequence, server-side received-message log",
         "Sessions against a real App with websocket_handler: the handler runs a recv loop, a recv_nonblocking polling loop, sends k messages first, or drops the stream immediately / after j messages; the reference client sends text/binary messages of 0..70 KiB in 1..5 fragments with pings interleaved, pings, pongs, and ends with a Close (with/without payload), by waiting for the server drop, or abruptly; keys absent / sample / any printable / empty / 200 chars; frames delivered whole, byte-wise, split after k bytes (inside header, extended length, key) or randomly. The 101 must carry the reference Sec-WebSocket-Accept (no key: no 101); every byte after it must decode as legal unmasked frames equal to the required sequence (server messages, one Pong with equal payload per Ping in order, Close for Close, Close on drop); the handler's received messages (fragments concatenated, type from the first fragment) must equal the client's, identically for blocking and non-blocking receive, and a client Close must surface as ConnectionClosed.",
         "Trusts the reference codec/client. When the server stops while client bytes are still unread the kernel resets the connection and may discard the server's last bytes, so in those scripts only a prefix of the server frames is compared. A vanished peer is reported by recv_nonblocking as `nothing yet` (not judged).",
         "DESIGN.md §5 C11"),
 "C12": ("exploration",
         "stateful proptest generation of multi-client scenarios (scripts, pool sizes, poll intervals, external sends) against a real App + AsyncWebsocketApp on loopback; history invariants over the handler event log and each client's received frames",
         "Scenarios of 1..8 reference WebSocket clients (send text/binary in 1..3 fragments, bursts of several messages in one write, ping, sleeps; leaving with a Close or vanishing abruptly with the heartbeat on), handler pools of 1..8 threads, poll interval none..10 ms, and an external AsyncSender issuing unicasts and broadcasts, ended by a shutdown signal. Checked over the event log and the clients' frames: connect and disconnect exactly once per client; each client message dispatched exactly once; with a 1-thread handler pool connect before first message, messages in send order, nothing after disconnect; each echo unicast reaches exactly its sender once; external messages at most once, unicasts only at their addressee, and every client that was connected and not leaving when one was issued receives it; run() returns within 10 s of the shutdown signal.",
         "Interleavings are those the OS scheduler and the generated delays produce (no controlled scheduler), so a race can be missed but the oracle accepts every linearisation the property allows. Heartbeat 100 ms / 1.5 s; clients answer pings.",
         "DESIGN.md §5 C12"),
 "C19": ("exploration",
         "random generation of blacklist configurations, client addresses and requests at two levels: in-process handler calls (volume) and the real server binary spawned from a generated configuration file with loopback clients bound to chosen source addresses (end to end)",
         "Level 1: file_handler, directory_handler, redirect_handler and proxy_handler are called in-process with an AppState built from a generated blacklist (IPv4/IPv6 entries), cache on/off (optionally warmed from an unlisted address) and requests parsed by the real parser from generated peers and X-Forwarded-For lists. Level 2: the real `humphrey` binary is built from the working tree and started from generated configuration files (block / forbidden mode, blacklist file, all four route types, cache on/off, 127.0.0.1 or [::1]); clients bind to generated source addresses in 127.0.0.0/8 and ::1. A listed peer must get zero bytes in block mode and 403 in forbidden mode whatever headers it sends, a request forwarded on behalf of a listed address must get 403, never the marker content or redirect target, and all-unlisted requests must be served normally (200 with marker / 301 / upstream's response).",
         "Trusts the scripted marker upstream and the ability to bind loopback aliases; requests where only an intermediate forwarded address is listed accept either outcome.",
         "DESIGN.md §5 C19"),
 "C20": ("exploration",
         "proptest generation of traffic states and signal timings against a real App on loopback; oracle = bounded-time return of run, immediate re-bind, complete responses for requests whose handler had started",
         "Scenarios with 0..16 connections each just accepted / idle keep-alive / half-sent / short handler / handler blocked on a harness gate / 6 MB response with a stalled reader / WebSocket open, pools of 1..8 threads (often fully occupied with queued connections), the signal sent before the first connection (even before run), after the states are established, or concurrently with a burst of connects, on 127.0.0.x, 0.0.0.0 and [::] with explicit ports. Before the signal a probe must be served (when a worker is free); after it App::run must return Ok within 10 s (on expiry one extra connection is made to pinpoint a lost wake-up), the same address must bind again immediately, and every request whose handler had started before the signal must still receive its complete response once the gate opens.",
         "Timing is sampled, not controlled; bounded time is the property, judged with a 10 s margin. Requests that were sent but whose handler had not started at the signal (still in the listen backlog or queued) are not required to be answered. Both runtimes: threaded (Receiver) and tokio (CancellationToken; the runtime is kept alive after run returns so in-flight tasks can finish).",
         "DESIGN.md §5 C20"),
 "C08": ("exploration",
         "schedule exploration owned by the harness: lifecycle scripts x panic placements x schedules, through a cfg-gated scheduling shim (token-passing scheduler under Mutex / mpsc / thread in thread/pool.rs and thread/recovery.rs); every schedule within a delay bound is enumerated (stateless DFS), pre-emption-bounded and proptest-generated random schedules beyond it; plus stateful proptest scenarios on the real OS scheduler (stress mode). Oracle: history invariants over start/finish records, witness batch, deadlock detection, final thread table",
         "Schedule mode (decides the interleaving-dependent part): a case is a (lifecycle script, schedule) pair. Scripts: start, k tasks with every panic placement, optionally wait-all / witness batch / a further panicking task (a restarted worker panicking again), optionally stop, then drop; N in 1..3, k up to 4; random scripts add restarts of a stopped pool and N = 4. Schedules: quick enumerates ALL schedules with at most 1 deviation from the default scheduler for all 738 scripts and at most 2 deviations for the 108 scripts with N <= 2, k <= 2, samples the pre-emption-bound-2 space (random frontier, 100 per script) and runs 1600 random (script, choice-vector) pairs; thorough raises the bounds (2 deviations for every script, 3 for the small ones, capped per script; 60 000 random). Every execution is checked at quiescence: each submitted task started exactly once and, unless it panics, finished exactly once (queued tasks survive stop/drop); at most N tasks between start and finish; the witness batch (N tasks that each wait for all N) completes, i.e. the pool is back to N usable workers after panics; the caller never blocks forever (a state with no runnable thread is reported as a deadlock, attributed to the script step) and never panics; every worker thread has exited. Stress mode (real scheduler): scenarios of 1..8 workers, up to 12 tasks with panic flags and busy times, witness, second round, early stop/drop with queued tasks; same invariants with 10 s limits and thread-local exit guards.",
         "Scheduling points are the shim's operations (lock, send, recv, spawn, join, thread exit, plus one yield inside each task); reorderings below that granularity (memory model) are not explored. Bounded: the enumerated spaces are those named above; larger scripts and deeper schedules are sampled, not exhausted. The detached recovery thread may stay blocked forever (it is not a worker). If thread/pool.rs is changed to use std items the shim does not wrap, ./check falls back to a build without the shim and only stress mode runs (said in the evidence file).",
         "DESIGN.md §5 C08, §3, §10"),
 "C14": ("exploration",
         "program generation: the harness writes Rust programs (type declarations via derive and json_map!, random values, json! literals from the JSON grammar), compiles them against the working tree and checks each case against a harness-side reference serialiser (round trip + documented shape + differential with Value::parse)",
         "Per batch ~40 generated type declarations (named structs 1..8 fields, tuple structs 1..6 fields, unit-variant enums 1..8 variants; #[derive(FromJson, IntoJson)] and json_map!; fields over bool / all integer widths / f64 / String / Option<T> / Vec<T> / earlier generated types; #[rename] strings with spaces, quotes, backslashes, non-ASCII, empty and JSON-special characters) with several random values each, and ~300 json! literals (null / arrays / objects / Rust expressions and variables in every position, variable keys, trailing commas, depth <= 6). One cargo build evaluates the whole batch; each case checks to_json == documented shape (member order included), from_json(to_json(v)) == v, from_str(to_string(v)) == v; each literal == its constructor-built value == Value::parse(equivalent text). A batch that fails to compile is bisected down to the offending case.",
         "Trusts the harness-side reference serialiser and cargo; generator restricted to documented forms (no Option<Option<T>>, no attributes other than rename, distinct keys). Known finding: 64-bit integers beyond 2^53 do not round-trip (Value::Number is f64).",
         "DESIGN.md §5 C14"),
}

NOT_YET = "check not built yet (work in progress; see DESIGN.md §5 for the intended design)"

def main():
    props = [json.loads(l) for l in open(os.path.join(ROOT, "properties.jsonl"))]
    ids = [p["id"] for p in props]
    try:
        hooks = subprocess.check_output(["git", "-C", "/repo", "log", "--format=%h %s", "--grep=^verif-hook:"], text=True).split("\n")
        hooks = [h.split(" ")[0] for h in hooks if h.strip()]
    except Exception:
        hooks = []
    checks = []
    for i in ids:
        if i not in CHECKS:
            continue
        cat, tech, text, note, ref = CHECKS[i]
        checks.append({
            "property_id": i,
            "quick_cmd": f"./check {i} quick",
            "thorough_cmd": f"./check {i} thorough",
            "evidence_file": f"/verif/evidence/{i}.json",
            "replay_cmd_template": f"./check {i} --replay {{path}}",
            "engine": "hv",
            "level_claimed": {"category": cat, "text": text, "design_ref": ref},
            "level_note": note,
            "technique": tech,
        })
    m = {
        "version": 1,
        "setup_cmd": "./setup.sh",
        "hooks": {
            "guard": "--cfg humphrey_verif (all hook code) plus --cfg humphrey_verif_shim (switches the use lines of thread/pool.rs and thread/recovery.rs to the scheduling shim)",
            "enable": "rustflags = [\"--cfg\", \"humphrey_verif\", \"--cfg\", \"humphrey_verif_shim\"] in /verif/harness/.cargo/config.toml (hvt: humphrey_verif only); ./check falls back to humphrey_verif alone if the pool no longer builds against the shim",
            "baseline_off_cmd": "cd /repo && cargo test --workspace --no-fail-fast --offline",
            "source_commits": hooks,
            "add_only": True,
        },
        "engines": [
            {"name": "hv", "path": "/verif/harness", "serves_properties": [c["property_id"] for c in checks],
             "kind_free_text": "Rust binary: proptest-driven random generation with shrinking, bounded-exhaustive enumeration, reference models/oracles, isolated worker processes, replay files, evidence writer"},
            {"name": "hvt", "path": "/verif/harness-tokio", "serves_properties": ["C01", "C02", "C04", "C20"],
             "kind_free_text": "Rust binary built against humphrey with feature `tokio`: the tokio-runtime twins, sharing engine / generators / oracles with hv through #[path] includes; its summary is merged into the property's evidence by hv"},
        ],
        "checks": checks,
        "not_applicable": [{"property_id": i, "reason": NOT_YET} for i in ids if i not in CHECKS],
        "notes": "Technique family: property-based testing and fuzzing. Exit codes: 0 held, 1 VIOLATION, 2 inconclusive. Known findings / fixed defects: /verif/known_findings.txt.",
    }
    json.dump(m, open(os.path.join(ROOT, "MANIFEST.json"), "w"), indent=1)
    print("wrote MANIFEST.json with", len(checks), "checks")

main()
