#!/usr/bin/env python3
"""Prompt for a fresh sub-agent that writes seeded breaking changes: mkprompt.py <ID> <worktree-dir> [--n 2] [--first-index 1] [--focus "<text>"]
The agent gets the property text and its own scratch worktree, nothing from /verif."""
import json, sys
pid = sys.argv[1]
wt = sys.argv[2]
n = int(sys.argv[sys.argv.index("--n") + 1]) if "--n" in sys.argv else 2
first = int(sys.argv[sys.argv.index("--first-index") + 1]) if "--first-index" in sys.argv else 1
focus = sys.argv[sys.argv.index("--focus") + 1] if "--focus" in sys.argv else ""
for l in open('/verif/properties.jsonl'):
    p = json.loads(l)
    if p['id'] == pid:
        break
names = ", ".join(f"change{first+i}.diff" for i in range(n))
demos = " / ".join(f"demo{first+i}.rs" for i in range(n))
num = {1: "ONE", 2: "TWO", 3: "THREE"}.get(n, str(n))
print(f"""You are helping to test a verification effort for the Rust project w-henderson/Humphrey (a dependency-free HTTP server with its own HTTP parser, WebSocket, JSON, thread pool and a config-driven server). You have your own scratch git worktree of the repository at {wt} (a detached checkout; work ONLY inside that directory; never read or touch /repo or /verif; there is no network, use `CARGO_NET_OFFLINE=true cargo ... --offline`).

Here is a semantic property the code base is supposed to satisfy:

PROPERTY {pid} — {p['title']}
Statement: {p['statement']}
Quantified over: {p['quantifier']['text']}

YOUR TASK: produce {num} different, independent, realistic code change(s) (the kind a careless refactor, an "optimisation" or an off-by-one might introduce) to the source under {wt} that each BREAK this property while (a) the workspace still compiles and (b) the existing test suite still passes: `cd {wt} && CARGO_NET_OFFLINE=true cargo test --workspace --no-fail-fast --offline` (the test `tests::client::test_url_parser` always fails offline; ignore it; everything else must pass). Prefer changes that need something SPECIFIC to manifest (a particular interleaving, a fault at a particular point, a multi-step sequence of operations, an unusual input, a boundary size, or two cooperating sites that each look fine alone) rather than ones that ordinary use would expose at once. Read the relevant source first to find where the property is implemented.
{focus}
The tree contains a little test instrumentation guarded by `cfg(humphrey_verif)` / `cfg(humphrey_verif_shim)` (files named verif_*.rs and some cfg-switched `use` lines). Leave those files alone and keep the cfg attribute lines as they are; edit the normal code.

For each change, also write a demonstration: a small self-contained Rust test or program (e.g. an integration test file under the relevant crate's tests/ directory or an example, using only std and the repository's crates) that FAILS with the change applied and PASSES on the unmodified tree. Verify both directions yourself by actually running it (if the failure needs a rare interleaving, the demo may force it with sleeps or many repetitions, but it must fail reliably with the change and pass reliably without).

Deliverables, all inside {wt}/:
 - {names}: each produced with `git diff` for the source change ONLY (not the demo), applicable with `git apply` to a clean checkout of the same commit;
 - {demos} (the demonstration source, with a comment at the top saying where to place it, e.g. `humphrey/tests/demo.rs`, and the exact `cargo test ...` command to run it);
 - NOTES.md: for each change, 3-6 lines: what it changes, which clause of the property it breaks, what is needed for it to manifest, the commands you ran and their outcome (tests pass with change; demo fails with change; demo passes without).
Leave the worktree itself clean at the end (git checkout of tracked files; the deliverable files are untracked and stay). Do not commit. Report back a brief summary (one line per change and whether everything was verified).""")
