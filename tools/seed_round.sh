#!/bin/bash
# tools/seed_round.sh <ID> <n> [<n> ...]: confirm the delivered changes of one property, run its check against each, print one line each.
# The scratch worktree is removed when every change was confirmed and detected.
cd /verif
id=$1; shift
allok=1
for n in "$@"; do
  python3 tools/seed_verify.py $id $n > /tmp/seed_verify_$id-$n.log 2>&1
  python3 - "$id" "$n" <<'PY'
import json,sys
id,n=sys.argv[1:3]
try:
    m=json.load(open(f'/verif/seeded/{id}-{n}/meta.json'))
    sig=[s for c in m.get('checks',{}).values() for s in c['signatures']][:2]
    print(f"{id}-{n} confirmed={m.get('confirmed')} tests='{m.get('existing_tests_with_change')}' demo+={m.get('demo_with_change')} demo-={m.get('demo_without_change')[:20]} detected_by={m.get('detected_by')} {sig}")
    sys.exit(0 if m.get('confirmed') and m.get('detected_by') else 1)
except Exception as e:
    print(f"{id}-{n} ERROR {e}"); sys.exit(1)
PY
  [ $? -ne 0 ] && allok=0
done
if [ $allok -eq 1 ]; then git -C /repo worktree remove --force /tmp/seed/$id && echo "worktree $id removed"; fi
