#!/usr/bin/env python3
"""Re-runs the check(s) against a kept seeded change: seed_recheck.py <ID>-<n> [--checks C01,C07] [--tier quick]
Applies /verif/seeded/<ID>-<n>/patch.diff to /repo, runs ./check, reverts, updates meta.json."""
import json, os, subprocess, sys, time
name = sys.argv[1]
pid = name.split("-")[0]
checks = [pid]
tier = "quick"
if "--checks" in sys.argv:
    checks = sys.argv[sys.argv.index("--checks") + 1].split(",")
if "--tier" in sys.argv:
    tier = sys.argv[sys.argv.index("--tier") + 1]
d = f"/verif/seeded/{name}"
meta = json.load(open(f"{d}/meta.json"))
def sh(cmd, cwd):
    p = subprocess.run(cmd, shell=True, cwd=cwd, stdout=subprocess.PIPE, stderr=subprocess.STDOUT, text=True, env=dict(os.environ, CARGO_NET_OFFLINE="true"))
    return p.returncode, p.stdout
rc, out = sh("git status --short", "/repo")
if out.strip():
    print("/repo not clean"); sys.exit(2)
rc, out = sh(f"git apply {d}/patch.diff", "/repo")
if rc != 0:
    print("patch does not apply:", out); sys.exit(2)
results = meta.get("checks", {})
try:
    for c in checks:
        t0 = time.time()
        rc, out = sh(f"./check {c} {tier}", "/verif")
        sigs = [l.strip() for l in out.split("\n") if l.strip().startswith("signature:")]
        results[c] = {"exit": rc, "violations": len([l for l in out.split("\n") if l.startswith("VIOLATION")]), "signatures": sigs[:6], "seconds": round(time.time() - t0, 1)}
        meta.setdefault("ran", []).append(f"git -C /repo apply patch.diff && ./check {c} {tier}  -> exit {rc} (re-check)")
        print(c, rc, sigs[:3])
finally:
    sh("git checkout -- .", "/repo")
    sh("git checkout -- evidence", "/verif")
meta["checks"] = results
meta["detected_by"] = [c for c, r in results.items() if r["exit"] == 1]
json.dump(meta, open(f"{d}/meta.json", "w"), indent=1)
