#!/usr/bin/env python3
"""Adds the one-line "what it changes / what it needs to manifest" description to seeded/*/meta.json."""
import json, os, glob
ROOT = os.path.dirname(os.path.dirname(os.path.abspath(__file__)))
NEEDS = {
 "C01-1": ("body read becomes a 4096-byte chunk loop that stops on a short read (request.rs, both runtimes)", "a Content-Length body that arrives split across TCP segments (or larger than what is buffered after the headers)"),
 "C01-2": ("keep_alive hoisted out of the request loop and only updated when the request parses (app.rs, both runtimes)", "a well-formed keep-alive request followed on the same connection by a malformed request or an idle timeout"),
 "C02-1": ("Headers::iter uses sort_unstable_by", "more than ~20 header fields with repeated names carrying different values, then serialise and re-parse"),
 "C02-2": ("request lines read up to CR, then consume(1) to skip the LF", "a read boundary exactly between a CR and its LF"),
 "C03-1": ("header loop slices len-2 after an ends_with('\\n') check", "a header line ending in a bare LF whose last character is multi-byte"),
 "C03-2": ("host/route blocks recurse with depth instead of depth+1", "~100k nested `host x {` / `route x {` lines (plain sections are still limited)"),
 "C04-1": ("krauss: tame finished and wild at `*` returns whether the pattern ends after that one star", "a pattern ending in two or more adjacent `*` and a text that ends where the run starts (`/api**` vs `/api`)"),
 "C04-2": ("get_handler searches every host-matching sub-app in order before the default", "two overlapping host patterns, the first without a route for the path and a later one with it"),
 "C05-1": ("backtracking no longer restores the saved text position", "a literal after `*` that overlaps itself in the text (`*aa`/`aaa`)"),
 "C05-2": ("early-out comparing pattern literal length in bytes with text length in chars", "a multi-byte character in the pattern and stars absorbing fewer characters than the pattern has continuation bytes"),
 "C06-1": ("try_find_path uses Path::join and strips only one leading slash", "a request path with a repeated leading slash followed by an absolute path (`///abs/canary.txt`, `/%2F/abs/...`)"),
 "C06-2": ("directory_handler keys the cache by the route-stripped URI", "cache on, two directory routes on one host sharing a relative path, requested through one route then the other"),
 "C07-1": ("Headers::iter uses sort_unstable_by", "more than 20 headers with at least two same-named ones"),
 "C07-2": ("CRLF after a chunk read with one read() and a ==2 check", "the reader running dry between the CR and LF after a chunk (segment boundary there, byte-wise delivery, or the 8192-byte buffer refill)"),
 "C08-1": ("workers batch up to 4 queued messages into a thread-local queue", "several messages already queued when a worker takes the lock, with a panic in a non-last task of the batch or tasks that must overlap"),
 "C08-2": ("recovery thread skips the restart when the handle is already taken", "the pool dropped while tasks are still queued, at least N of them panicking, with more tasks behind them"),
 "C08-3": ("ThreadPool::drop joins workers that report is_finished() with join().unwrap()", "the pool dropped after a panicked worker has ended but before the recovery thread has replaced it (then drop panics in the caller and the task queued behind the panic never runs)"),
 "C08-4": ("recovery thread polls with recv_timeout(100 ms) and retires when Arc::strong_count(&threads) == 1", "pool dropped while a worker is still busy, then a recovery poll timeout, and only then the busy worker's task panics (tasks queued behind it never run)"),
 "C09-1": ("CRLF after a chunk read with one read() and a ==2 check", "the upstream's data stopping exactly between the CR and LF after a chunk, or that pair straddling the 8192-byte refill"),
 "C09-2": ("read timeout set after the request is written, write timeout dropped", "an upstream that accepts and never reads, and a request body larger than the kernel socket buffers"),
 "C10-1": ("encoder boundary `length <= 0x10000` for the 16-bit form", "a payload of exactly 65536 bytes"),
 "C10-2": ("payload read in 4096-byte chunks, unmasked per chunk with the key index restarting at 0", "a masking key with differing bytes and a short read returning a payload segment whose length is not a multiple of 4"),
 "C11-1": ("SHA-1 padded length forgets the 0x80 byte", "a Sec-WebSocket-Key of length 20 mod 64 (key+GUID = 56 mod 64)"),
 "C11-2": ("recv_nonblocking reads every frame non-blockingly and drops fragments already read", "a fragmented message polled between two fragments"),
 "C12-1": ("broadcast loop stops at the first socket whose write fails (try_for_each)", "a peer that vanished abruptly, at least two sends hitting its socket, healthy clients after it in iteration order"),
 "C12-2": ("messages of one poll iteration dispatched as one pool task after the read loop; disconnect dispatched at once", "data messages and the Close frame arriving in the same poll interval"),
 "C13-1": ("removes the four-hex-digit guard on \\u escapes", "a \\u escape whose first character is `+`"),
 "C13-2": ("serialiser fast path copies strings verbatim unless a byte `< 0x1f` needs escaping", "a string or key containing U+001F and no other character that needs escaping"),
 "C14-1": ("json! object keys taken from stringify!(token) with quotes trimmed", "a key or rename string containing an escape sequence (quote, backslash, tab, newline)"),
 "C14-2": ("integer FromJson rejects numbers where `(n as i64) as f64 != n`", "an integer field value outside the i64 range (u64::MAX, usize::MAX)"),
 "C15-1": ("route list split with `split(\", \")` instead of `split(',')` + trim", "a multi-pattern route spelled `/a,/b`, `/a,  /b` or `/a , /b`"),
 "C15-2": ("blacklist block returns early when `file` is absent, so `mode` is never read", "`blacklist { mode \"forbidden\" }` (or an invalid mode) without `file`"),
 "C16-1": ("eviction loop credits the replaced entry's size even after that entry was evicted", "the oldest entry re-stored with a larger value while the cache is nearly full"),
 "C16-2": ("same key + same length treated as unchanged: only the timestamp is refreshed", "the same key re-stored with different content of identical length"),
 "C17-1": ("refresh guard `if session.expired()` instead of `!valid()`", "a refresh landing exactly on the expiry second (lifetime-0 session refreshed at once)"),
 "C17-2": ("token comparison by xor-fold over zip of the bytes", "an empty string, a prefix of a live token, or a live token with extra characters"),
 "C18-1": ("SHA-1 padding adds the extra block only when len%64 > 56", "a message of length 56 mod 64"),
 "C18-2": ("100-year cycle clamp written `.min(4)`", "29 February of a year divisible by 400"),
 "C19-1": ("directory_handler runs the cache lookup before the blacklist check", "cache on, a directory route, the URI already cached by an unlisted request, then a request forwarded for a listed address"),
 "C19-2": ("blacklist_check skips the connected peer (last entry of proxies)", "forbidden mode, a listed client sending a parseable unlisted X-Forwarded-For"),
 "C20-1": ("pool task channel becomes sync_channel(thread_count)", "the pool fully occupied and its queue full (>= 2 x threads pending connections) at the signal"),
 "C20-2": ("tokio run() waits 200 ms for connection tasks in a JoinSet, then returns and aborts them", "tokio runtime: a handler still running more than 200 ms after the signal"),
}
for d in sorted(glob.glob(f"{ROOT}/seeded/*/meta.json")):
    name = os.path.basename(os.path.dirname(d))
    m = json.load(open(d))
    if name in NEEDS:
        m["what_it_changes"] = NEEDS[name][0]
        m["needs"] = NEEDS[name][1]
        m["breaks_property"] = m.get("property")
        json.dump(m, open(d, "w"), indent=1)
print("ok")
