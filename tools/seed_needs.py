#!/usr/bin/env python3
"""Adds the one-line "what it changes / what it needs to manifest" description to seeded/*/meta.json."""
import json, os, glob
ROOT = os.path.dirname(os.path.dirname(os.path.abspath(__file__)))
NEEDS = {
 "C01-1": ("body read becomes a 4096-byte chunk loop that stops on a short read (request.rs, both runtimes)", "a Content-Length body that arrives split across TCP segments (or larger than what is buffered after the headers)"),
 "C01-2": ("keep_alive hoisted out of the request loop and only updated when the request parses (app.rs, both runtimes)", "a well-formed keep-alive request followed on the same connection by a malformed request or an idle timeout"),
 "C02-1": ("Headers::iter uses sort_unstable_by", "more than ~20 header fields with repeated names carrying different values, then serialise and re-parse"),
 "C02-2": ("request lines read up to CR, then consume(1) to skip the LF", "a read boundary exactly between a CR and its LF"),
 "C03-1": ("header loop slices len-2 after an ends_with('\\n') check", "a header line ending in a bare LF whose last character is multi-byte"),
 "C03-2": ("host/route blocks recurse with depth instead of depth+1", "~100k nested `host x {` / `route x {` lines (plain sections are still limited)"),
 "C04-1": ("krauss: tame finished and wild at `*` returns whether the pattern ends after that one star", "a pattern ending in two or more adjacent `*` and a text that ends where the run starts (`/api**` vs `/api`)"),
 "C04-2": ("get_handler searches every host-matching sub-app in order before the default", "two overlapping host patterns, the first without a route for the path and a later one with it"),
 "C05-1": ("backtracking no longer restores the saved text position", "a literal after `*` that overlaps itself in the text (`*aa`/`aaa`)"),
 "C05-2": ("early-out comparing pattern literal length in bytes with text length in chars", "a multi-byte character in the pattern and stars absorbing fewer characters than the pattern has continuation bytes"),
 "C06-1": ("try_find_path uses Path::join and strips only one leading slash", "a request path with a repeated leading slash followed by an absolute path (`///abs/canary.txt`, `/%2F/abs/...`)"),
 "C06-2": ("directory_handler keys the cache by the route-stripped URI", "cache on, two directory routes on one host sharing a relative path, requested through one route then the other"),
 "C07-1": ("Headers::iter uses sort_unstable_by", "more than 20 headers with at least two same-named ones"),
 "C07-2": ("CRLF after a chunk read with one read() and a ==2 check", "the reader running dry between the CR and LF after a chunk (segment boundary there, byte-wise delivery, or the 8192-byte buffer refill)"),
 "C08-1": ("workers batch up to 4 queued messages into a thread-local queue", "several messages already queued when a worker takes the lock, with a panic in a non-last task of the batch or tasks that must overlap"),
 "C08-2": ("recovery thread skips the restart when the handle is already taken", "the pool dropped while tasks are still queued, at least N of them panicking, with more tasks behind them"),
 "C08-3": ("ThreadPool::drop joins workers that report is_finished() with join().unwrap()", "the pool dropped after a panicked worker has ended but before the recovery thread has replaced it (then drop panics in the caller and the task queued behind the panic never runs)"),
 "C08-4": ("recovery thread polls with recv_timeout(100 ms) and retires when Arc::strong_count(&threads) == 1", "pool dropped while a worker is still busy, then a recovery poll timeout, and only then the busy worker's task panics (tasks queued behind it never run)"),
 "C01-3": ("connection timeout only armed when no write timeout is set yet; after the first byte only the read timeout is cleared (stream.rs + request.rs)", "threaded runtime with a connection timeout: one served keep-alive request, then idling — no 408 ever comes and the connection stays open"),
 "C01-4": ("body read by a 4096-byte chunk loop that stops on a short read (both runtimes)", "a segment boundary inside a Content-Length body, or a body larger than the 8 KiB read buffer"),
 "C04-3": ("client_handler keeps the matched host sub-app across the keep-alive loop", "two requests on one keep-alive connection, the first with a Host matching a sub-app, the second with a different or absent Host"),
 "C04-4": ("find(host) turned into a loop over every sub-app whose host pattern matches (get_handler and call_websocket_handler)", "two overlapping host patterns, the first without a route for the path, a later one with it"),
 "C11-3": ("frame payload read in chunks of up to 4096 bytes and unmasked per chunk with the mask index restarting at 0", "a masked payload arriving in more than one read with a read ending at an offset that is not a multiple of 4, and a key with differing bytes"),
 "C11-4": ("SHA-1 padded-length round-up +583 rewritten as +8+64+512 (= 584)", "an input of length 55 mod 64: a Sec-WebSocket-Key of exactly 19 (83, 147, ...) characters"),
 "C12-3": ("broadcast loop rewritten with try_for_each: stops at the first write error", "an abruptly vanished client still in the map, at least two broadcasts in one poll iteration, a live client later in iteration order"),
 "C12-4": ("disconnects of one poll iteration collected in a list and dispatched after the loop; a closed stream stays in the map during the heartbeat check", "heartbeat on, and a Close (or read error) seen in the same poll iteration in which that client's pong timeout elapses: two disconnect events"),
 "C14-3": ("Option<T>::from_json asks T first and falls back to None only if T rejects the value", "an Option<S> (or Vec<Option<S>> element) holding None where S is a named struct whose fields are all optional: comes back as Some(S { all None })"),
 "C14-4": ("json! object keys built from stringify!($key) with the quotes trimmed", "a key or rename string containing a quote, backslash or control character (escape sequences are never decoded)"),
 "C15-3": ("route's websocket option hoisted out of the per-pattern loop and handed out with take()", "a route with two or more comma-separated patterns and a websocket key: only the first keeps it"),
 "C15-4": ("included file parsed under the including file's name", "the single syntax fault lying inside an included file: reported with the root file's name"),
 "C19-3": ("blacklist sorted and de-duplicated as strings, looked up with binary_search by address", "a list whose string order differs from address order (127.0.0.9 and 127.0.0.10): some listed addresses are missed"),
 "C19-4": ("X-Forwarded-For entries passed through strip_port", "a listed IPv6 address ending in an all-decimal group (::1, 2001:db8::1) forwarded by an unlisted peer: the entry is mangled and dropped"),
 "C20-3": ("accept thread queues a marker task and waits for a worker to run it before stopping the pool", "every worker occupied by a long-lived connection at the signal (N idle keep-alive connections on an N-thread pool): run never returns"),
 "C20-4": ("tokio connection tasks kept in a JoinSet owned by run; dropping it at shutdown aborts them", "tokio runtime, a handler still running or a response still being written at the signal: truncated or no response"),
 "C09-1": ("CRLF after a chunk read with one read() and a ==2 check", "the upstream's data stopping exactly between the CR and LF after a chunk, or that pair straddling the 8192-byte refill"),
 "C09-2": ("read timeout set after the request is written, write timeout dropped", "an upstream that accepts and never reads, and a request body larger than the kernel socket buffers"),
 "C10-1": ("encoder boundary `length <= 0x10000` for the 16-bit form", "a payload of exactly 65536 bytes"),
 "C10-2": ("payload read in 4096-byte chunks, unmasked per chunk with the key index restarting at 0", "a masking key with differing bytes and a short read returning a payload segment whose length is not a multiple of 4"),
 "C11-1": ("SHA-1 padded length forgets the 0x80 byte", "a Sec-WebSocket-Key of length 20 mod 64 (key+GUID = 56 mod 64)"),
 "C11-2": ("recv_nonblocking reads every frame non-blockingly and drops fragments already read", "a fragmented message polled between two fragments"),
 "C12-1": ("broadcast loop stops at the first socket whose write fails (try_for_each)", "a peer that vanished abruptly, at least two sends hitting its socket, healthy clients after it in iteration order"),
 "C12-2": ("messages of one poll iteration dispatched as one pool task after the read loop; disconnect dispatched at once", "data messages and the Close frame arriving in the same poll interval"),
 "C13-1": ("removes the four-hex-digit guard on \\u escapes", "a \\u escape whose first character is `+`"),
 "C13-2": ("serialiser fast path copies strings verbatim unless a byte `< 0x1f` needs escaping", "a string or key containing U+001F and no other character that needs escaping"),
 "C14-1": ("json! object keys taken from stringify!(token) with quotes trimmed", "a key or rename string containing an escape sequence (quote, backslash, tab, newline)"),
 "C14-2": ("integer FromJson rejects numbers where `(n as i64) as f64 != n`", "an integer field value outside the i64 range (u64::MAX, usize::MAX)"),
 "C15-1": ("route list split with `split(\", \")` instead of `split(',')` + trim", "a multi-pattern route spelled `/a,/b`, `/a,  /b` or `/a , /b`"),
 "C15-2": ("blacklist block returns early when `file` is absent, so `mode` is never read", "`blacklist { mode \"forbidden\" }` (or an invalid mode) without `file`"),
 "C16-1": ("eviction loop credits the replaced entry's size even after that entry was evicted", "the oldest entry re-stored with a larger value while the cache is nearly full"),
 "C16-2": ("same key + same length treated as unchanged: only the timestamp is refreshed", "the same key re-stored with different content of identical length"),
 "C17-1": ("refresh guard `if session.expired()` instead of `!valid()`", "a refresh landing exactly on the expiry second (lifetime-0 session refreshed at once)"),
 "C17-2": ("token comparison by xor-fold over zip of the bytes", "an empty string, a prefix of a live token, or a live token with extra characters"),
 "C18-1": ("SHA-1 padding adds the extra block only when len%64 > 56", "a message of length 56 mod 64"),
 "C18-2": ("100-year cycle clamp written `.min(4)`", "29 February of a year divisible by 400"),
 "C19-1": ("directory_handler runs the cache lookup before the blacklist check", "cache on, a directory route, the URI already cached by an unlisted request, then a request forwarded for a listed address"),
 "C19-2": ("blacklist_check skips the connected peer (last entry of proxies)", "forbidden mode, a listed client sending a parseable unlisted X-Forwarded-For"),
 "C20-1": ("pool task channel becomes sync_channel(thread_count)", "the pool fully occupied and its queue full (>= 2 x threads pending connections) at the signal"),
 "C20-2": ("tokio run() waits 200 ms for connection tasks in a JoinSet, then returns and aborts them", "tokio runtime: a handler still running more than 200 ms after the signal"),
}
for d in sorted(glob.glob(f"{ROOT}/seeded/*/meta.json")):
    name = os.path.basename(os.path.dirname(d))
    m = json.load(open(d))
    if name in NEEDS:
        m["what_it_changes"] = NEEDS[name][0]
        m["needs"] = NEEDS[name][1]
        m["breaks_property"] = m.get("property")
        json.dump(m, open(d, "w"), indent=1)
print("ok")
