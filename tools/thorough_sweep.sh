#!/bin/bash
# Maintainer tool: every thorough tier once, sequentially; one summary line per property in /verif/target/thorough-sweep.log
cd /verif
: > /verif/target/thorough-sweep.log
for i in ${*:-$(seq -w 1 20)}; do
  id=C$i; t0=$(date +%s)
  out=$(./check $id thorough 2>&1); rc=$?
  t1=$(date +%s)
  echo "$id exit=$rc secs=$((t1-t0)) $(echo "$out" | grep -E "^$id thorough" | tail -1)" >> /verif/target/thorough-sweep.log
  echo "$out" | grep -E "VIOLATION|signature|INCONCLUSIVE" | head -6 >> /verif/target/thorough-sweep.log
done
echo done >> /verif/target/thorough-sweep.log
