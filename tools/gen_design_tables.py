#!/usr/bin/env python3
"""Fills the generated tables of DESIGN.md (§6 findings from known_findings.txt, §7 seeded changes from seeded/*/meta.json)."""
import json, os, re, glob
ROOT = os.path.dirname(os.path.dirname(os.path.abspath(__file__)))
s = open(f"{ROOT}/DESIGN.md").read()

rows = []
for l in open(f"{ROOT}/known_findings.txt"):
    l = l.strip()
    m = re.match(r"fixed: property=(C\d+) (\w+) (.*)", l)
    if m:
        rows.append((m.group(1), "fixed `%s`" % m.group(2), m.group(3)))
    m = re.match(r"known: property=(C\d+) key=(\S+) (.*)", l)
    if m:
        rows.append((m.group(1), "known `%s`" % m.group(2), m.group(3)))
rows.sort(key=lambda r: r[0])
t = "| Property | Disposition | What failed |\n|---|---|---|\n"
for r in rows:
    t += "| %s | %s | %s |\n" % (r[0], r[1], r[2].replace("|", "\\|"))
t += "\n%d repaired defects, %d known-finding entries.\n" % (sum(1 for r in rows if r[1].startswith("fixed")), sum(1 for r in rows if r[1].startswith("known")))
repl = "<!-- BEGIN GENERATED: findings -->\n" + t + "<!-- END GENERATED: findings -->"
s = re.sub(r"<!-- BEGIN GENERATED: findings -->.*?<!-- END GENERATED: findings -->", lambda m: repl, s, flags=re.S)

t = "| Seed | Confirmed | Needs (from the sub-agent's notes) | Detected by | First signature |\n|---|---|---|---|---|\n"
n_det = 0
n_all = 0
for d in sorted(glob.glob(f"{ROOT}/seeded/*/meta.json")):
    m = json.load(open(d))
    name = os.path.basename(os.path.dirname(d))
    n_all += 1
    det = m.get("detected_by", [])
    if det:
        n_det += 1
    sig = ""
    for c, r in m.get("checks", {}).items():
        if r.get("signatures"):
            sig = r["signatures"][0].replace("signature: ", "")
            break
    needs = m.get("needs", "")
    t += "| %s | %s | %s | %s | %s |\n" % (name, "yes" if m.get("confirmed") else "**no** (see meta.json)", needs.replace("|", "\\|"), ", ".join(det) if det else "**missed**", "`%s`" % sig if sig else "")
t += "\n%d of %d seeded changes are detected by a quick check.\n" % (n_det, n_all)
repl2 = "<!-- BEGIN GENERATED: seeded -->\n" + t + "<!-- END GENERATED: seeded -->"
s = re.sub(r"<!-- BEGIN GENERATED: seeded -->.*?<!-- END GENERATED: seeded -->", lambda m: repl2, s, flags=re.S)
open(f"{ROOT}/DESIGN.md", "w").write(s)
print("tables written:", len(rows), "findings,", n_all, "seeds")
