#!/usr/bin/env python3
"""Called by ./check when the harness process that hosts Humphrey was killed by SIGABRT / SIGSEGV / SIGBUS / SIGILL / SIGFPE:
tools/process_aborted.py <ID> <tier> <exit code> <stderr file> <hv|hvt>
Writes /verif/replay/<ID>-process-aborted.json (kind process-aborted) and a minimal evidence file, prints the VIOLATION lines.
Library code that takes the whole process down (a panic while panicking, a panic in a destructor during unwinding, abort,
stack overflow) ends every connection and every task of the application hosting it; on the unchanged tree no check ever
dies this way. A harness panic (exit 101) is NOT handled here: that stays inconclusive."""
import json, os, sys, time
pid, tier, code, errfile, which = sys.argv[1:6]
seed = int(os.environ.get("VERIF_SEED", "20260928") or 20260928)
try:
    tail = open(errfile, errors="replace").read().split("\n")[-25:]
except OSError:
    tail = []
signame = {132: "SIGILL", 134: "SIGABRT", 135: "SIGBUS", 136: "SIGFPE", 139: "SIGSEGV"}.get(int(code), "signal")
os.makedirs("/verif/replay", exist_ok=True)
path = f"/verif/replay/{pid}-process-aborted.json"
case = {"tier": tier, "seed": seed, "exit": int(code), "signal": signame, "binary": which, "stderr_tail": tail}
json.dump({"property": pid, "kind": "process-aborted", "signature": "process-aborted", "case": case}, open(path, "w"), indent=1)
ev = {
    "property_id": pid, "tier": tier if tier in ("quick", "thorough") else "quick", "seed": seed, "level": "fault_enumeration" if pid == "C09" else "exploration",
    "coverage": {"evaluations": 0, "distinct_nontrivial": 0,
                 "rule": "the run ended when code under test killed the process that hosts it; counts of the cases generated before that were lost with the process",
                 "samples": [case]},
    "assumptions": [], "wall_s": 0.0, "violations": 1,
}
json.dump(ev, open(f"/verif/evidence/{pid}.json", "w"), indent=1)
print(f"VIOLATION property={pid} replay={path}")
print("  signature: process-aborted")
print(f"  detail: the {which} process hosting the code under test was killed by {signame} (exit {code}) during ./check {pid} {tier}: library code took the whole process down; last lines of its stderr: " + " | ".join(l for l in tail if l.strip())[-600:])
