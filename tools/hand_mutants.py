#!/usr/bin/env python3
"""Hand-made single-site mutants: tools/hand_mutants.py [--only NAME,...] [--tier quick] [--jobs-serial]

Each entry is (name, property whose check must catch it, file under /repo, old text, new text, what it breaks).
For each: the text is replaced in /repo's working tree (exactly one occurrence, or `#k` after the file name picks the
k-th), `./check <ID> quick` is run, the tree is reverted (git checkout -- .) and /verif/evidence restored.
A mutant that still compiles and is NOT detected is a hole in the check (or a mutant that does not break the property:
decide which, never loosen anything). Results go to tools/hand_mutants_results.json (name -> exit code, first signatures).
These are cheap sensitivity probes; the seeded changes of sub-agents (seeded/) remain the independent ones.
"""
import json, os, subprocess, sys, time

R = "/repo/"
M = [
 # ---- C13 JSON
 ("c13-bs-b", "C13", "humphrey-json/src/parser.rs", "'b' => string.push(0x08 as char)", "'b' => string.push(0x07 as char)", "\\b denotes U+0007"),
 ("c13-ser-f", "C13", "humphrey-json/src/serialize.rs", '0x0c => string.push_str("\\\\f")', '0x0c => string.push_str("\\\\n")', "form feed serialised as \\n"),
 ("c13-ws-cr", "C13", "humphrey-json/src/parser.rs", "matches!(c.borrow(), ' ' | '\\t' | '\\n' | '\\r')", "matches!(c.borrow(), ' ' | '\\t' | '\\n')", "CR no longer whitespace"),
 ("c13-exp-plus", "C13", "humphrey-json/src/parser.rs", "digits(e.strip_prefix(|c| c == '+' || c == '-').unwrap_or(e))", "digits(e.strip_prefix('-').unwrap_or(e))", "1e+2 rejected"),
 ("c13-astral-raw", "C13", "humphrey-json/src/parser.rs", "0x20..=0x21 | 0x23..=0x5b | 0x5d..=0x10ffff => string.push(c),\n                    _ => return Err(self.traceback(ParseError::InvalidToken)),", "0x20..=0x21 | 0x23..=0x5b | 0x5d..=0xffff => string.push(c),\n                    _ => return Err(self.traceback(ParseError::InvalidToken)),", "raw astral characters rejected"),
 ("c13-depth-off1", "C13", "humphrey-json/src/parser.rs", "if self.depth == self.max_depth {", "if self.depth + 1 == self.max_depth {", "depth limit one too small"),
 ("c13-ser-astral", "C13", "humphrey-json/src/serialize.rs", "0x20..=0x21 | 0x23..=0x5b | 0x5d..=0x10ffff => string.push(c),", "0x20..=0x21 | 0x23..=0x5b | 0x5d..=0xd7ff => string.push(c),\n            0xe000..=0xffff => { write!(string, \"\\\\u{:04X}\", (c as u32) ^ 0x0).ok(); }", "BMP chars >= E000 escaped (valid) and astral ones as pairs: must stay valid (benign mutant: expect NOT detected)"),
 ("c13-pair-lowfirst", "C13", "humphrey-json/src/parser.rs", "char::decode_utf16([code, code_2])", "char::decode_utf16([code, code_2 & 0xdfff | 0xdc00])", "second escape of a pair forced into the low-surrogate range: \\ud83d\\u0041 accepted"),
 ("c13-empty-key-order", "C13", "humphrey-json/src/parser.rs", "object.push((key, value));", "if key.is_empty() { object.insert(0, (key, value)); } else { object.push((key, value)); }", "empty key moved to the front (document order)"),
 # ---- C18
 ("c18-pct-lowerhex", "C18", "humphrey/src/percent.rs", 'encoded += &format!("%{:02X}", byte);', 'encoded += &format!("%{:02x}", byte);', "lower-case hex in percent-encoding (RFC 3986 says upper case SHOULD; equality with the reference)"),
 ("c18-pct-tilde", "C18", "humphrey/src/percent.rs", "0123456789-_.~\";", "0123456789-_.\";", "~ encoded"),
 ("c18-date-weekday", "C18", "humphrey/src/http/date.rs", "let mut weekday = (days + 3) % 7;\n        if weekday < 0 {", "let mut weekday = (days + 3) % 7;\n        if weekday < -7 {", "weekday negative before 2000-03-01 is not normalised"),
 ("c18-date-y100", "C18", "humphrey/src/http/date.rs", "if y100_cycles == 4 {\n            y100_cycles -= 1;\n        }", "if y100_cycles == 5 {\n            y100_cycles -= 1;\n        }", "last day of a 400-year cycle"),
 # ---- C10
 ("c10-len-126", "C10", "humphrey-ws/src/frame.rs", "if f.length < 126 {", "if f.length <= 126 {", "length 126 in the 7-bit form"),
 ("c10-rsv-swap", "C10", "humphrey-ws/src/frame.rs", "header[0] & 0x20 != 0,\n            header[0] & 0x10 != 0,", "header[0] & 0x10 != 0,\n            header[0] & 0x20 != 0,", "RSV2/RSV3 swapped on decode"),
 ("c10-opcode-b", "C10", "humphrey-ws/src/frame.rs", "0xA => Ok(Self::Pong),", "0xA | 0xF => Ok(Self::Pong),", "reserved opcode 0xF accepted"),
 ("c10-mask-idx", "C10", "humphrey-ws/src/frame.rs", "*tem ^= masking_key[i % 4]", "*tem ^= masking_key[i & 3 | (i >> 16 & 1)]", "key index wrong beyond 64 KiB"),
 # ---- C02
 ("c02-cookie-trim", "C02", "humphrey/src/http/request.rs", "Some(Cookie::new(k.trim(), v.trim()))", "Some(Cookie::new(k.trim(), v.trim_matches(|c: char| c == ' ' || c == '\"')))", "quotes stripped from cookie values"),
 ("c02-query-rsplit", "C02", "humphrey/src/http/request.rs#1", ".splitn(2, '?');", ".rsplitn(2, '?');", "sync parser splits at the last ? (and swaps)"),
 ("c02-tab-ows", "C02", "humphrey/src/http/request.rs#1", ".trim_start_matches(|c| c == ' ' || c == '\\t'),", ".trim_start_matches(|c| c == ' '),", "HTAB after the colon kept in the value (sync)"),
 # ---- C05
 ("c05-empty-pattern", "C05", "humphrey/src/krauss.rs", None, None, "placeholder"),
]

def sh(cmd, cwd):
    p = subprocess.run(cmd, shell=True, cwd=cwd, stdout=subprocess.PIPE, stderr=subprocess.STDOUT, text=True,
                       env=dict(os.environ, CARGO_NET_OFFLINE="true"))
    return p.returncode, p.stdout

def main():
    only = None
    tier = "quick"
    if "--only" in sys.argv:
        only = set(sys.argv[sys.argv.index("--only") + 1].split(","))
    if "--tier" in sys.argv:
        tier = sys.argv[sys.argv.index("--tier") + 1]
    extra = []
    if "--file" in sys.argv:  # a JSON list of further entries [name, id, file, old, new, note]
        extra = [tuple(e) for e in json.load(open(sys.argv[sys.argv.index("--file") + 1]))]
    respath = "/verif/tools/hand_mutants_results.json"
    results = json.load(open(respath)) if os.path.exists(respath) else {}
    rc, out = sh("git status --short", "/repo")
    if out.strip():
        print("/repo not clean"); sys.exit(2)
    for name, pid, file, old, new, note in M + extra:
        if old is None or (only and name not in only):
            continue
        k = 0
        if "#" in file:
            file, k = file.split("#"); k = int(k)
        src = open(R + file).read()
        n = src.count(old)
        if n == 0 or (n > 1 and k == 0):
            print(f"{name}: old text occurs {n} times in {file}: skipped"); continue
        if k == 0:
            mut = src.replace(old, new, 1)
        else:
            parts = src.split(old)
            mut = old.join(parts[:k]) + new + old.join(parts[k:])
        import fcntl
        lock = open("/tmp/seed_verify_repo.lock", "w")   # shared with seed_verify.py: one user of /repo at a time
        fcntl.flock(lock, fcntl.LOCK_EX)
        if open(R + file).read() != src:
            print(f"{name}: {file} changed while waiting"); lock.close(); continue
        open(R + file, "w").write(mut)
        t0 = time.time()
        try:
            rc, out = sh(f"./check {pid} {tier}", "/verif")
        finally:
            sh("git checkout -- .", "/repo")
            sh("git checkout -- evidence", "/verif")
            lock.close()
        sigs = [l.strip() for l in out.split("\n") if l.strip().startswith("signature:")][:3]
        results[name] = {"property": pid, "file": file, "note": note, "exit": rc, "signatures": sigs, "seconds": round(time.time() - t0, 1)}
        print(f"{name}: exit {rc} {sigs[:2]} ({results[name]['seconds']} s) — {note}", flush=True)
        if rc not in (0, 1):
            print(out[-1500:])
        json.dump(results, open(respath, "w"), indent=1, sort_keys=True)

main()
