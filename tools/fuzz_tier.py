#!/usr/bin/env python3
"""Coverage-guided fuzzing tier of a property: fuzz_tier.py <ID> <quick|thorough> [--hv <path to hv>]

Builds the libFuzzer targets of the property (cargo +nightly fuzz, ASan, debug assertions on) against /repo's
working tree, runs a fixed amount of work per target (-runs per job, several jobs, seed from VERIF_SEED) from a
fresh working corpus seeded with /verif/corpus/fuzz/<target>/, and writes /verif/target/fuzz-<ID>.json, which
`hv` merges into evidence/<ID>.json. A saved crash input is re-evaluated with `hv fuzzcase` (the same oracle,
outside libFuzzer); if it is a violation the line `VIOLATION property=<ID> replay=<artifact>` is printed.

exit 0 = nothing found, 1 = violation, 2 = inconclusive (build failure, timeout/OOM artifact outside C03, ...).
"""
import glob, json, os, re, shutil, subprocess, sys, time

VERIF = "/verif"
TDIR = f"{VERIF}/target/fuzz"
BIN = f"{TDIR}/x86_64-unknown-linux-gnu/release"


def sh(cmd, cwd=None, env=None, timeout=None):
    e = dict(os.environ, CARGO_NET_OFFLINE="true")
    if env:
        e.update(env)
    p = subprocess.run(cmd, shell=True, cwd=cwd, env=e, stdout=subprocess.PIPE, stderr=subprocess.STDOUT, text=True, timeout=timeout, errors="replace")
    return p.returncode, p.stdout


def main():
    pid = sys.argv[1].upper()
    tier = sys.argv[2] if len(sys.argv) > 2 else "thorough"
    hv = sys.argv[sys.argv.index("--hv") + 1] if "--hv" in sys.argv else f"{VERIF}/target/release/hv"
    seed = int(os.environ.get("VERIF_SEED", "20260928") or 20260928) % (2 ** 31 - 1) or 1
    out_path = f"{VERIF}/target/fuzz-{pid}.json"
    if os.path.exists(out_path):
        os.remove(out_path)
    rc, txt = sh(f"{hv} fuzz-targets")
    if rc != 0:
        print("INCONCLUSIVE: cannot list fuzz targets:", txt[-300:])
        return 2
    targets = [t for t in json.loads(txt) if t["property"] == pid]
    if not targets:
        return 0
    # fixed work per tier: runs per job x jobs
    jobs = 8 if tier == "quick" else 16
    summary = {"property_id": pid, "tier": tier, "seed": seed, "coverage": {"evaluations": 0, "distinct_nontrivial": 0, "labels": {}, "samples": [], "rule": ""}, "assumptions": [], "violations": 0, "wall_s": 0.0, "targets": {}}
    t_start = time.time()
    code = 0
    for t in targets:
        name = t["target"]
        # fixed work: runs per job (per target: the slow, generator-keyed targets get fewer); the wall-clock cap only guards
        # against an overloaded machine and ends the campaign early without any verdict
        runs = 20_000 if tier == "quick" else int(t.get("runs_thorough", 200_000))
        if os.environ.get("HV_FUZZ_RUNS"):
            runs = int(os.environ["HV_FUZZ_RUNS"])
        flags = "--cfg humphrey_verif --cfg humphrey_verif_shim"
        rc, log = sh(f'RUSTFLAGS="{flags}" cargo +nightly fuzz build --fuzz-dir {VERIF}/fuzz --target-dir {TDIR} {name}', cwd=VERIF)
        if rc != 0:
            # same fallback as ./check: the pool may no longer build against the scheduling shim
            rc, log2 = sh(f'RUSTFLAGS="--cfg humphrey_verif" cargo +nightly fuzz build --fuzz-dir {VERIF}/fuzz --target-dir {TDIR} {name}', cwd=VERIF)
            if rc != 0:
                print(log[-3000:])
                print(f"INCONCLUSIVE: fuzz target {name} does not build against the current /repo tree")
                return 2
        work = f"{VERIF}/target/fuzz-work/{name}"
        shutil.rmtree(work, ignore_errors=True)
        os.makedirs(f"{work}/corpus")
        os.makedirs(f"{work}/stats")
        for f in glob.glob(f"{VERIF}/corpus/fuzz/{name}/*"):
            shutil.copy(f, f"{work}/corpus/")
        n_seed = len(os.listdir(f"{work}/corpus"))
        prefix = f"{VERIF}/replay/{pid}-fuzz-{name}-"
        os.makedirs(f"{VERIF}/replay", exist_ok=True)
        before = set(glob.glob(prefix + "*"))
        cmd = (f"{BIN}/{name} {work}/corpus -runs={runs} -max_len={t['max_len']} -len_control=0 -seed={seed} -jobs={jobs} -workers={jobs} "
               f"-artifact_prefix={prefix} -print_final_stats=1 -rss_limit_mb=4096 -malloc_limit_mb=2048 -timeout=25 -reload=1 -max_total_time=1200")
        t0 = time.time()
        rc, log = sh(cmd, cwd=work, env={"HV_FUZZ_STATS_DIR": f"{work}/stats", "ASAN_OPTIONS": "detect_leaks=0:allocator_may_return_null=1"})
        wall = time.time() - t0
        execs = nontrivial = 0
        labels, known = {}, {}
        for sf in glob.glob(f"{work}/stats/*.json"):
            try:
                s = json.load(open(sf))
            except Exception:
                continue
            execs += s.get("execs", 0)
            nontrivial += s.get("nontrivial", 0)
            for k, v in s.get("labels", {}).items():
                labels[k] = labels.get(k, 0) + v
            for k, v in s.get("known_findings_hit", {}).items():
                known[k] = known.get(k, 0) + v
        cov = ft = 0
        for lf in glob.glob(f"{work}/fuzz-*.log"):
            txt = open(lf, errors="replace").read()
            for m in re.finditer(r"cov: (\d+) ft: (\d+)", txt):
                cov = max(cov, int(m.group(1)))
                ft = max(ft, int(m.group(2)))
        corpus_n = len(os.listdir(f"{work}/corpus"))
        arts = sorted(set(glob.glob(prefix + "*")) - before)
        tinfo = {"execs": execs, "nontrivial": nontrivial, "labels": labels, "known_findings_hit": known, "edge_coverage": cov, "features": ft, "seed_corpus": n_seed, "corpus_after": corpus_n, "jobs": jobs, "runs_per_job": runs, "wall_s": round(wall, 1), "artifacts": arts, "input": t["input"]}
        summary["targets"][name] = tinfo
        summary["coverage"]["evaluations"] += execs
        # coverage-guided inputs are not deduplicated individually; the corpus (inputs that reached new coverage) is the
        # conservative count of distinct non-trivial cases
        summary["coverage"]["distinct_nontrivial"] += min(nontrivial, corpus_n)
        for k, v in labels.items():
            summary["coverage"]["labels"][f"{name}:{k}"] = v
        for k, v in known.items():
            print(f"KNOWN-FINDING: property={pid} key={k} occurrences={v} (fuzz target {name})")
        # a few corpus entries as samples
        for f in sorted(os.listdir(f"{work}/corpus"))[:2]:
            b = open(f"{work}/corpus/{f}", "rb").read()
            summary["coverage"]["samples"].append({"class": f"{name}", "case": {"input_hex": b[:96].hex(), "len": len(b)}})
        for a in arts:
            kind = os.path.basename(a)[len(os.path.basename(prefix)):].split("-")[0]
            try:
                rc2, o2 = sh(f"exec {hv} fuzzcase {name} {a}", timeout=120)
            except subprocess.TimeoutExpired:
                rc2, o2 = 2, "re-evaluation did not finish within 120 s"
            if kind == "crash" and rc2 == 1:
                print(o2.strip())
                summary["violations"] += 1
                code = 1
            elif kind in ("timeout", "oom") and rc2 in (0, 1) and not (pid == "C03" and rc2 == 1):
                # the same input evaluates promptly outside libFuzzer (no ASan, no coverage instrumentation): the limit was
                # hit by the instrumented build, not by the code under test. Noted, not an alarm.
                summary.setdefault("notes", []).append(f"{name}: libFuzzer reported a {kind} on {os.path.basename(a)}; the input evaluates promptly outside libFuzzer (exit {rc2})")
                if rc2 == 1:
                    print(o2.strip())
                    summary["violations"] += 1
                    code = 1
                else:
                    os.remove(a)
            elif kind in ("timeout", "oom") and pid == "C03":
                print(f"VIOLATION property={pid} replay={a}")
                print(f"  signature: {'loop' if kind == 'timeout' else 'memory'}:fuzz")
                print(f"  detail: libFuzzer stopped on a {kind} in target {name} (limits: 25 s per input, 2 GiB per allocation, 4 GiB RSS) and the input does not evaluate within 120 s outside libFuzzer either")
                summary["violations"] += 1
                code = 1
            else:
                print(f"INCONCLUSIVE: fuzz target {name} left {a} ({kind}); re-evaluation outside libFuzzer says exit {rc2}: {o2.strip()[-300:]}")
                summary.setdefault("inconclusive", []).append(f"{name}: {os.path.basename(a)} ({kind}) not reproduced as a violation")
                if code == 0:
                    code = 2
        if rc != 0 and not arts:
            print(f"INCONCLUSIVE: fuzz target {name} exited {rc} without an artifact: {log[-400:]}")
            if code == 0:
                code = 2
    summary["coverage"]["rule"] = ("coverage-guided fuzzing (libFuzzer via cargo-fuzz, ASan, oracle inside the target): " + "; ".join(f"{n}: {i['input']}" for n, i in summary["targets"].items()) + ". Fixed work per run (runs per job x jobs, seed from VERIF_SEED, fresh working corpus seeded from corpus/fuzz/). Non-trivial as defined per target in fuzzers.rs (valid text / generated case / star pattern with repeats / eviction or overwrite ...); distinct non-trivial counted conservatively as min(non-trivial executions, corpus entries that reached new coverage)")
    summary["wall_s"] = round(time.time() - t_start, 1)
    json.dump(summary, open(out_path, "w"), indent=1)
    print(f"{pid} fuzz {tier}: " + ", ".join(f"{n}: {i['execs']} execs, cov {i['edge_coverage']}, corpus {i['corpus_after']}" for n, i in summary["targets"].items()) + f"; violations={summary['violations']}")
    return code


if __name__ == "__main__":
    sys.exit(main())
