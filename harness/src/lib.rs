//! Library part of the harness: engine, reference models and the per-property checks. The `hv` binary
//! (src/main.rs) is the command line; the libFuzzer targets in /verif/fuzz link this crate for their oracles.

#[macro_use]
pub mod engine;
pub mod common;
pub mod props;
