//! C18 — SHA-1, Base64, percent-encoding and HTTP dates are exact.
//! Oracles: independent reference implementations (common/refs.rs), cross-checked against the cached
//! `base64` and `httpdate` crates (a disagreement between references is a harness error, exit 2).

use crate::common::refs::*;
use crate::engine::{catch, hash_of, hex, par, pt, unhex, Ctx, Fail, Lcg};
use base64::Engine as _;
use humphrey::http::date::DateTime;
use humphrey::percent::{PercentDecode, PercentEncode};
use humphrey_ws::verif_hooks::{Base64Decode, Base64Encode, SHA1Hash};
use proptest::prelude::*;
use serde_json::{json, Value as J};

fn harness_error(msg: String) -> ! {
    eprintln!("HARNESS ERROR: {}", msg);
    std::process::exit(2);
}

// ------------------------------------------------------------------------------------------ oracles

pub fn check_sha1(msg: &[u8]) -> Option<Fail> {
    let want = sha1(msg);
    match catch(|| msg.hash()) {
        Err(p) => Some(fail!("sha1-panic", "SHA-1 of a {}-byte message panicked: {}", msg.len(), p)),
        Ok(got) if got != want => Some(fail!(
            "sha1-digest",
            "SHA-1 of a {}-byte message: got {} want {}",
            msg.len(),
            hex(&got),
            hex(&want)
        )),
        _ => None,
    }
}

pub fn check_b64_encode(data: &[u8]) -> Option<Fail> {
    let want = b64_encode(data);
    let got = match catch(|| data.encode()) {
        Ok(g) => g,
        Err(p) => return Some(fail!("b64-encode-panic", "Base64 encode of {} panicked: {}", hex(data), p)),
    };
    if got != want {
        return Some(fail!("b64-encode", "Base64 encode of {}: got {:?} want {:?}", hex(data), got, want));
    }
    match catch(|| got.decode()) {
        Err(p) => Some(fail!("b64-decode-panic", "Base64 decode of {:?} panicked: {}", got, p)),
        Ok(Err(())) => Some(fail!("b64-roundtrip", "Base64 decode rejects its own encoder's output {:?}", got)),
        Ok(Ok(back)) if back != data => Some(fail!(
            "b64-roundtrip",
            "decode(encode({})) = {} (via {:?})",
            hex(data),
            hex(&back),
            got
        )),
        _ => None,
    }
}

pub fn check_b64_decode(s: &str) -> Option<Fail> {
    let want = b64_decode_strict(s);
    let got = match catch(|| s.decode()) {
        Ok(g) => g,
        Err(p) => return Some(fail!("b64-decode-panic", "Base64 decode of {:?} panicked: {}", s, p)),
    };
    match (&want, &got) {
        (B64Ref::Value(w), Ok(g)) if w == g => None,
        (B64Ref::Value(w), Ok(g)) => Some(fail!(
            "b64-decode-value",
            "Base64 decode of {:?}: got {} want {}",
            s,
            hex(g),
            hex(w)
        )),
        (B64Ref::Value(w), Err(())) => Some(fail!(
            "b64-decode-rejects-valid",
            "Base64 decode of valid {:?} rejected; want {}",
            s,
            hex(w)
        )),
        (B64Ref::NonCanonical(_), Err(())) => None,
        (B64Ref::NonCanonical(w), Ok(g)) if w == g => None,
        (B64Ref::NonCanonical(w), Ok(g)) => Some(fail!(
            "b64-decode-value",
            "Base64 decode of {:?} (non-canonical trailing bits): got {} want {} or rejection",
            s,
            hex(g),
            hex(w)
        )),
        (B64Ref::Reject, Err(())) => None,
        (B64Ref::Reject, Ok(g)) => Some(fail!(
            "b64-decode-accepts-malformed",
            "Base64 decode accepts malformed {:?} as {}",
            s,
            hex(g)
        )),
    }
}

pub fn check_pct_encode(data: &[u8]) -> Option<Fail> {
    let want = pct_encode(data);
    let got = match catch(|| data.percent_encode()) {
        Ok(g) => g,
        Err(p) => return Some(fail!("pct-encode-panic", "percent_encode({}) panicked: {}", hex(data), p)),
    };
    if got != want {
        return Some(fail!("pct-encode", "percent_encode({}): got {:?} want {:?}", hex(data), got, want));
    }
    match catch(|| got.percent_decode()) {
        Err(p) => Some(fail!("pct-decode-panic", "percent_decode({:?}) panicked: {}", got, p)),
        Ok(Some(back)) if back == data => None,
        Ok(other) => Some(fail!(
            "pct-roundtrip",
            "percent_decode(percent_encode({})) = {:?}",
            hex(data),
            other.map(|b| hex(&b))
        )),
    }
}

pub fn check_pct_decode(s: &str) -> Option<Fail> {
    let want = pct_decode(s);
    let got = match catch(|| s.percent_decode()) {
        Ok(g) => g,
        Err(p) => return Some(fail!("pct-decode-panic", "percent_decode({:?}) panicked: {}", s, p)),
    };
    match (want, got) {
        (Some(w), Some(g)) if w == g => None,
        (None, None) => None,
        (Some(w), Some(g)) => Some(fail!("pct-decode-value", "percent_decode({:?}): got {} want {}", s, hex(&g), hex(&w))),
        (Some(w), None) => Some(fail!("pct-decode-rejects-valid", "percent_decode({:?}) rejected; want {}", s, hex(&w))),
        (None, Some(g)) => Some(fail!(
            "pct-decode-accepts-malformed",
            "percent_decode({:?}) accepted a `%` not followed by two hex digits, giving {}",
            s,
            hex(&g)
        )),
    }
}

pub fn check_date(ts: i64) -> Option<Fail> {
    let c = civil(ts);
    let want = imf_fixdate(ts);
    let (got, fields) = match catch(|| {
        let d = DateTime::from(ts);
        (d.to_string(), (d.year as i64, d.month as u32, d.day as u32, d.weekday as u32, d.hour as u32, d.minute as u32, d.second as u32, d.timestamp))
    }) {
        Ok(g) => g,
        Err(p) => return Some(fail!("date-panic", "DateTime::from({}) panicked: {}", ts, p)),
    };
    if got != want {
        return Some(fail!("date-string", "DateTime::from({}).to_string() = {:?}, want {:?}", ts, got, want));
    }
    // fields: month is the 0-based index into the month table in Humphrey's DateTime
    let want_fields = (c.year, c.month - 1, c.day, c.weekday, c.hour, c.minute, c.second, ts);
    if fields != want_fields {
        return Some(fail!(
            "date-fields",
            "DateTime::from({}) fields (y,m0,d,wd,h,mi,s,ts) = {:?}, want {:?}",
            ts,
            fields,
            want_fields
        ));
    }
    None
}

// ------------------------------------------------------------------------------------------ drivers

fn sha1_part(ctx: &Ctx) {
    let seed = ctx.seed;
    // every length 0..=1100 with three contents
    par(ctx, |i, n, a| {
        let mut rng = Lcg(pt::mix(seed, 1800 + i as u64));
        for len in (0..=1100usize).filter(|l| l % n == i) {
            let boundary = matches!(len % 64, 55 | 56 | 63 | 0);
            for content in 0..3 {
                let msg = match content {
                    0 => vec![0u8; len],
                    1 => vec![0xFFu8; len],
                    _ => rng.bytes(len),
                };
                a.add(boundary, check_sha1(&msg), "sha1", || json!({"msg": hex(&msg)}));
            }
        }
    });
    ctx.exhaustive_space("SHA-1: every message length 0..=1100 with contents zeros / 0xFF / random");
    // reference self-test (RFC 3174 test vectors)
    if hex(&sha1(b"abc")) != "a9993e364706816aba3e25717850c26c9cd0d89d"
        || hex(&sha1(b"abcdbcdecdefdefgefghfghighijhijkijkljklmklmnlmnomnopnopq")) != "84983e441c3bd26ebaae4aa1f95129e5e54670f1"
        || hex(&sha1(b"")) != "da39a3ee5e6b4b0d3255bfef95601890afd80709"
    {
        harness_error("reference SHA-1 fails the RFC 3174 test vectors".into());
    }
    let big = ctx.tier.pick(64usize << 10, 1usize << 20);
    let count = ctx.tier.pick(64usize, 400usize);
    par(ctx, |i, n, a| {
        let mut rng = Lcg(pt::mix(seed, 1850 + i as u64));
        for _ in 0..count / n {
            let r = rng.next();
            let len = if r % 4 == 0 { big - (r >> 8) as usize % 130 } else { (r >> 8) as usize % big };
            let msg = rng.bytes(len);
            a.add(true, check_sha1(&msg), "sha1", || json!({"msg": hex(&msg)}));
        }
    });
    // a message whose bit length does not fit 32 bits (>= 512 MiB): the length field of the padding is 64 bits wide
    if ctx.tier.pick(false, true) {
        let len = (1usize << 29) + 5;
        let mut msg = vec![0u8; len];
        let mut rng = Lcg(pt::mix(seed, 1899));
        for chunk in msg.chunks_mut(4096) {
            let r = rng.next().to_le_bytes();
            chunk[0] = r[0];
            chunk[chunk.len() - 1] = r[1];
        }
        let f = check_sha1(&msg);
        drop(msg);
        par(ctx, |i, _n, a| {
            if i == 0 {
                a.add(true, f.clone(), "sha1-512MiB", || json!({"msg": "0x00 x (2^29+5) with pseudo-random bytes at both ends of every 4096-byte block (seeded)", "len": len}));
            }
        });
    }
    ctx.sample("sha1", || json!({"msg_len": 55, "content": "0xFF x 55", "digest_ref": hex(&sha1(&vec![0xFFu8; 55]))}));
}

fn b64_engine_check(data: &[u8], enc: &str) {
    let lib = base64::engine::general_purpose::STANDARD.encode(data);
    if lib != enc {
        harness_error(format!("reference Base64 encoder disagrees with the base64 crate on {}", hex(data)));
    }
}

fn b64_part(ctx: &Ctx) {
    let seed = ctx.seed;
    // 1- and 2-byte inputs, all 2^24 three-byte groups
    par(ctx, |i, n, a| {
        for x in (0..=255u32).filter(|x| *x as usize % n == i) {
            let d = [x as u8];
            a.add(true, check_b64_encode(&d), "b64-encode", || json!({"data": hex(&d)}));
        }
        for x in (0..65536u32).filter(|x| *x as usize % n == i) {
            let d = [(x >> 8) as u8, x as u8];
            a.add(true, check_b64_encode(&d), "b64-encode", || json!({"data": hex(&d)}));
        }
        let per = (1u32 << 24) / n as u32;
        for x in per * i as u32..per * (i as u32 + 1) {
            let d = [(x >> 16) as u8, (x >> 8) as u8, x as u8];
            // non-trivial: the encoding uses symbol 62 or 63
            let nt = (x & 63) >= 62 || ((x >> 6) & 63) >= 62 || ((x >> 12) & 63) >= 62 || (x >> 18) >= 62;
            a.add(nt, check_b64_encode(&d), "b64-encode", || json!({"data": hex(&d)}));
        }
    });
    ctx.exhaustive_space("Base64 encode + decode(encode(x)) = x: every 1-byte and 2-byte input and all 2^24 three-byte groups");
    // all lengths 0..=64 with random contents
    par(ctx, |i, n, a| {
        let mut rng = Lcg(pt::mix(seed, 1900 + i as u64));
        for len in (0..=64usize).filter(|l| l % n == i) {
            for _ in 0..40 {
                let d = rng.bytes(len);
                b64_engine_check(&d, &b64_encode(&d));
                a.add(len % 3 != 0, check_b64_encode(&d), "b64-encode", || json!({"data": hex(&d)}));
            }
        }
    });
    // decode of every 4-symbol group over alphabet + '='
    let mut syms: Vec<u8> = B64.to_vec();
    syms.push(b'=');
    let syms = &syms;
    par(ctx, |i, n, a| {
        let mut buf = [0u8; 4];
        for (k0, &c0) in syms.iter().enumerate() {
            if k0 % n != i {
                continue;
            }
            buf[0] = c0;
            for (k1, &c1) in syms.iter().enumerate() {
                buf[1] = c1;
                for (k2, &c2) in syms.iter().enumerate() {
                    buf[2] = c2;
                    for (k3, &c3) in syms.iter().enumerate() {
                        buf[3] = c3;
                        let s = std::str::from_utf8(&buf).unwrap();
                        let nt = k0 >= 62 || k1 >= 62 || k2 >= 62 || k3 >= 62;
                        a.add(nt, check_b64_decode(s), "b64-decode", || json!({"text": s}));
                    }
                }
            }
        }
    });
    ctx.exhaustive_space("Base64 decode: every 4-symbol group over the 64-symbol alphabet plus `=` (65^4 = 17 850 625 strings) against the strict RFC 4648 decoder");
    // reference decoder self-test against the base64 crate on canonical encodings
    {
        let mut rng = Lcg(pt::mix(seed, 1950));
        for _ in 0..2000 {
            let len = (rng.next() % 40) as usize;
            let d = rng.bytes(len);
            let e = b64_encode(&d);
            if b64_decode_strict(&e) != B64Ref::Value(d.clone())
                || base64::engine::general_purpose::STANDARD.decode(&e).ok() != Some(d.clone())
            {
                harness_error(format!("reference Base64 decoder fails round trip on {}", hex(&d)));
            }
        }
    }
    // non-ASCII text whose UTF-8 bytes, with the top bit dropped, are alphabet symbols (a decoder that indexes a 128-entry
    // table with `byte & 0x7f` would accept them): every pair of such two-byte characters, and each of them next to ASCII
    {
        let mut alias: Vec<char> = Vec::new();
        for c in 0x80u32..0x800 {
            if let Some(ch) = char::from_u32(c) {
                let mut b = [0u8; 4];
                let e = ch.encode_utf8(&mut b).as_bytes().to_vec();
                if e.iter().all(|x| B64.contains(&(x & 0x7f)) || (x & 0x7f) == b'=') {
                    alias.push(ch);
                }
            }
        }
        let mut n = 0u64;
        let mut first: Option<(Fail, String)> = None;
        let mut test = |s: String| {
            n += 1;
            if first.is_none() {
                if let Some(f) = check_b64_decode(&s) {
                    first = Some((f, s));
                }
            }
        };
        for a in &alias {
            for b in &alias {
                test(format!("{}{}", a, b));
            }
            test(format!("{}AA", a));
            test(format!("AA{}", a));
            test(format!("A{}A", a));
            test(format!("Zm9v{}==", a));
            test(format!("{}A==", a));
        }
        ctx.bulk_n(n, n);
        ctx.label("b64-decode:non-ascii-aliasing", n);
        ctx.sample("b64-decode:non-ascii-aliasing", || json!({"text": "ññ", "reference": "Reject"}));
        if let Some((f, s)) = first {
            if !ctx.tolerate(&f) {
                ctx.violation(f, "b64-decode", json!({"text": s}));
            }
        }
    }
    // malformed / multi-group strings, random
    let cases = ctx.tier.pick(40_000u32, 1_000_000u32);
    crate::engine::shards(8, |i| {
        let sym = prop_oneof![
            12 => (0u8..64).prop_map(|k| B64[k as usize] as char),
            2 => Just('='),
            1 => prop_oneof![Just('-'), Just('_'), Just(' '), Just('\n'), Just('é'), Just('*'), Just('ñ'), Just('°')],
        ];
        let strat = proptest::collection::vec(sym, 0..14).prop_map(|v| v.into_iter().collect::<String>());
        pt::run(
            ctx,
            "b64-decode",
            pt::Opts::new(cases / 8).salt(1960 + i as u64),
            strat,
            |s| json!({"text": s}),
            |s| {
                let r = b64_decode_strict(s);
                let class = match r {
                    B64Ref::Value(_) => "b64-random:valid",
                    B64Ref::NonCanonical(_) => "b64-random:noncanonical",
                    B64Ref::Reject => "b64-random:malformed",
                };
                ctx.case(hash_of(&("b64", s)), s.len() != 4, &[class]);
                ctx.sample(class, || json!({"base64_text": s, "reference": format!("{:?}", r)}));
                check_b64_decode(s).into_iter().collect()
            },
        );
    });
}

fn pct_part(ctx: &Ctx) {
    par(ctx, |i, n, a| {
        if i == 0 {
            for x in 0..=255u8 {
                let d = [x];
                a.add(true, check_pct_encode(&d), "pct-encode", || json!({"data": hex(&d)}));
            }
        }
        for x in (0..65536u32).filter(|x| *x as usize % n == i) {
            let d = [(x >> 8) as u8, x as u8];
            let nt = d.contains(&b'%') || d.iter().any(|b| *b >= 0x80);
            a.add(nt, check_pct_encode(&d), "pct-encode", || json!({"data": hex(&d)}));
        }
    });
    ctx.exhaustive_space("percent-encode + decode(encode(b)) = b: every byte and every byte pair");
    // every string of length <=4 over the 9-symbol alphabet, and every 1- and 2-char ASCII string
    let alpha = ['%', '0', '9', 'a', 'F', 'g', '+', ' ', 'é'];
    let mut all = vec![String::new()];
    let mut frontier = vec![String::new()];
    for _ in 0..4 {
        let mut next = Vec::new();
        for s in &frontier {
            for c in alpha {
                let mut t = s.clone();
                t.push(c);
                next.push(t);
            }
        }
        all.extend(next.iter().cloned());
        frontier = next;
    }
    // `%` followed by every pair of ASCII characters (the two positions the decoder must validate)
    for c1 in 0u8..128 {
        for c2 in 0u8..128 {
            all.push(format!("%{}{}", c1 as char, c2 as char));
        }
    }
    let all = &all;
    par(ctx, |i, n, a| {
        for (k, s) in all.iter().enumerate() {
            if k % n != i {
                continue;
            }
            a.add(s.contains('%'), check_pct_decode(s), "pct-decode", || json!({"text": s}));
        }
    });
    ctx.exhaustive_space("percent-decode: all strings of length <=4 over {%,0,9,a,F,g,+,space,é} and `%` followed by every pair of ASCII characters, against the RFC 3986 reference");
    ctx.sample("pct-decode", || json!({"text": "%+f", "reference": "reject (`+f` is not two hex digits)"}));
    let cases = ctx.tier.pick(20_000u32, 500_000u32);
    crate::engine::shards(4, |i| {
        let strat = proptest::collection::vec(
            prop_oneof![
                3 => Just("%".to_string()),
                6 => "[0-9a-fA-F]",
                2 => "[g-zG-Z+ /?&=._~-]",
                1 => "[é😀\\x00]",
            ],
            0..12,
        )
        .prop_map(|v| v.concat());
        pt::run(
            ctx,
            "pct-decode",
            pt::Opts::new(cases / 4).salt(1970 + i as u64),
            strat,
            |s| json!({"text": s}),
            |s| {
                let r = pct_decode(s);
                ctx.case(
                    hash_of(&("pct", s)),
                    s.contains('%'),
                    &[if r.is_some() { "pct-random:valid" } else { "pct-random:malformed" }],
                );
                check_pct_decode(s).into_iter().collect()
            },
        );
    });
    crate::engine::shards(4, |i| {
        pt::run(
            ctx,
            "pct-encode",
            pt::Opts::new(cases / 4).salt(1980 + i as u64),
            proptest::collection::vec(any::<u8>(), 0..40),
            |d| json!({"data": hex(d)}),
            |d| {
                ctx.case(hash_of(&("pcte", d)), d.len() > 2, &["pct-random:encode"]);
                check_pct_encode(d).into_iter().collect()
            },
        );
    });
}

const MAX_TS: i64 = 253402300799; // 9999-12-31 23:59:59

fn date_part(ctx: &Ctx) {
    let seed = ctx.seed;
    // reference self-test against the httpdate crate
    {
        let mut rng = Lcg(pt::mix(seed, 1990));
        for k in 0..20000 {
            let ts = if k < 10 { [0, 86399, 951782400, 951868799, 4107542400, MAX_TS, 68169600, 1582979696, 946684799, 946684800][k] } else { (rng.next() % (MAX_TS as u64 + 1)) as i64 };
            let lib = httpdate::fmt_http_date(std::time::UNIX_EPOCH + std::time::Duration::from_secs(ts as u64));
            if lib != imf_fixdate(ts) || parse_imf_fixdate(&lib) != Some(ts) {
                harness_error(format!("reference date formatter disagrees with httpdate at {}: {} vs {}", ts, lib, imf_fixdate(ts)));
            }
        }
    }
    let last_day = MAX_TS / 86400;
    par(ctx, |i, n, a| {
        let per = (last_day + 1) / n as i64 + 1;
        for day in per * i as i64..(per * (i as i64 + 1)).min(last_day + 1) {
            let (_, m, d) = civil_from_days(day);
            let nt = (m == 2 && d >= 28) || (m == 12 && d == 31) || (m == 3 && d == 1) || (m == 1 && d == 1);
            a.add(nt, check_date(day * 86400), "date", || json!({"timestamp": day * 86400}));
            a.add(nt, check_date(day * 86400 + 86399), "date", || json!({"timestamp": day * 86400 + 86399}));
        }
    });
    ctx.exhaustive_space("dates: every day 1970-01-01..9999-12-31 at 00:00:00 and 23:59:59");
    let days: [(i64, u32, u32); 8] = [
        (2000, 2, 29),
        (2100, 2, 28),
        (1900 + 200, 3, 1),
        (1999, 12, 31),
        (2000, 1, 1),
        (1970, 1, 1),
        (9999, 12, 31),
        (2024, 2, 29),
    ];
    par(ctx, |i, n, a| {
        for (k, (y, m, d)) in days.iter().enumerate() {
            if k % n != i {
                continue;
            }
            let base = days_from_civil(*y, *m, *d) * 86400;
            for s in 0..86400 {
                a.add(true, check_date(base + s), "date", || json!({"timestamp": base + s}));
            }
        }
    });
    ctx.exhaustive_space("dates: every second of 2000-02-29, 2100-02-28, 2100-03-01, 1999-12-31, 2000-01-01, 1970-01-01, 9999-12-31, 2024-02-29");
    let count = ctx.tier.pick(200_000u64, 5_000_000u64);
    par(ctx, |i, n, a| {
        let mut rng = Lcg(pt::mix(seed, 1995 + i as u64));
        for _ in 0..count / n as u64 {
            let ts = (rng.next() % (MAX_TS as u64 + 1)) as i64;
            a.add(false, check_date(ts), "date", || json!({"timestamp": ts}));
        }
    });
    ctx.sample("date", || json!({"timestamp": 4107542400i64, "reference": imf_fixdate(4107542400)}));
}

pub fn run(ctx: &Ctx) {
    ctx.rule("bounded-exhaustive enumeration of the spaces named in the quantifier plus random inputs; non-trivial = padding/block boundary length (SHA-1 len%64 in {55,56,63,0}, or >1 block), Base64 symbols 62/63 or padding present, `%` present (percent), Feb 28/29 / Dec 31 / Mar 1 / Jan 1 or per-second days (dates); distinct by construction for enumerated spaces, by hash for random ones");
    ctx.assume("reference SHA-1/Base64/percent/civil-date implementations in harness/src/common/refs.rs (self-tested every run against RFC 3174 vectors, the `base64` crate and the `httpdate` crate)");
    sha1_part(ctx);
    b64_part(ctx);
    pct_part(ctx);
    date_part(ctx);
}

pub fn replay(_ctx: &Ctx, kind: &str, case: &J) -> Vec<Fail> {
    let r = match kind {
        "sha1" => check_sha1(&unhex(case["msg"].as_str().unwrap_or(""))),
        "b64-encode" => check_b64_encode(&unhex(case["data"].as_str().unwrap_or(""))),
        "b64-decode" => check_b64_decode(case["text"].as_str().unwrap_or("")),
        "pct-encode" => check_pct_encode(&unhex(case["data"].as_str().unwrap_or(""))),
        "pct-decode" => check_pct_decode(case["text"].as_str().unwrap_or("")),
        "date" => check_date(case["timestamp"].as_i64().unwrap_or(0)),
        _ => Some(Fail::new("harness", format!("unknown replay kind {}", kind))),
    };
    r.into_iter().collect()
}
