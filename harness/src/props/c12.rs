//! C12 — async WebSocket app delivers connect/message/disconnect exactly once, in order.
//! A real App + AsyncWebsocketApp run on loopback; 1..8 reference clients run generated scripts; an
//! external sender issues unicasts and broadcasts; history invariants are checked over the handler
//! event log and each client's received frames.

use crate::common::http::{parse_response, RespParse};
use crate::common::net::connect_retry;
use crate::common::net_app::start_app;
use crate::common::ws::{self, Decoded, RFrame};
use crate::engine::{hash_of, pt, Ctx, Fail, Lcg};
use humphrey::App;
use humphrey_ws::async_app::{AsyncStream, AsyncWebsocketApp};
use humphrey_ws::ping::Heartbeat;
use humphrey_ws::{async_websocket_handler, Message};
use proptest::prelude::*;
use serde::{Deserialize, Serialize};
use serde_json::{json, Value as J};
use std::collections::{BTreeMap, BTreeSet};
use std::io::{Read, Write};
use std::net::SocketAddr;
use std::sync::{Arc, Mutex};
use std::time::{Duration, Instant};

const HEARTBEAT_TIMEOUT_MS: u64 = 1500;

#[derive(Clone, Debug, Serialize, Deserialize, PartialEq)]
pub enum Step {
    /// send one message (text?, extra payload bytes, fragments 1..3)
    Send(bool, u16, u8),
    /// several messages back-to-back in one write
    Burst(u8),
    /// one message in two fragments with a control frame (unsolicited Pong, or Ping) between them, as RFC 6455 §5.4
    /// allows; (text?, pong?, fragments in separate writes?)
    SendAroundControl(bool, bool, bool),
    Ping,
    Sleep(u8),
}

#[derive(Clone, Debug, Serialize, Deserialize, PartialEq)]
pub struct ClientScript {
    pub start_delay_ms: u8,
    pub steps: Vec<Step>,
    /// true: vanish without a Close frame (needs the heartbeat to be noticed)
    pub abrupt: bool,
    /// stay connected until the harness has issued its late burst of broadcasts
    #[serde(default)]
    pub linger: bool,
    /// send the Close frame right behind the last messages, without waiting for their echoes
    #[serde(default)]
    pub close_immediately: bool,
    /// never answers the heartbeat pings and sends its Close frame just before the pong timeout elapses, so that the
    /// close and the timeout are seen in the same poll iteration (still exactly one disconnect event)
    #[serde(default)]
    pub silent: bool,
}

#[derive(Clone, Debug, Serialize, Deserialize)]
pub struct Scenario {
    pub clients: Vec<ClientScript>,
    pub handler_threads: usize,
    pub poll_ms: u8,
    pub heartbeat: bool,
    /// external sender actions, interleaved by time: (delay ms, broadcast? else unicast to client index)
    pub external: Vec<(u8, Option<u8>)>,
    /// broadcasts issued back-to-back after every non-lingering client has left (some possibly abruptly)
    #[serde(default)]
    pub late_broadcasts: u8,
}

#[derive(Clone, Debug, PartialEq)]
enum Ev {
    Connect(SocketAddr),
    Message(SocketAddr, Vec<u8>),
    Disconnect(SocketAddr),
}

#[derive(Default)]
struct Shared {
    log: Mutex<Vec<Ev>>,
    /// per client index: closing flag and the broadcast ids it must still receive
    gate: Mutex<(Vec<bool>, Vec<Vec<u32>>, Vec<Vec<u32>>)>,
    /// local address of each client, registered right after the TCP connect
    addrs: Mutex<Vec<Option<SocketAddr>>>,
    /// set once the late broadcasts have been issued: lingering clients may leave
    release: std::sync::atomic::AtomicBool,
    /// number of non-lingering clients that have finished
    finished: std::sync::atomic::AtomicUsize,
}

fn payload(client: usize, seq: usize, extra: usize) -> Vec<u8> {
    let mut p = format!("c{}s{}|", client, seq).into_bytes();
    p.extend((0..extra).map(|i| b'a' + (i % 26) as u8));
    p
}

struct ClientResult {
    addr: Option<SocketAddr>,
    sent: Vec<Vec<u8>>,
    received: Vec<(bool, Vec<u8>)>,
    stray: Option<String>,
    missing_echo: Vec<Vec<u8>>,
    missing_required: Vec<u32>,
    connect_failed: Option<String>,
}

fn run_client(idx: usize, sc: &ClientScript, addr: SocketAddr, shared: Arc<Shared>, seed: u64) -> ClientResult {
    let mut res = ClientResult { addr: None, sent: vec![], received: vec![], stray: None, missing_echo: vec![], missing_required: vec![], connect_failed: None };
    std::thread::sleep(Duration::from_millis(sc.start_delay_ms as u64 % 30));
    let mut sock = match connect_retry(addr, Duration::from_secs(5)) {
        Ok(s) => s,
        Err(e) => {
            res.connect_failed = Some(e.to_string());
            return res;
        }
    };
    let _ = sock.set_nodelay(true);
    res.addr = sock.local_addr().ok();
    shared.addrs.lock().unwrap()[idx] = res.addr;
    let _ = sock.write_all(b"GET /ws HTTP/1.1\r\nHost: c12\r\nUpgrade: websocket\r\nConnection: Upgrade\r\nSec-WebSocket-Key: dGhlIHNhbXBsZSBub25jZQ==\r\nSec-WebSocket-Version: 13\r\n\r\n");
    // read the 101
    let mut buf = Vec::new();
    let mut tmp = [0u8; 4096];
    let _ = sock.set_read_timeout(Some(Duration::from_secs(10)));
    let head_len = loop {
        match parse_response(&buf, false) {
            RespParse::Complete(r) if r.status == 101 => break r.consumed,
            RespParse::Complete(r) => {
                res.connect_failed = Some(format!("handshake status {}", r.status));
                return res;
            }
            RespParse::Invalid(e) => {
                res.connect_failed = Some(e);
                return res;
            }
            _ => {}
        }
        match sock.read(&mut tmp) {
            Ok(0) | Err(_) => {
                res.connect_failed = Some("EOF during handshake".into());
                return res;
            }
            Ok(n) => buf.extend_from_slice(&tmp[..n]),
        }
    };
    let t_handshake = Instant::now();
    let silent = sc.silent;
    // reader thread: auto-pong, collect data frames
    let received: Arc<Mutex<(Vec<(bool, Vec<u8>)>, Option<String>, bool)>> = Arc::new(Mutex::new((Vec::new(), None, false)));
    let rec2 = received.clone();
    let mut rs = sock.try_clone().unwrap();
    let ws_half = Arc::new(Mutex::new(sock.try_clone().unwrap()));
    let ws2 = ws_half.clone();
    let initial: Vec<u8> = buf[head_len..].to_vec();
    let reader = std::thread::spawn(move || {
        let _ = rs.set_read_timeout(None);
        let mut data = initial;
        let mut tmp = [0u8; 65536];
        let mut krng = Lcg(seed ^ 0x55);
        loop {
            loop {
                match ws::decode(&data) {
                    Decoded::Frame(f, n) => {
                        data.drain(..n);
                        if f.mask.is_some() || f.rsv.iter().any(|x| *x) {
                            rec2.lock().unwrap().1 = Some("masked or RSV frame from server".into());
                        }
                        match f.opcode {
                            9 if silent => {}
                            9 => {
                                let r = krng.next();
                                let pong = ws::encode(&RFrame { fin: true, rsv: [false; 3], opcode: 10, mask: Some([r as u8, (r >> 8) as u8, 1, 2]), payload: f.payload.clone() });
                                let _ = ws2.lock().unwrap().write_all(&pong);
                            }
                            1 | 2 => rec2.lock().unwrap().0.push((f.opcode == 1, f.payload)),
                            8 | 10 => {}
                            other => rec2.lock().unwrap().1 = Some(format!("unexpected opcode {} from server", other)),
                        }
                    }
                    Decoded::Truncated { .. } => break,
                    Decoded::ReservedOpcode => {
                        rec2.lock().unwrap().1 = Some("reserved opcode from server".into());
                        data.clear();
                        break;
                    }
                }
            }
            match rs.read(&mut tmp) {
                Ok(0) | Err(_) => {
                    let mut g = rec2.lock().unwrap();
                    if !data.is_empty() && g.1.is_none() {
                        g.1 = Some(format!("{} stray bytes that are not a frame at EOF", data.len()));
                    }
                    g.2 = true;
                    return;
                }
                Ok(n) => data.extend_from_slice(&tmp[..n]),
            }
        }
    });
    let mut rng = Lcg(seed);
    let mut key = || {
        let r = rng.next();
        Some([r as u8, (r >> 8) as u8, (r >> 16) as u8, (r >> 24) as u8])
    };
    let mut seq = 0usize;
    let send = |bytes: &[u8]| {
        let _ = ws_half.lock().unwrap().write_all(bytes);
    };
    if silent {
        // nothing is required of the server for this client except exactly one disconnect event
        shared.gate.lock().unwrap().0[idx] = true;
        let at = t_handshake + Duration::from_millis(HEARTBEAT_TIMEOUT_MS - 2);
        let now = Instant::now();
        if at > now {
            std::thread::sleep(at - now);
        }
        send(&ws::encode(&RFrame { fin: true, rsv: [false; 3], opcode: 8, mask: key(), payload: vec![0x03, 0xe8] }));
        let t = Instant::now();
        while !received.lock().unwrap().2 && t.elapsed() < Duration::from_secs(5) {
            std::thread::sleep(Duration::from_millis(1));
        }
        let _ = sock.shutdown(std::net::Shutdown::Both);
        let _ = reader.join();
        let g = received.lock().unwrap();
        res.received = g.0.clone();
        res.stray = g.1.clone();
        shared.finished.fetch_add(1, std::sync::atomic::Ordering::SeqCst);
        return res;
    }
    for st in &sc.steps {
        match st {
            Step::Send(text, extra, frags) => {
                let p = payload(idx, seq, *extra as usize % 3000);
                seq += 1;
                let n = 1 + (*frags as usize % 3);
                let n = n.min(p.len().max(1));
                let mut bytes = Vec::new();
                let per = p.len() / n;
                for k in 0..n {
                    let a = k * per;
                    let b = if k == n - 1 { p.len() } else { (k + 1) * per };
                    bytes.extend(ws::encode(&RFrame { fin: k == n - 1, rsv: [false; 3], opcode: if k == 0 { if *text { 1 } else { 2 } } else { 0 }, mask: key(), payload: p[a..b].to_vec() }));
                }
                send(&bytes);
                res.sent.push(p);
            }
            Step::SendAroundControl(text, pong, separate) => {
                let p = payload(idx, seq, 9);
                seq += 1;
                let half = p.len() / 2;
                let f1 = ws::encode(&RFrame { fin: false, rsv: [false; 3], opcode: if *text { 1 } else { 2 }, mask: key(), payload: p[..half].to_vec() });
                let ctl = ws::encode(&RFrame { fin: true, rsv: [false; 3], opcode: if *pong { 10 } else { 9 }, mask: key(), payload: b"mid".to_vec() });
                let f2 = ws::encode(&RFrame { fin: true, rsv: [false; 3], opcode: 0, mask: key(), payload: p[half..].to_vec() });
                if *separate {
                    send(&f1);
                    std::thread::sleep(Duration::from_millis(3));
                    send(&ctl);
                    std::thread::sleep(Duration::from_millis(3));
                    send(&f2);
                } else {
                    let mut bytes = f1;
                    bytes.extend(ctl);
                    bytes.extend(f2);
                    send(&bytes);
                }
                res.sent.push(p);
            }
            Step::Burst(n) => {
                let mut bytes = Vec::new();
                for _ in 0..(2 + *n as usize % 4) {
                    let p = payload(idx, seq, 5);
                    seq += 1;
                    bytes.extend(ws::encode(&RFrame { fin: true, rsv: [false; 3], opcode: 1, mask: key(), payload: p.clone() }));
                    res.sent.push(p);
                }
                send(&bytes);
            }
            Step::Ping => send(&ws::encode(&RFrame { fin: true, rsv: [false; 3], opcode: 9, mask: key(), payload: b"hi".to_vec() })),
            Step::Sleep(ms) => std::thread::sleep(Duration::from_millis(*ms as u64 % 12)),
        }
    }
    let immediate = sc.close_immediately && !sc.abrupt && !sc.linger;
    if immediate {
        // leave at once: Close right behind the last messages; nothing more is required of the server for this client
        shared.gate.lock().unwrap().0[idx] = true;
        send(&ws::encode(&RFrame { fin: true, rsv: [false; 3], opcode: 8, mask: key(), payload: vec![0x03, 0xe8] }));
        let t = Instant::now();
        while !received.lock().unwrap().2 && t.elapsed() < Duration::from_secs(5) {
            std::thread::sleep(Duration::from_millis(1));
        }
        let _ = sock.shutdown(std::net::Shutdown::Both);
        let _ = reader.join();
        let g = received.lock().unwrap();
        res.received = g.0.clone();
        res.stray = g.1.clone();
        shared.finished.fetch_add(1, std::sync::atomic::Ordering::SeqCst);
        return res;
    }
    if sc.linger {
        // wait for our echoes, then stay connected (and not leaving) until the harness releases us
        let deadline = Instant::now() + Duration::from_secs(10);
        loop {
            let g = received.lock().unwrap();
            let have_echo = res.sent.iter().all(|p| g.0.iter().any(|(_, m)| m.len() == p.len() + 5 && m.starts_with(b"echo:") && &m[5..] == &p[..]));
            let dead = g.2;
            drop(g);
            if have_echo || dead || Instant::now() >= deadline {
                break;
            }
            std::thread::sleep(Duration::from_millis(1));
        }
        let t = Instant::now();
        while !shared.release.load(std::sync::atomic::Ordering::SeqCst) && t.elapsed() < Duration::from_secs(20) {
            std::thread::sleep(Duration::from_millis(1));
        }
    }
    // before leaving: wait for the echo of every message and for every broadcast/unicast we are required to see
    let required: Vec<u32> = {
        let mut g = shared.gate.lock().unwrap();
        g.0[idx] = true;
        let mut v = g.1[idx].clone();
        v.extend(g.2[idx].iter());
        v
    };
    let deadline = Instant::now() + Duration::from_secs(10);
    loop {
        let g = received.lock().unwrap();
        let have_echo = res.sent.iter().all(|p| g.0.iter().any(|(_, m)| m.len() == p.len() + 5 && m.starts_with(b"echo:") && &m[5..] == &p[..]));
        let have_req = required.iter().all(|b| g.0.iter().any(|(_, m)| m == format!("ext#{}", b).as_bytes()));
        let dead = g.2;
        drop(g);
        if (have_echo && have_req) || dead || Instant::now() >= deadline {
            break;
        }
        std::thread::sleep(Duration::from_millis(1));
    }
    {
        let g = received.lock().unwrap();
        res.missing_echo = res.sent.iter().filter(|p| !g.0.iter().any(|(_, m)| m.len() == p.len() + 5 && &m[5..] == &p[..])).cloned().collect();
        res.missing_required = required.iter().filter(|b| !g.0.iter().any(|(_, m)| m == format!("ext#{}", b).as_bytes())).cloned().collect();
    }
    if sc.abrupt {
        let _ = sock.shutdown(std::net::Shutdown::Both);
    } else {
        send(&ws::encode(&RFrame { fin: true, rsv: [false; 3], opcode: 8, mask: key(), payload: vec![0x03, 0xe8] }));
        // wait for the server to close
        let t = Instant::now();
        while !received.lock().unwrap().2 && t.elapsed() < Duration::from_secs(5) {
            std::thread::sleep(Duration::from_millis(1));
        }
        let _ = sock.shutdown(std::net::Shutdown::Both);
    }
    let _ = reader.join();
    let g = received.lock().unwrap();
    res.received = g.0.clone();
    res.stray = g.1.clone();
    if !sc.linger {
        shared.finished.fetch_add(1, std::sync::atomic::Ordering::SeqCst);
    }
    res
}

pub fn run_scenario(s: &Scenario, ip: &str, seed: u64) -> (Vec<Fail>, bool) {
    let n = s.clients.len();
    let shared = Arc::new(Shared::default());
    {
        let mut g = shared.gate.lock().unwrap();
        g.0 = vec![false; n];
        g.1 = vec![Vec::new(); n];
        g.2 = vec![Vec::new(); n];
        *shared.addrs.lock().unwrap() = vec![None; n];
    }
    let heartbeat = s.heartbeat || s.clients.iter().any(|c| c.abrupt || c.silent);
    let (ws_tx, ws_rx) = std::sync::mpsc::channel();
    let mut ws_app: AsyncWebsocketApp<Arc<Shared>> = AsyncWebsocketApp::new_unlinked_with_config(shared.clone(), s.handler_threads.max(1))
        .with_polling_interval(if s.poll_ms == 0 { None } else { Some(Duration::from_millis(s.poll_ms as u64 % 11)) })
        .with_shutdown(ws_rx)
        .with_connect_handler(|st: AsyncStream, state: Arc<Arc<Shared>>| state.log.lock().unwrap().push(Ev::Connect(st.peer_addr())))
        .with_disconnect_handler(|st: AsyncStream, state: Arc<Arc<Shared>>| state.log.lock().unwrap().push(Ev::Disconnect(st.peer_addr())))
        .with_message_handler(|st: AsyncStream, m: Message, state: Arc<Arc<Shared>>| {
            state.log.lock().unwrap().push(Ev::Message(st.peer_addr(), m.bytes().to_vec()));
            let mut echo = b"echo:".to_vec();
            echo.extend_from_slice(m.bytes());
            st.send(Message::new_binary(echo));
        });
    if heartbeat {
        ws_app = ws_app.with_heartbeat(Heartbeat::new(Duration::from_millis(100), Duration::from_millis(HEARTBEAT_TIMEOUT_MS)));
    }
    let hook = ws_app.connect_hook().unwrap();
    let sender = ws_app.sender();
    let app: App<()> = App::new_with_config(n.max(2), ()).with_websocket_route("/ws", async_websocket_handler(hook));
    let running = match start_app(app, ip) {
        Ok(r) => r,
        Err(e) => return (vec![Fail::new("harness-app", e)], false),
    };
    let (done_tx, done_rx) = std::sync::mpsc::channel();
    std::thread::spawn(move || {
        ws_app.run();
        let _ = done_tx.send(());
    });
    // clients
    let mut handles = Vec::new();
    for (i, c) in s.clients.iter().enumerate() {
        let c = c.clone();
        let sh = shared.clone();
        let addr = running.addr;
        handles.push(std::thread::spawn(move || run_client(i, &c, addr, sh, pt::mix(seed, i as u64))));
    }
    // external sender
    let mut issued: Vec<(u32, Option<usize>, BTreeSet<SocketAddr>)> = Vec::new(); // (id, unicast target, connected set at issue time)
    for (k, (delay, target)) in s.external.iter().enumerate() {
        std::thread::sleep(Duration::from_millis(*delay as u64 % 25));
        let id = k as u32;
        let msg = Message::new(format!("ext#{}", id));
        // snapshot who is connected (connect logged, no disconnect logged) under the gate lock so that closing clients are consistent
        let mut g = shared.gate.lock().unwrap();
        let log = shared.log.lock().unwrap().clone();
        let mut connected: BTreeSet<SocketAddr> = BTreeSet::new();
        for e in &log {
            match e {
                Ev::Connect(a) => {
                    connected.insert(*a);
                }
                Ev::Disconnect(a) => {
                    connected.remove(a);
                }
                _ => {}
            }
        }
        let addrs = shared.addrs.lock().unwrap().clone();
        match target {
            None => {
                // every client whose connect event is logged and that is not yet leaving must receive it
                for i in 0..n {
                    if let Some(a) = addrs[i] {
                        if connected.contains(&a) && !g.0[i] {
                            g.1[i].push(id);
                        }
                    }
                }
                issued.push((id, None, connected.clone()));
                sender.broadcast(msg);
            }
            Some(t) => {
                let t = *t as usize % n;
                if let Some(a) = addrs[t] {
                    if connected.contains(&a) && !g.0[t] {
                        g.2[t].push(id);
                    }
                    issued.push((id, Some(t), connected.clone()));
                    sender.send(a, msg);
                }
            }
        }
        drop(g);
    }
    // late burst: once every non-lingering client has left (abrupt ones leave dead sockets behind until the heartbeat
    // notices), issue broadcasts back-to-back; the lingering clients are connected and not leaving, so they must get all
    let non_lingering = s.clients.iter().filter(|c| !c.linger).count();
    let t_wait = Instant::now();
    while shared.finished.load(std::sync::atomic::Ordering::SeqCst) < non_lingering && t_wait.elapsed() < Duration::from_secs(25) {
        std::thread::sleep(Duration::from_millis(1));
    }
    for k in 0..(s.late_broadcasts % 6) as u32 {
        let id = 1000 + k;
        let mut g = shared.gate.lock().unwrap();
        let log = shared.log.lock().unwrap().clone();
        let mut connected: BTreeSet<SocketAddr> = BTreeSet::new();
        for e in &log {
            match e {
                Ev::Connect(a) => {
                    connected.insert(*a);
                }
                Ev::Disconnect(a) => {
                    connected.remove(a);
                }
                _ => {}
            }
        }
        let addrs = shared.addrs.lock().unwrap().clone();
        for i in 0..n {
            if let Some(a) = addrs[i] {
                if connected.contains(&a) && !g.0[i] {
                    g.1[i].push(id);
                }
            }
        }
        issued.push((id, None, connected));
        sender.broadcast(Message::new(format!("ext#{}", id)));
        drop(g);
    }
    shared.release.store(true, std::sync::atomic::Ordering::SeqCst);
    let results: Vec<ClientResult> = handles.into_iter().map(|h| h.join().unwrap_or(ClientResult { addr: None, sent: vec![], received: vec![], stray: Some("client thread panicked".into()), missing_echo: vec![], missing_required: vec![], connect_failed: None })).collect();
    // wait for the disconnect events (abrupt ones need the heartbeat timeout)
    let expect_disc = results.iter().filter(|r| r.addr.is_some() && r.connect_failed.is_none()).count();
    let t0 = Instant::now();
    let max_wait = if s.clients.iter().any(|c| c.abrupt) { Duration::from_secs(8) } else { Duration::from_secs(5) };
    while shared.log.lock().unwrap().iter().filter(|e| matches!(e, Ev::Disconnect(_))).count() < expect_disc && t0.elapsed() < max_wait {
        std::thread::sleep(Duration::from_millis(2));
    }
    std::thread::sleep(Duration::from_millis(20));
    // shutdown
    let mut fails = Vec::new();
    let _ = ws_tx.send(());
    let t_sd = Instant::now();
    if done_rx.recv_timeout(Duration::from_secs(10)).is_err() {
        fails.push(fail!("run-does-not-return", "AsyncWebsocketApp::run did not return within 10 s of the shutdown signal"));
    }
    let _ = t_sd;
    if let Err(e) = running.stop(Duration::from_secs(15)) {
        fails.push(Fail::new("harness-stop", e));
    }
    if let Some(r) = results.iter().find(|r| r.connect_failed.is_some()) {
        return (vec![Fail::new("harness-client", r.connect_failed.clone().unwrap())], false);
    }
    let log = shared.log.lock().unwrap().clone();
    let addr_idx: BTreeMap<SocketAddr, usize> = results.iter().enumerate().filter_map(|(i, r)| r.addr.map(|a| (a, i))).collect();
    // ---- connect / disconnect exactly once, nothing after disconnect
    for (i, r) in results.iter().enumerate() {
        let a = r.addr.unwrap();
        let connects = log.iter().filter(|e| **e == Ev::Connect(a)).count();
        let discs = log.iter().filter(|e| **e == Ev::Disconnect(a)).count();
        if connects != 1 {
            fails.push(fail!("connect-count", "client {} ({}): connect handler called {} times", i, a, connects));
        }
        if discs != 1 {
            fails.push(fail!(
                if s.clients[i].abrupt { "disconnect-count:abrupt" } else { "disconnect-count:close" },
                "client {} ({}, {}): disconnect handler called {} times",
                i,
                a,
                if s.clients[i].abrupt { "vanished without Close, heartbeat on" } else { "sent Close" },
                discs
            ));
        }
        if let Some(dpos) = log.iter().position(|e| *e == Ev::Disconnect(a)) {
            // with several handler threads events are logged concurrently: only a 1-thread pool gives a total order
            if s.handler_threads <= 1 && log[dpos + 1..].iter().any(|e| matches!(e, Ev::Message(x, _) | Ev::Connect(x) if *x == a)) {
                fails.push(fail!("event-after-disconnect", "client {}: an event was dispatched after its disconnect event", i));
            }
        }
        // ---- messages: each exactly once
        let got: Vec<&Vec<u8>> = log.iter().filter_map(|e| match e {
            Ev::Message(x, p) if *x == a => Some(p),
            _ => None,
        }).collect();
        let mut g2: Vec<&Vec<u8>> = got.clone();
        g2.sort();
        let mut want: Vec<&Vec<u8>> = r.sent.iter().collect();
        want.sort();
        if g2 != want {
            let dup = g2.windows(2).any(|w| w[0] == w[1]);
            fails.push(fail!(
                if dup { "message-duplicated" } else if g2.len() < want.len() { "message-lost" } else { "message-foreign" },
                "client {}: message handler saw {} messages, the client sent {} (multisets differ)",
                i,
                g2.len(),
                want.len()
            ));
        } else if s.handler_threads <= 1 {
            let sent: Vec<&Vec<u8>> = r.sent.iter().collect();
            if got != sent {
                fails.push(fail!("message-order", "client {}: with a 1-thread handler pool messages were dispatched out of send order", i));
            }
            if let (Some(c), Some(m)) = (log.iter().position(|e| *e == Ev::Connect(a)), log.iter().position(|e| matches!(e, Ev::Message(x, _) if *x == a))) {
                if m < c {
                    fails.push(fail!("message-before-connect", "client {}: a message was dispatched before the connect event", i));
                }
            }
        }
        if let Some(st) = &r.stray {
            fails.push(fail!("client-stray-bytes", "client {}: {}", i, st));
        }
        // ---- unicast echoes: only own, at most once, and all of them (the client waited)
        let mut echoes: Vec<&Vec<u8>> = r.received.iter().filter(|(_, m)| m.starts_with(b"echo:")).map(|(_, m)| m).collect();
        if echoes.iter().any(|m| !m[5..].starts_with(format!("c{}s", i).as_bytes())) {
            fails.push(fail!("unicast-misdelivered", "client {} received the echo of another client's message", i));
        }
        let total = echoes.len();
        echoes.sort();
        echoes.dedup();
        if echoes.len() != total {
            fails.push(fail!("unicast-duplicated", "client {} received an echo twice", i));
        }
        if !r.missing_echo.is_empty() && !(s.clients[i].close_immediately && !s.clients[i].abrupt && !s.clients[i].linger) {
            fails.push(fail!("unicast-lost", "client {} never received the echo of {} of its {} messages although it waited 10 s", i, r.missing_echo.len(), r.sent.len()));
        }
        if !r.missing_required.is_empty() {
            fails.push(fail!("external-send-lost", "client {} was connected when external message(s) {:?} were issued and stayed open, but never received them", i, r.missing_required));
        }
        // ---- external messages: at most once; unicasts only by their addressee
        for (id, target, _) in &issued {
            let cnt = r.received.iter().filter(|(_, m)| m == format!("ext#{}", id).as_bytes()).count();
            if cnt > 1 {
                fails.push(fail!("broadcast-duplicated", "client {} received external message {} {} times", i, id, cnt));
            }
            if let Some(t) = target {
                if *t != i && cnt > 0 {
                    fails.push(fail!("unicast-misdelivered", "client {} received a unicast addressed to client {}", i, t));
                }
            }
        }
    }
    // events for unknown addresses
    if log.iter().any(|e| match e {
        Ev::Connect(a) | Ev::Disconnect(a) | Ev::Message(a, _) => !addr_idx.contains_key(a),
    }) {
        fails.push(fail!("event-unknown-client", "an event was dispatched for an address no client used"));
    }
    let nontrivial = (n >= 2 && s.external.iter().any(|(_, t)| t.is_none())) || s.clients.iter().any(|c| c.abrupt || c.silent) || s.clients.iter().any(|c| c.steps.iter().any(|x| matches!(x, Step::Burst(_))));
    (fails, nontrivial)
}

fn arb_scenario() -> impl Strategy<Value = Scenario> {
    let step = prop_oneof![
        5 => (any::<bool>(), any::<u16>(), any::<u8>()).prop_map(|(t, e, f)| Step::Send(t, e, f)),
        2 => any::<u8>().prop_map(Step::Burst),
        1 => (any::<bool>(), any::<bool>(), any::<bool>()).prop_map(|(t, p, sep)| Step::SendAroundControl(t, p, sep)),
        1 => Just(Step::Ping),
        2 => any::<u8>().prop_map(Step::Sleep),
    ];
    let client = (any::<u8>(), proptest::collection::vec(step, 0..8), prop_oneof![6 => Just(false), 1 => Just(true)], prop_oneof![3 => Just(false), 1 => Just(true)], prop_oneof![3 => Just(false), 1 => Just(true)], prop_oneof![9 => Just(false), 1 => Just(true)])
        .prop_map(|(start_delay_ms, steps, abrupt, linger, close_immediately, silent)| {
            let silent = silent && !abrupt;
            ClientScript { start_delay_ms, steps: if silent { Vec::new() } else { steps }, abrupt, linger: linger && !abrupt && !silent, close_immediately, silent }
        });
    (
        proptest::collection::vec(client, 1..9),
        prop_oneof![4 => Just(1usize), 3 => 2usize..9],
        0u8..11,
        any::<bool>(),
        proptest::collection::vec((any::<u8>(), proptest::option::of(any::<u8>())), 0..5),
        prop_oneof![1 => Just(0u8), 1 => 1u8..6],
    )
        .prop_map(|(clients, handler_threads, poll_ms, heartbeat, external, late_broadcasts)| Scenario { clients, handler_threads, poll_ms, heartbeat, external, late_broadcasts })
}

// ------------------------------------------------------------------------------------------ broadcasts to nobody

/// A minimal reference client for the sub-scenario below: handshake, then a reader thread that answers pings and
/// collects data frames.
struct MiniClient {
    sock: std::net::TcpStream,
    addr: SocketAddr,
    received: Arc<Mutex<(Vec<Vec<u8>>, bool)>>,
    reader: Option<std::thread::JoinHandle<()>>,
}

impl MiniClient {
    fn connect(server: SocketAddr) -> Result<MiniClient, String> {
        let mut sock = connect_retry(server, Duration::from_secs(5)).map_err(|e| e.to_string())?;
        let _ = sock.set_nodelay(true);
        let addr = sock.local_addr().map_err(|e| e.to_string())?;
        sock.write_all(b"GET /ws HTTP/1.1\r\nHost: c12\r\nUpgrade: websocket\r\nConnection: Upgrade\r\nSec-WebSocket-Key: dGhlIHNhbXBsZSBub25jZQ==\r\nSec-WebSocket-Version: 13\r\n\r\n").map_err(|e| e.to_string())?;
        let mut buf = Vec::new();
        let mut tmp = [0u8; 4096];
        let _ = sock.set_read_timeout(Some(Duration::from_secs(10)));
        let head_len = loop {
            match parse_response(&buf, false) {
                RespParse::Complete(r) if r.status == 101 => break r.consumed,
                RespParse::Complete(r) => return Err(format!("handshake status {}", r.status)),
                RespParse::Invalid(e) => return Err(e),
                _ => {}
            }
            match sock.read(&mut tmp) {
                Ok(0) | Err(_) => return Err("EOF during handshake".into()),
                Ok(n) => buf.extend_from_slice(&tmp[..n]),
            }
        };
        let received: Arc<Mutex<(Vec<Vec<u8>>, bool)>> = Arc::new(Mutex::new((Vec::new(), false)));
        let rec2 = received.clone();
        let mut rs = sock.try_clone().map_err(|e| e.to_string())?;
        let mut wr = sock.try_clone().map_err(|e| e.to_string())?;
        let mut data: Vec<u8> = buf[head_len..].to_vec();
        let reader = std::thread::spawn(move || {
            let _ = rs.set_read_timeout(None);
            let mut tmp = [0u8; 65536];
            loop {
                loop {
                    match ws::decode(&data) {
                        Decoded::Frame(f, n) => {
                            data.drain(..n);
                            match f.opcode {
                                9 => {
                                    let _ = wr.write_all(&ws::encode(&RFrame { fin: true, rsv: [false; 3], opcode: 10, mask: Some([7, 8, 9, 10]), payload: f.payload.clone() }));
                                }
                                1 | 2 => rec2.lock().unwrap().0.push(f.payload),
                                _ => {}
                            }
                        }
                        Decoded::Truncated { .. } => break,
                        Decoded::ReservedOpcode => {
                            data.clear();
                            break;
                        }
                    }
                }
                match rs.read(&mut tmp) {
                    Ok(0) | Err(_) => {
                        rec2.lock().unwrap().1 = true;
                        return;
                    }
                    Ok(n) => data.extend_from_slice(&tmp[..n]),
                }
            }
        });
        Ok(MiniClient { sock, addr, received, reader: Some(reader) })
    }
    fn has(&self, m: &[u8]) -> bool {
        self.received.lock().unwrap().0.iter().any(|x| x == m)
    }
    fn wait_for(&self, m: &[u8], limit: Duration) -> bool {
        let t = Instant::now();
        while t.elapsed() < limit {
            if self.has(m) {
                return true;
            }
            std::thread::sleep(Duration::from_millis(1));
        }
        self.has(m)
    }
    fn close(mut self) -> Vec<Vec<u8>> {
        let _ = self.sock.write_all(&ws::encode(&RFrame { fin: true, rsv: [false; 3], opcode: 8, mask: Some([1, 2, 3, 4]), payload: vec![0x03, 0xe8] }));
        let t = Instant::now();
        while !self.received.lock().unwrap().1 && t.elapsed() < Duration::from_secs(5) {
            std::thread::sleep(Duration::from_millis(1));
        }
        let _ = self.sock.shutdown(std::net::Shutdown::Both);
        if let Some(r) = self.reader.take() {
            let _ = r.join();
        }
        let g = self.received.lock().unwrap();
        g.0.clone()
    }
}

#[derive(Clone, Debug, Serialize, Deserialize)]
pub struct NobodyScenario {
    pub poll_ms: u8,
    pub handler_threads: usize,
    /// a first client connects and leaves before the broadcasts (so the set of streams has been non-empty once)
    pub earlier_client: bool,
    /// the disconnect handler itself broadcasts "<addr> left" (a server-side send while nobody is connected)
    pub farewell_from_handler: bool,
    /// external broadcasts issued while nobody is connected
    pub stale: u8,
}

/// "A broadcast reaches every client connected at that moment": broadcasts issued while nobody is connected reach
/// nobody — in particular not the client that connects well after them. The app drains its outgoing queue once per
/// poll iteration (<= 10 ms apart), so a client that starts connecting 700 ms after the last such broadcast was
/// queued cannot have been connected "at that moment"; the wait is watched by a canary (a harness thread that oversleeps
/// by more than 150 ms makes the case inconclusive: the machine was too busy for a time-based judgement).
pub fn run_nobody(s: &NobodyScenario, ip: &str) -> Vec<Fail> {
    #[derive(Default)]
    struct St {
        log: Mutex<Vec<Ev>>,
    }
    let st = Arc::new(St::default());
    let farewell = s.farewell_from_handler;
    let (ws_tx, ws_rx) = std::sync::mpsc::channel();
    let ws_app: AsyncWebsocketApp<Arc<St>> = AsyncWebsocketApp::new_unlinked_with_config(st.clone(), s.handler_threads.clamp(1, 8))
        .with_polling_interval(if s.poll_ms % 11 == 0 { None } else { Some(Duration::from_millis(s.poll_ms as u64 % 11)) })
        .with_shutdown(ws_rx)
        .with_connect_handler(|stream: AsyncStream, state: Arc<Arc<St>>| state.log.lock().unwrap().push(Ev::Connect(stream.peer_addr())))
        .with_disconnect_handler(move |stream: AsyncStream, state: Arc<Arc<St>>| {
            if farewell {
                stream.broadcast(Message::new(format!("left:{}", stream.peer_addr())));
            }
            state.log.lock().unwrap().push(Ev::Disconnect(stream.peer_addr()));
        })
        .with_message_handler(|_stream: AsyncStream, _m: Message, _state: Arc<Arc<St>>| {});
    let hook = ws_app.connect_hook().unwrap();
    let sender = ws_app.sender();
    let app: App<()> = App::new_with_config(2, ()).with_websocket_route("/ws", async_websocket_handler(hook));
    let running = match start_app(app, ip) {
        Ok(r) => r,
        Err(e) => return vec![Fail::new("harness-app", e)],
    };
    let (done_tx, done_rx) = std::sync::mpsc::channel();
    std::thread::spawn(move || {
        ws_app.run();
        let _ = done_tx.send(());
    });
    let mut fails = Vec::new();
    let wait_log = |pred: &dyn Fn(&[Ev]) -> bool, limit: Duration| {
        let t = Instant::now();
        loop {
            if pred(&st.log.lock().unwrap()) {
                return true;
            }
            if t.elapsed() >= limit {
                return false;
            }
            std::thread::sleep(Duration::from_millis(1));
        }
    };
    let mut harness_err: Option<String> = None;
    let mut forbidden: Vec<Vec<u8>> = Vec::new();
    if s.earlier_client {
        match MiniClient::connect(running.addr) {
            Err(e) => harness_err = Some(e),
            Ok(c) => {
                let a = c.addr;
                if !wait_log(&|l| l.contains(&Ev::Connect(a)), Duration::from_secs(10)) {
                    fails.push(fail!("connect-count", "the first client's connect handler was not called within 10 s"));
                }
                let _ = c.close();
                if !wait_log(&|l| l.contains(&Ev::Disconnect(a)), Duration::from_secs(10)) {
                    fails.push(fail!("disconnect-count:close", "the first client sent Close; its disconnect handler was not called within 10 s"));
                }
                if farewell {
                    forbidden.push(format!("left:{}", a).into_bytes());
                }
            }
        }
    }
    for k in 0..s.stale % 4 {
        let m = format!("stale#{}", k);
        forbidden.push(m.clone().into_bytes());
        sender.broadcast(Message::new(m));
    }
    // nobody is connected now; let far more than one poll interval go by, under the eye of a canary
    let mut worst = Duration::ZERO;
    let t_wait = Instant::now();
    while t_wait.elapsed() < Duration::from_millis(700) {
        let t = Instant::now();
        std::thread::sleep(Duration::from_millis(5));
        worst = worst.max(t.elapsed().saturating_sub(Duration::from_millis(5)));
    }
    let busy = worst > Duration::from_millis(150);
    if harness_err.is_none() && fails.is_empty() {
        match MiniClient::connect(running.addr) {
            Err(e) => harness_err = Some(e),
            Ok(c) => {
                let a = c.addr;
                if !wait_log(&|l| l.contains(&Ev::Connect(a)), Duration::from_secs(10)) {
                    fails.push(fail!("connect-count", "the late client's connect handler was not called within 10 s"));
                }
                sender.broadcast(Message::new("fresh"));
                if !c.wait_for(b"fresh", Duration::from_secs(10)) {
                    fails.push(fail!("broadcast-lost", "a broadcast issued after the client's connect event was not delivered to it within 10 s (it stayed connected)"));
                }
                let got = c.close();
                if let Some(m) = got.iter().find(|m| forbidden.contains(m)) {
                    if busy {
                        harness_err = Some(format!("machine too busy for a time-based judgement (a 5 ms sleep took {:?})", worst + Duration::from_millis(5)));
                    } else {
                        fails.push(fail!(
                            "stale-broadcast-delivered",
                            "the client that connected 700 ms after the broadcast {:?} had been issued to an app with no connected client received it (it received {:?}); poll interval {} ms",
                            String::from_utf8_lossy(m),
                            got.iter().map(|m| String::from_utf8_lossy(m).to_string()).collect::<Vec<_>>(),
                            s.poll_ms % 11
                        ));
                    }
                }
                if got.iter().filter(|m| m.as_slice() == b"fresh").count() > 1 {
                    fails.push(fail!("broadcast-duplicated", "one broadcast was delivered {} times to one client", got.iter().filter(|m| m.as_slice() == b"fresh").count()));
                }
            }
        }
    }
    let _ = ws_tx.send(());
    if done_rx.recv_timeout(Duration::from_secs(10)).is_err() {
        fails.push(fail!("run-does-not-return", "AsyncWebsocketApp::run did not return within 10 s of the shutdown signal"));
    }
    if let Err(e) = running.stop(Duration::from_secs(15)) {
        harness_err = Some(e);
    }
    if let Some(e) = harness_err {
        return vec![Fail::new("harness-nobody", e)];
    }
    fails.truncate(1);
    fails
}

fn nobody(ctx: &Ctx) {
    let runs = ctx.tier.pick(32usize, 640usize);
    let next = std::sync::atomic::AtomicUsize::new(0);
    let found: Mutex<Vec<(Fail, J)>> = Mutex::new(Vec::new());
    crate::engine::shards(16, |sh| loop {
        let i = next.fetch_add(1, std::sync::atomic::Ordering::SeqCst);
        if i >= runs {
            break;
        }
        let mut rng = Lcg(pt::mix(ctx.seed, 12900 + i as u64));
        let earlier = rng.next() % 2 == 0;
        let s = NobodyScenario { poll_ms: (rng.next() % 11) as u8, handler_threads: 1 + (rng.next() % 4) as usize, earlier_client: earlier, farewell_from_handler: earlier && rng.next() % 2 == 0, stale: 1 + (rng.next() % 3) as u8 };
        ctx.case(hash_of(&format!("{:?}", s)), true, &["broadcast-while-nobody-is-connected", if s.farewell_from_handler { "nobody:farewell-from-disconnect-handler" } else if s.earlier_client { "nobody:after-a-client-left" } else { "nobody:before-the-first-client" }]);
        if i == 0 {
            ctx.sample("broadcast-while-nobody-is-connected", || serde_json::to_value(&s).unwrap());
        }
        for f in run_nobody(&s, &format!("127.0.12.{}", 101 + sh)) {
            if f.sig.starts_with("harness-") {
                ctx.inconclusive(&f.detail);
            } else {
                found.lock().unwrap().push((f, serde_json::to_value(&s).unwrap()));
            }
        }
    });
    for (f, c) in found.into_inner().unwrap() {
        if !ctx.tolerate(&f) {
            ctx.violation(f, "nobody", c);
        }
    }
}

pub fn run(ctx: &Ctx) {
    ctx.rule("scenarios of 1..8 reference clients (scripts over send text/binary in 1..3 fragments, bursts of 2..5 messages in one write, a fragmented message with a Pong or Ping between its fragments, ping, short sleeps; ending with Close, vanishing abruptly with the heartbeat on, or staying silent to the heartbeat pings and sending Close just as the pong timeout elapses) against AsyncWebsocketApp linked to a real App, handler pools of 1..8 threads, poll interval none..10 ms, an external AsyncSender issuing unicasts and broadcasts at generated moments, ending with shutdown; payloads carry (client#, seq#). Invariants over the handler event log and each client's received frames: connect and disconnect exactly once per client, each client message dispatched exactly once (multiset), with a 1-thread pool connect before the first message, messages in send order and nothing after disconnect; every echo unicast reaches only and exactly its client; external messages at most once, unicasts only at their addressee, required ones delivered; run() returns after the shutdown signal. Broadcasts to nobody: broadcasts issued (by an external sender, or by the disconnect handler of the last client) while no client is connected must not reach the client that connects 700 ms later, which must still get a fresh broadcast exactly once. Non-trivial: >=2 clients with a broadcast, an abrupt disconnect, or several messages in one write; distinct by scenario");
    ctx.assume("interleavings come from the OS scheduler plus generated delays (no controlled scheduler); ordering is demanded only with a 1-thread handler pool; clients answer heartbeat pings; heartbeat 100 ms / timeout 1.5 s");
    let cases = ctx.share(ctx.tier.pick(192u32, 3000u32)).max(16);
    let nshards = 16;
    crate::engine::shards(nshards, |i| {
        let ip = format!("127.0.12.{}", 1 + i);
        pt::run(
            ctx,
            "scenario",
            pt::Opts::new(cases / nshards as u32).salt(ctx.salt_of(1200 + i as u64)).shrink_iters(16),
            arb_scenario(),
            |s| serde_json::to_value(s).unwrap(),
            |s| {
                let (f, nt) = run_scenario(s, &ip, ctx.seed);
                if let Some(h) = f.iter().find(|x| x.sig.starts_with("harness-")) {
                    ctx.inconclusive(&h.detail);
                    return Vec::new();
                }
                let mut labels = vec!["scenario"];
                if s.clients.len() >= 2 {
                    labels.push(">=2-clients");
                }
                if s.clients.iter().any(|c| c.abrupt) {
                    labels.push("abrupt-disconnect");
                }
                if s.clients.iter().any(|c| c.silent) {
                    labels.push("close-as-the-pong-timeout-elapses");
                }
                if s.external.iter().any(|(_, t)| t.is_none()) {
                    labels.push("broadcast");
                }
                if s.handler_threads == 1 {
                    labels.push("1-thread-pool(order checked)");
                }
                if s.late_broadcasts % 6 > 0 && s.clients.iter().any(|c| c.linger) && s.clients.iter().any(|c| c.abrupt) {
                    labels.push("late-broadcasts-past-a-dead-peer");
                }
                if s.clients.iter().any(|c| c.close_immediately && !c.abrupt && !c.linger && !c.steps.is_empty()) {
                    labels.push("close-right-behind-messages");
                }
                ctx.case(hash_of(&format!("{:?}", s)), nt, &labels);
                ctx.sample(labels.last().unwrap(), || json!({"clients": s.clients.len(), "handler_threads": s.handler_threads, "poll_ms": s.poll_ms % 11, "heartbeat": s.heartbeat, "external": s.external, "first_client": s.clients[0]}));
                f
            },
        );
    });
    nobody(ctx);
}

pub fn replay(ctx: &Ctx, kind: &str, case: &J) -> Vec<Fail> {
    if kind == "nobody" {
        return match serde_json::from_value::<NobodyScenario>(case.clone()) {
            Ok(s) => run_nobody(&s, "127.0.12.99"),
            Err(e) => vec![Fail::new("harness", format!("bad replay case: {}", e))],
        };
    }
    match serde_json::from_value::<Scenario>(case.clone()) {
        Ok(s) => run_scenario(&s, "127.0.12.99", ctx.seed).0,
        Err(e) => vec![Fail::new("harness", format!("bad replay case: {}", e))],
    }
}
