//! C10 — WebSocket frames encode to the RFC 6455 layout and decode back under any split.

use crate::common::http::{Plan, PlanReader};
use crate::common::ws::{self, Decoded, RFrame};
use crate::engine::worker::{Worker, ST_DIED, ST_CPU, ST_PANIC};
use crate::engine::{catch, hash_of, hex, par, pt, unhex, Ctx, Fail};
use humphrey_ws::error::WebsocketError;
use humphrey_ws::verif_hooks::{decode, encode, VFrame};
use proptest::prelude::*;
use serde_json::{json, Value as J};

fn vframe_of(f: &RFrame, wire_payload: Vec<u8>) -> VFrame {
    VFrame {
        fin: f.fin,
        rsv: f.rsv,
        opcode: f.opcode,
        mask: f.mask.is_some(),
        length: wire_payload.len() as u64,
        masking_key: f.mask.unwrap_or([0; 4]),
        payload: wire_payload,
    }
}

/// decode `bytes` under a read plan and compare with the reference decoder
pub fn check_decode(bytes: &[u8], plan: &Plan) -> Option<Fail> {
    let want = ws::decode(bytes);
    let got = match catch(|| {
        let rd = PlanReader::new(bytes.to_vec(), plan.sizes(bytes.len()));
        decode(rd)
    }) {
        Ok(g) => g,
        Err(p) => return Some(fail!("decode-panic", "Frame::from_stream panicked on {} under {:?}: {}", hex(&bytes[..bytes.len().min(64)]), plan, p)),
    };
    let short = hex(&bytes[..bytes.len().min(40)]);
    match (want, got) {
        (Decoded::Frame(f, _), Ok(v)) => {
            let ok = v.fin == f.fin && v.rsv == f.rsv && v.opcode == f.opcode && v.mask == f.mask.is_some() && v.payload == f.payload && v.length == f.payload.len() as u64 && (f.mask.is_none() || v.masking_key == f.mask.unwrap());
            if ok {
                None
            } else {
                Some(fail!(
                    if matches!(plan, Plan::Whole) { "decode-fields" } else { "decode-segmentation" },
                    "decoded frame differs from the RFC 6455 reading of {}… under {:?}: got fin={} rsv={:?} op={} mask={} key={:?} len={} payload[..8]={:?}; want fin={} rsv={:?} op={} mask={:?} len={}",
                    short, plan, v.fin, v.rsv, v.opcode, v.mask, v.masking_key, v.length, &v.payload[..v.payload.len().min(8)], f.fin, f.rsv, f.opcode, f.mask, f.payload.len()
                ))
            }
        }
        (Decoded::Frame(..), Err(e)) => Some(fail!("decode-rejects-valid", "decoder returned {:?} for complete valid frame {}… under {:?}", e, short, plan)),
        (Decoded::Truncated { reserved_opcode }, Err(e)) => {
            if e == WebsocketError::ReadError || (reserved_opcode && e == WebsocketError::InvalidOpcode) {
                None
            } else {
                Some(fail!("truncated-wrong-error", "truncated frame {}… gave {:?} instead of ReadError", short, e))
            }
        }
        (Decoded::Truncated { .. }, Ok(v)) => Some(fail!("truncated-accepted", "truncated frame {}… ({} bytes) decoded as a frame with {} payload bytes", short, bytes.len(), v.payload.len())),
        (Decoded::ReservedOpcode, Err(WebsocketError::InvalidOpcode)) => None,
        (Decoded::ReservedOpcode, Err(e)) => Some(fail!("reserved-wrong-error", "reserved opcode frame {}… gave {:?} instead of InvalidOpcode", short, e)),
        (Decoded::ReservedOpcode, Ok(v)) => Some(fail!("reserved-accepted", "frame with reserved opcode {:#x} accepted", v.opcode)),
    }
}

/// encode via Humphrey and compare with the reference layout; then decode back under plans
pub fn check_frame(f: &RFrame, plan_seed: u64, ctx: Option<&Ctx>) -> Vec<Fail> {
    // Humphrey's Frame stores the payload as it goes on the wire (the encoder does not apply the mask)
    let wire_payload = match f.mask {
        Some(k) => ws::xor_mask(&f.payload, k),
        None => f.payload.clone(),
    };
    let want = ws::encode(f);
    let got = match catch(|| encode(vframe_of(f, wire_payload.clone()))) {
        Ok(Some(b)) => b,
        Ok(None) => return vec![fail!("encode-opcode", "opcode {:#x} not accepted by the encoder", f.opcode)],
        Err(p) => return vec![fail!("encode-panic", "frame encoding panicked: {}", p)],
    };
    if got != want {
        let n = want.len().min(16);
        return vec![fail!(
            "encode-layout",
            "encoded frame (fin={} rsv={:?} op={} mask={:?} len={}) starts {} but RFC 6455 §5.2 layout is {} (total {} vs {} bytes)",
            f.fin, f.rsv, f.opcode, f.mask, f.payload.len(), hex(&got[..got.len().min(16)]), hex(&want[..n]), got.len(), want.len()
        )];
    }
    let plans = plans_for_frame(&got, plan_seed);
    if let Some(c) = ctx {
        c.label("plans", plans.len() as u64);
    }
    for p in &plans {
        if let Some(fl) = check_decode(&got, p) {
            return vec![fl];
        }
    }
    Vec::new()
}

fn plans_for_frame(bytes: &[u8], seed: u64) -> Vec<Plan> {
    if let Some(p) = crate::common::http::plan_override() {
        return p;
    }
    let n = bytes.len();
    let mut plans = vec![Plan::Whole, Plan::ByteWise];
    if n <= 140 {
        for k in 1..n {
            plans.push(Plan::SplitAt(k));
        }
    } else {
        for k in 1..16.min(n) {
            plans.push(Plan::SplitAt(k));
        }
        let mut rng = crate::engine::Lcg(seed);
        for _ in 0..8 {
            plans.push(Plan::SplitAt(1 + (rng.next() % (n as u64 - 1)) as usize));
        }
        let mut sizes = Vec::new();
        for _ in 0..50 {
            sizes.push(1 + (rng.next() % 4000) as usize);
        }
        plans.push(Plan::Sizes(sizes));
    }
    plans
}

const BOUNDARY_LENS: [usize; 11] = [0, 1, 124, 125, 126, 127, 128, 65534, 65535, 65536, 65537];

pub fn arb_frame(max_len: usize) -> impl Strategy<Value = RFrame> {
    (
        any::<bool>(),
        any::<[bool; 3]>(),
        0usize..6,
        // keys: any, all-zero (masking is then the identity, the MASK bit and the four key bytes must still be there), some zero bytes
        proptest::option::of(prop_oneof![6 => any::<[u8; 4]>(), 1 => Just([0u8; 4]), 1 => any::<[u8; 4]>().prop_map(|k| [k[0], 0, 0, k[3]])]),
        prop_oneof![
            3 => (0usize..BOUNDARY_LENS.len()).prop_map(|i| BOUNDARY_LENS[i]),
            3 => 0usize..300,
            1 => 0usize..max_len,
        ],
        any::<u64>(),
    )
        .prop_map(|(fin, rsv, op, mask, len, fill)| {
            let mut rng = crate::engine::Lcg(fill);
            RFrame { fin, rsv, opcode: ws::OPCODES[op], mask, payload: rng.bytes(len) }
        })
}

fn headers_exhaustive(ctx: &Ctx) {
    // all 65 536 two-byte headers followed by (a) nothing, (b) truncated remainder at every offset, (c) complete remainder + small payload
    par(ctx, |shard, n, a| {
        for h in (0u32..65536).filter(|h| *h as usize % n == shard) {
            let b0 = (h >> 8) as u8;
            let b1 = h as u8;
            let len7 = (b1 & 0x7f) as usize;
            let masked = b1 & 0x80 != 0;
            // complete remainder: extended length chosen small (126 -> 126+len7%3, 127 -> 65536+...), payload arbitrary
            let (ext, plen): (Vec<u8>, usize) = match len7 {
                126 => {
                    let l = 126 + (b0 as usize % 5);
                    (vec![(l >> 8) as u8, l as u8], l)
                }
                127 => {
                    let l = if b0 & 1 == 0 { 3 } else { 70 };
                    ((l as u64).to_be_bytes().to_vec(), l) // non-minimal 64-bit length of a small payload: still a valid frame to decode
                }
                l => (vec![], l),
            };
            let mut full = vec![b0, b1];
            full.extend_from_slice(&ext);
            if masked {
                full.extend_from_slice(&[b0 ^ 0x5a, b1, 0x11, b0.wrapping_add(b1)]);
            }
            for i in 0..plen {
                full.push((i as u8).wrapping_mul(31) ^ b0);
            }
            let nt = matches!(len7, 125 | 126 | 127) || masked || b0 & 0x70 != 0;
            // (c) complete
            a.add(nt, check_decode(&full, &Plan::Whole), "decode", || json!({"bytes": hex(&full), "plan": "Whole"}));
            a.add(nt, check_decode(&full, &Plan::ByteWise), "decode", || json!({"bytes": hex(&full), "plan": "ByteWise"}));
            // (a) header only, (b) every truncation of the header part and a few of the payload
            let head_len = full.len() - plen;
            let mut cuts: Vec<usize> = (0..=head_len.min(full.len().saturating_sub(1))).collect();
            if plen > 1 {
                cuts.push(head_len + plen / 2);
                cuts.push(full.len() - 1);
            }
            for c in cuts {
                if c >= full.len() {
                    continue;
                }
                a.add(nt, check_decode(&full[..c], &Plan::Whole), "decode", || json!({"bytes": hex(&full[..c]), "plan": "Whole"}));
            }
            // split inside header / extended length / key
            for k in 1..head_len.min(full.len()) {
                a.add(nt, check_decode(&full, &Plan::SplitAt(k)), "decode", || json!({"bytes": hex(&full), "plan": {"SplitAt": k}}));
            }
        }
    });
    ctx.exhaustive_space("all 65 536 two-byte frame headers, each with (a) nothing after it, (b) its remainder truncated at every header offset and inside the payload, (c) a complete remainder with a small payload, decoded whole, byte-wise and split at every header offset");
}

fn boundary_frames(ctx: &Ctx) {
    // FIN x RSV x 6 opcodes x mask on/off x the 11 boundary lengths: exhaustive
    let mut n = 0u64;
    let mut first: Option<(Fail, J)> = None;
    let mut rng = crate::engine::Lcg(pt::mix(ctx.seed, 1010));
    for &len in &BOUNDARY_LENS {
        let payload = rng.bytes(len);
        for bits in 0u8..16 {
            for &op in &ws::OPCODES {
                for mask in [None, Some([0x12, 0x34, 0x56, 0x78]), Some([0, 0, 0, 0]), Some([0xff, 0x00, 0xff, 0x80])] {
                    if len > 200 && bits % 5 != 0 {
                        continue; // long payloads: subset of bit combinations (counted under labels)
                    }
                    let f = RFrame { fin: bits & 8 != 0, rsv: [bits & 4 != 0, bits & 2 != 0, bits & 1 != 0], opcode: op, mask, payload: payload.clone() };
                    n += 1;
                    for fl in check_frame(&f, 3, None) {
                        if !ctx.tolerate(&fl) && first.is_none() {
                            first = Some((fl, frame_json(&f, 3)));
                        }
                    }
                }
            }
        }
    }
    ctx.bulk_n(n, n);
    ctx.label("boundary-frames", n);
    if let Some((f, c)) = first {
        ctx.violation(f, "frame", c);
    }
}

fn messages(ctx: &Ctx) {
    // Message::to_frame for text / binary messages
    let mut rng = crate::engine::Lcg(pt::mix(ctx.seed, 1020));
    let mut n = 0u64;
    for &len in BOUNDARY_LENS.iter().chain([5usize, 300].iter()) {
        for text in [true, false] {
            let payload: Vec<u8> = if text { (0..len).map(|i| b'a' + (i % 26) as u8).collect() } else { let mut p = rng.bytes(len); if !p.is_empty() { p[0] = 0xff; } p };
            let m = if text { humphrey_ws::Message::new(&payload) } else { humphrey_ws::Message::new_binary(&payload) };
            let got = m.to_frame();
            let want = ws::encode(&RFrame { fin: true, rsv: [false; 3], opcode: if text { 1 } else { 2 }, mask: None, payload: payload.clone() });
            n += 1;
            if got != want {
                let f = fail!("message-to-frame", "Message::to_frame of a {}-byte {} message starts {} instead of {}", len, if text { "text" } else { "binary" }, hex(&got[..got.len().min(14)]), hex(&want[..want.len().min(14)]));
                if !ctx.tolerate(&f) {
                    ctx.violation(f, "message", json!({"text": text, "payload": hex(&payload)}));
                }
            }
        }
    }
    ctx.bulk_n(n, n);
    ctx.label("message-to-frame", n);
}

fn huge_claims(ctx: &Ctx) {
    // truncated frames claiming huge lengths must yield an error, not an abort: run in an isolated worker
    let mut w = Worker::spawn();
    let claims: [u64; 8] = [1 << 31, (1 << 32) + 5, 1 << 40, 100_000_000_000_000, 1 << 62, (1 << 63) - 1, 1 << 63, u64::MAX];
    for &c in &claims {
        for masked in [false, true] {
            for extra in [0usize, 10] {
                let mut b = vec![0x82u8, if masked { 0xff } else { 0x7f }];
                b.extend_from_slice(&c.to_be_bytes());
                if masked {
                    b.extend_from_slice(&[1, 2, 3, 4]);
                }
                b.extend(std::iter::repeat(0x41).take(extra));
                let o = w.run(crate::props::targets::T_FRAME, 0, 2, &b);
                ctx.case(hash_of(&b), true, &["huge-claim"]);
                let bound = 128 * b.len() as u64 + (1 << 20);
                let f = if o.status == ST_DIED {
                    Some(fail!("huge-claim-abort", "truncated frame claiming {} payload bytes ({} bytes supplied) kills the process: {}", c, b.len(), o.msg))
                } else if o.status == ST_PANIC {
                    Some(fail!("huge-claim-panic", "truncated frame claiming {} payload bytes panics: {}", c, o.msg))
                } else if o.status == ST_CPU {
                    Some(fail!("huge-claim-loop", "truncated frame claiming {} payload bytes does not terminate", c))
                } else if o.status == 0 {
                    Some(fail!("truncated-accepted", "truncated frame claiming {} bytes was decoded as a frame", c))
                } else if o.max_single > bound {
                    Some(fail!("huge-claim-allocation", "truncated frame claiming {} payload bytes ({} supplied) made the decoder allocate {} bytes in one request", c, b.len(), o.max_single))
                } else {
                    None
                };
                if let Some(f) = f {
                    if !ctx.tolerate(&f) {
                        ctx.violation(f, "huge", json!({"bytes": hex(&b)}));
                    }
                }
            }
        }
    }
    ctx.sample("huge-claim", || json!({"bytes": "82 7f 00005af3107a4000 (claims 10^14 bytes, none supplied)", "expect": "ReadError, bounded allocation"}));
}

fn frame_json(f: &RFrame, seed: u64) -> J {
    json!({"fin": f.fin, "rsv": f.rsv, "opcode": f.opcode, "mask": f.mask.map(|k| hex(&k)), "payload": hex(&f.payload), "plan_seed": seed.to_string()})
}

fn frame_of_json(c: &J) -> (RFrame, u64) {
    let rsv: Vec<bool> = c["rsv"].as_array().map(|a| a.iter().map(|x| x.as_bool().unwrap_or(false)).collect()).unwrap_or(vec![false; 3]);
    let mask = c["mask"].as_str().map(|s| {
        let b = unhex(s);
        [b[0], b[1], b[2], b[3]]
    });
    (
        RFrame { fin: c["fin"].as_bool().unwrap_or(true), rsv: [rsv[0], rsv[1], rsv[2]], opcode: c["opcode"].as_u64().unwrap_or(1) as u8, mask, payload: unhex(c["payload"].as_str().unwrap_or("")) },
        c["plan_seed"].as_str().and_then(|s| s.parse().ok()).unwrap_or(0),
    )
}

/// The polling decoder (`WebsocketStream::recv_nonblocking`, used by the asynchronous app) over a real socket: one
/// unfragmented masked data frame is written in two pieces with a pause in between, cut at `cut`; polling must
/// eventually deliver exactly the payload.
pub fn check_nonblocking(payload_len: usize, binary: bool, key: [u8; 4], cut: usize, pause_ms: u64) -> Vec<Fail> {
    use std::io::Write;
    let payload: Vec<u8> = (0..payload_len).map(|i| (i * 7 + 3) as u8).collect();
    let wire = ws::encode(&RFrame { fin: true, rsv: [false; 3], opcode: if binary { 2 } else { 1 }, mask: Some(key), payload: if binary { payload.clone() } else { payload.iter().map(|b| b'a' + b % 26).collect() } });
    let payload: Vec<u8> = if binary { payload } else { payload.iter().map(|b| b'a' + b % 26).collect() };
    let cut = cut.min(wire.len());
    let l = match std::net::TcpListener::bind("127.0.0.1:0") {
        Ok(l) => l,
        Err(e) => return vec![Fail::new("harness-bind", e.to_string())],
    };
    let addr = l.local_addr().unwrap();
    let w2 = wire.clone();
    let writer = std::thread::spawn(move || {
        if let Ok(mut c) = std::net::TcpStream::connect(addr) {
            let _ = c.set_nodelay(true);
            let _ = c.write_all(&w2[..cut]);
            std::thread::sleep(std::time::Duration::from_millis(pause_ms));
            let _ = c.write_all(&w2[cut..]);
            // keep the connection open until the reader has finished
            let mut sink = [0u8; 64];
            use std::io::Read;
            let _ = c.set_read_timeout(Some(std::time::Duration::from_secs(10)));
            let _ = c.read(&mut sink);
        }
    });
    let (sock, _) = match l.accept() {
        Ok(x) => x,
        Err(e) => return vec![Fail::new("harness-accept", e.to_string())],
    };
    let mut stream = humphrey_ws::WebsocketStream::new(humphrey::stream::Stream::Tcp(sock));
    let t0 = std::time::Instant::now();
    let mut fails = Vec::new();
    let got = catch(|| loop {
        match stream.recv_nonblocking() {
            humphrey_ws::restion::Restion::Ok(m) => break Ok(m.bytes().to_vec()),
            humphrey_ws::restion::Restion::Err(e) => break Err(format!("{:?}", e)),
            humphrey_ws::restion::Restion::None => {
                if t0.elapsed() > std::time::Duration::from_secs(5) {
                    break Err("nothing delivered within 5 s".to_string());
                }
                std::thread::sleep(std::time::Duration::from_micros(500));
            }
        }
    });
    match got {
        Err(p) => fails.push(fail!("nonblocking-panic", "recv_nonblocking panicked: {}", p)),
        Ok(Err(e)) => fails.push(fail!(
            "nonblocking-decode-split",
            "a {}-byte masked frame ({} payload bytes) written as {} + {} bytes {} ms apart was not delivered by the polling decoder: {}",
            wire.len(), payload.len(), cut, wire.len() - cut, pause_ms, e
        )),
        Ok(Ok(b)) => {
            if b != payload {
                fails.push(fail!("nonblocking-decode-payload", "polling decoder delivered {} bytes that differ from the {} sent (frame cut at {})", b.len(), payload.len(), cut));
            }
        }
    }
    drop(stream);
    let _ = writer.join();
    fails
}

fn nonblocking(ctx: &Ctx) {
    // (payload length, cut offsets): every cut inside the header / extended length / key and a few inside the payload
    let mut cases: Vec<(usize, bool, [u8; 4], usize)> = Vec::new();
    let keys = [[1u8, 2, 3, 4], [0xff, 0, 0x80, 0x7f]];
    for (li, len) in [0usize, 1, 5, 125, 126, 300, 65536, 70000].iter().enumerate() {
        let head = 2 + if *len > 65535 { 8 } else if *len > 125 { 2 } else { 0 } + 4;
        let total = head + len;
        let mut cuts: Vec<usize> = (1..=head.min(total)).collect();
        for c in [head + 1, head + 3, head + len / 2, total.saturating_sub(1), 4097, 8193] {
            if c > head && c < total {
                cuts.push(c);
            }
        }
        cuts.sort();
        cuts.dedup();
        for (ci, c) in cuts.iter().enumerate() {
            cases.push((*len, (li + ci) % 2 == 0, keys[(li + ci) % 2], *c));
        }
    }
    let step = ctx.tier.pick(2usize, 1usize);
    let cases: Vec<_> = cases.into_iter().enumerate().filter(|(i, _)| i % step == 0).map(|(_, c)| c).collect();
    let next = std::sync::atomic::AtomicUsize::new(0);
    let found: std::sync::Mutex<Vec<(Fail, J)>> = std::sync::Mutex::new(Vec::new());
    crate::engine::shards(16, |_| loop {
        let i = next.fetch_add(1, std::sync::atomic::Ordering::SeqCst);
        if i >= cases.len() {
            break;
        }
        let (len, binary, key, cut) = cases[i];
        let head = 2 + if len > 65535 { 8 } else if len > 125 { 2 } else { 0 } + 4;
        ctx.case(hash_of(&("nb", len, binary, key, cut)), true, &[if cut < 2 { "nonblocking:cut-in-first-two-bytes" } else if cut <= head { "nonblocking:cut-in-header" } else { "nonblocking:cut-in-payload" }]);
        for f in check_nonblocking(len, binary, key, cut, 25) {
            if f.sig.starts_with("harness-") {
                ctx.inconclusive(&f.detail);
            } else {
                found.lock().unwrap().push((f, json!({"payload_len": len, "binary": binary, "key": hex(&key), "cut": cut, "pause_ms": 25})));
            }
        }
    });
    ctx.sample("nonblocking", || json!({"frames": "one masked data frame written in two pieces 25 ms apart, polled with recv_nonblocking", "cases": cases.len()}));
    for (f, c) in found.into_inner().unwrap() {
        if !ctx.tolerate(&f) {
            ctx.violation(f, "nonblocking", c);
        }
    }
}

pub fn run(ctx: &Ctx) {
    ctx.rule("frames over FIN x RSV1-3 x 6 opcodes x mask {off, any key} x payload lengths {0,1,124..128,65534..65537, random}: encode must equal the reference RFC 6455 §5.2 layout (shortest length form) and decode back (payload unmasked) under whole / byte-wise / every split (<=140 bytes) or sampled read plans; all 65 536 two-byte headers with truncated and complete remainders against the reference decoder (ReadError on truncation, InvalidOpcode on reserved opcodes); huge claimed lengths in an isolated worker; the polling decoder (recv_nonblocking over a real socket) with one masked frame written in two pieces, cut at every header offset and a few payload offsets. Non-trivial: boundary length class, masked, RSV set, or split inside header/extended length/key; distinct by wire bytes");
    ctx.assume("reference codec in common/ws.rs; Frame.payload is the payload as it appears on the wire (the encoder does not apply the mask), decode returns it unmasked");
    headers_exhaustive(ctx);
    boundary_frames(ctx);
    messages(ctx);
    huge_claims(ctx);
    nonblocking(ctx);
    let cases = ctx.tier.pick(4_000u32, 100_000u32);
    let max_len = ctx.tier.pick(70usize << 10, 1usize << 20);
    crate::engine::shards(8, |i| {
        pt::run(
            ctx,
            "frame",
            pt::Opts::new(cases / 8).salt(1000 + i as u64),
            (arb_frame(max_len), any::<u64>()),
            |(f, s)| frame_json(f, *s),
            |(f, s)| {
                let n = f.payload.len();
                let boundary = BOUNDARY_LENS.contains(&n);
                let nt = boundary || f.mask.is_some() || f.rsv.iter().any(|x| *x);
                let mut labels = vec!["random-frame"];
                if boundary {
                    labels.push("frame:boundary-length");
                }
                if f.mask.is_some() {
                    labels.push("frame:masked");
                }
                if n > 65535 {
                    labels.push("frame:64-bit-length");
                } else if n > 125 {
                    labels.push("frame:16-bit-length");
                }
                ctx.case(hash_of(f), nt, &labels);
                ctx.sample(labels.last().unwrap(), || json!({"fin": f.fin, "rsv": f.rsv, "opcode": f.opcode, "mask": f.mask.map(|k| hex(&k)), "payload_len": n}));
                check_frame(f, *s, Some(ctx))
            },
        );
    });
}

pub fn replay(_ctx: &Ctx, kind: &str, case: &J) -> Vec<Fail> {
    match kind {
        "nonblocking" => {
            let k = unhex(case["key"].as_str().unwrap_or("01020304"));
            let key = [k.first().copied().unwrap_or(1), k.get(1).copied().unwrap_or(2), k.get(2).copied().unwrap_or(3), k.get(3).copied().unwrap_or(4)];
            check_nonblocking(case["payload_len"].as_u64().unwrap_or(0) as usize, case["binary"].as_bool().unwrap_or(true), key, case["cut"].as_u64().unwrap_or(1) as usize, case["pause_ms"].as_u64().unwrap_or(25))
        }
        "frame" => {
            let (f, s) = frame_of_json(case);
            check_frame(&f, s, None)
        }
        "decode" => {
            let b = unhex(case["bytes"].as_str().unwrap_or(""));
            let plan: Plan = serde_json::from_value(case["plan"].clone()).unwrap_or(Plan::Whole);
            check_decode(&b, &plan).into_iter().collect()
        }
        "huge" => {
            let b = unhex(case["bytes"].as_str().unwrap_or(""));
            let mut w = Worker::spawn();
            let o = w.run(crate::props::targets::T_FRAME, 0, 2, &b);
            if o.status >= 2 || o.max_single > 128 * b.len() as u64 + (1 << 20) {
                vec![fail!(if o.status == ST_DIED { "huge-claim-abort" } else { "huge-claim-allocation" }, "status {} max single allocation {}: {}", o.status, o.max_single, o.msg)]
            } else {
                vec![]
            }
        }
        _ => vec![Fail::new("harness", format!("unknown replay kind {}", kind))],
    }
}
