//! C06 — static handlers never leave their directory and serve what is inside it intact.

use crate::engine::{catch, hash_of, pt, show, Ctx, Fail, Lcg};
use crate::engine::TmpDir;
use humphrey::http::address::Address;
use humphrey::http::headers::Headers;
use humphrey::http::method::Method;
use humphrey::http::{Request, Response};
use serde_json::{json, Value as J};
use std::collections::BTreeMap;
use std::path::{Path, PathBuf};
use std::sync::Arc;

/// independent copy of the extension table (lower-case extensions only)
fn mime_for(ext: &str) -> &'static str {
    match ext {
        "css" => "text/css",
        "html" | "htm" => "text/html",
        "js" | "mjs" => "text/javascript",
        "txt" => "text/plain",
        "bmp" => "image/bmp",
        "gif" => "image/gif",
        "jpeg" | "jpg" => "image/jpeg",
        "png" => "image/png",
        "webp" => "image/webp",
        "svg" => "image/svg+xml",
        "ico" => "image/vnd.microsoft.icon",
        "json" => "application/json",
        "pdf" => "application/pdf",
        "zip" => "application/zip",
        "mp4" => "video/mp4",
        "ogv" => "video/ogg",
        "webm" => "video/webm",
        "ttf" => "font/ttf",
        "otf" => "font/otf",
        "woff" => "font/woff",
        "woff2" => "font/woff2",
        _ => "application/octet-stream",
    }
}

fn pct(s: &str) -> String {
    crate::common::refs::pct_encode(s.as_bytes())
}

fn encode_path(rel: &str) -> String {
    rel.split('/').map(pct).collect::<Vec<_>>().join("/")
}

/// another spelling of the same path for the handlers that decode once: any byte may be written as %XX (either hex
/// case), including the separators and the trailing slash of a directory
fn alt_spelling(rel: &str, rng: &mut Lcg) -> String {
    let mut o = String::new();
    for b in rel.bytes() {
        let unreserved = b.is_ascii_alphanumeric() || b"-_.~".contains(&b);
        let r = rng.next();
        let raw = if b == b'/' { r % 2 == 0 } else { unreserved && r % 3 != 0 };
        if raw {
            o.push(b as char);
        } else if (r >> 8) % 2 == 0 {
            o.push_str(&format!("%{:02X}", b));
        } else {
            o.push_str(&format!("%{:02x}", b));
        }
    }
    o
}

pub fn request(uri: &str) -> Request {
    Request {
        method: Method::Get,
        uri: uri.to_string(),
        query: String::new(),
        version: "HTTP/1.1".into(),
        headers: Headers::new(),
        content: None,
        address: Address::new("127.0.0.1:1000").unwrap(),
    }
}

pub struct Tree {
    _tmp: TmpDir,
    pub root: PathBuf,
    /// relative path -> content
    pub files: BTreeMap<String, Vec<u8>>,
    pub dirs: Vec<String>,
    pub canaries: Vec<Vec<u8>>,
}

const FILE_NAMES: &[&str] = &[
    "a.txt", "noext", "multi.dot.tar.gz", "with space.html", "ünï.png", "100%.css", "UPPER.PNG", "semi;colon.json", "q?mark.js", "plus+sign.svg", "pic.jpeg", "x.woff2", "hash#tag.txt", "a:b.txt", "dots..txt", ".hidden", "weird.%2e%2e", "%2e%2e", "-dash.mp4", "tilde~.zip",
];
const DIR_NAMES: &[&str] = &["sub", "deep", "dir with space", "d.ot", "ünï", "100%", "idx", "idxm", "...", "files", "static", "s"];

pub fn build_tree(rng: &mut Lcg) -> Tree {
    let tmp = TmpDir::new("c06");
    let outer = tmp.0.join("outer");
    let root = outer.join("root");
    std::fs::create_dir_all(&root).unwrap();
    let mut canaries = Vec::new();
    for (p, tag) in [(outer.join("canary.txt"), "CANARY-NEXT-TO-ROOT"), (tmp.0.join("canary2.txt"), "CANARY-TWO-UP"), (outer.join("root-secret").join("s.txt"), "CANARY-SIBLING-PREFIX"), (outer.join("index.html"), "CANARY-INDEX-OUTSIDE")] {
        std::fs::create_dir_all(p.parent().unwrap()).unwrap();
        let content = format!("{}-{}", tag, rng.next()).into_bytes();
        std::fs::write(&p, &content).unwrap();
        canaries.push(content);
    }
    let mut files = BTreeMap::new();
    let mut dirs: Vec<String> = vec![String::new()];
    // directories: nested to depth 4
    let ndirs = 2 + (rng.next() % 6) as usize;
    for _ in 0..ndirs {
        let parent = dirs[(rng.next() % dirs.len() as u64) as usize].clone();
        if parent.matches('/').count() >= 3 {
            continue;
        }
        let name = DIR_NAMES[(rng.next() % DIR_NAMES.len() as u64) as usize];
        let rel = if parent.is_empty() { name.to_string() } else { format!("{}/{}", parent, name) };
        if dirs.contains(&rel) {
            continue;
        }
        std::fs::create_dir_all(root.join(&rel)).unwrap();
        dirs.push(rel);
    }
    // every other tree: directories named like the route prefixes the tree is mounted under (`/files*`, `/static/*`, `/s/*`),
    // nested once more, each holding a file whose name also exists one level up
    let like_routes = rng.next() % 2 == 0;
    if like_routes {
        for rel in ["files", "files/files", "static", "s"] {
            if !dirs.iter().any(|d| d == rel) {
                std::fs::create_dir_all(root.join(rel)).unwrap();
                dirs.push(rel.to_string());
            }
        }
    }
    let nfiles = 4 + (rng.next() % 14) as usize;
    for _ in 0..nfiles {
        let d = dirs[(rng.next() % dirs.len() as u64) as usize].clone();
        let name = FILE_NAMES[(rng.next() % FILE_NAMES.len() as u64) as usize];
        let rel = if d.is_empty() { name.to_string() } else { format!("{}/{}", d, name) };
        if files.contains_key(&rel) || dirs.contains(&rel) {
            continue;
        }
        let len = [0usize, 5, 100, 9000][(rng.next() % 4) as usize];
        let mut content = format!("FILE[{}]#{}|", rel, rng.next()).into_bytes();
        let extra = rng.bytes(len);
        content.extend(extra);
        std::fs::write(root.join(&rel), &content).unwrap();
        files.insert(rel, content);
    }
    // one tree in three holds zero-length files (seed C06-14: a cache that cannot hold an item exactly as large as its
    // limit panics for the empty file of a cache-less server), one in four a file exactly as large as the size limit of
    // the cache-enabled directory route (1 MiB)
    if rng.next() % 3 == 0 {
        let d = dirs[(rng.next() % dirs.len() as u64) as usize].clone();
        for rel in ["empty.txt".to_string(), if d.is_empty() { "zero".to_string() } else { format!("{}/zero.bin", d) }] {
            if !files.contains_key(&rel) && !dirs.contains(&rel) {
                std::fs::write(root.join(&rel), b"").unwrap();
                files.insert(rel, Vec::new());
            }
        }
    }
    if rng.next() % 4 == 0 && !files.contains_key("limit.bin") {
        let mut content = format!("FILE[limit.bin]#{}|", rng.next()).into_bytes();
        let extra = rng.bytes((1 << 20) - content.len());
        content.extend(extra);
        std::fs::write(root.join("limit.bin"), &content).unwrap();
        files.insert("limit.bin".to_string(), content);
    }
    // one tree in sixteen holds a file of 5 MiB + 3 bytes (seed C06-16: the tokio handlers filled a buffer of the file's
    // size with a single read, which hands out at most 2 MiB; "returned intact" has no size limit)
    if rng.next() % 16 == 0 && !files.contains_key("big.bin") {
        let mut content = format!("FILE[big.bin]#{}|", rng.next()).into_bytes();
        let extra = rng.bytes((5 << 20) + 3 - content.len());
        content.extend(extra);
        std::fs::write(root.join("big.bin"), &content).unwrap();
        files.insert("big.bin".to_string(), content);
    }
    if like_routes {
        for rel in ["a.txt", "files/a.txt", "files/files/a.txt", "static/a.txt", "s/a.txt"] {
            if !files.contains_key(rel) {
                let content = format!("FILE[{}]#{}|", rel, rng.next()).into_bytes();
                std::fs::write(root.join(rel), &content).unwrap();
                files.insert(rel.to_string(), content);
            }
        }
    }
    // index files
    for d in dirs.clone() {
        let which = rng.next() % 4;
        for (k, name) in [(1u64, "index.html"), (2, "index.htm")] {
            if which == k || which == 3 {
                let rel = if d.is_empty() { name.to_string() } else { format!("{}/{}", d, name) };
                if files.contains_key(&rel) {
                    continue;
                }
                let content = format!("INDEX[{}]#{}", rel, rng.next()).into_bytes();
                std::fs::write(root.join(&rel), &content).unwrap();
                files.insert(rel, content);
            }
        }
    }
    dirs.retain(|d| !d.is_empty());
    Tree { _tmp: tmp, root, files, dirs, canaries }
}

#[derive(Clone, Copy, Debug, PartialEq)]
pub enum Handler {
    ServeDir,
    ServeAsFilePath,
    ServerDirectory(bool), // cache on?
}

pub struct Mounted {
    pub handler: Handler,
    /// route pattern the handler is registered under
    pub route: &'static str,
    dir: &'static str,
    #[cfg(not(hvt))]
    state: Option<Arc<humphrey_server::server::server::AppState>>,
}

fn leak(s: String) -> &'static str {
    Box::leak(s.into_boxed_str())
}

impl Mounted {
    pub fn new(handler: Handler, route: &'static str, tree: &Tree, trailing_slash_dir: bool) -> Mounted {
        let mut d = tree.root.display().to_string();
        if trailing_slash_dir {
            d.push('/');
        }
        #[cfg(not(hvt))]
        let state = match handler {
            Handler::ServerDirectory(cache) => Some(Arc::new(humphrey_server::server::server::AppState::from(crate::props::c16::quiet_config(if cache { 1 << 20 } else { 0 }, 60)))),
            _ => None,
        };
        #[cfg(not(hvt))]
        return Mounted { handler, route, dir: leak(d), state };
        #[cfg(hvt)]
        return Mounted { handler, route, dir: leak(d) };
    }
    /// what a request path under this mount starts with: the route without its `*`; a route like `/files*` (wildcard
    /// without a slash before it) also matches `/files/...`, which is how the files below it are addressed
    fn prefix(&self) -> String {
        let p = self.route.strip_suffix('*').unwrap_or(self.route);
        if p.ends_with('/') { p.to_string() } else { format!("{}/", p) }
    }
    /// tokio build: the async handlers of humphrey::handlers, driven to completion on a current-thread runtime
    #[cfg(hvt)]
    pub fn call(&self, uri: &str) -> Result<Response, String> {
        use humphrey::handler_traits::{PathAwareRequestHandler, RequestHandler};
        thread_local! {
            static RT: tokio::runtime::Runtime = tokio::runtime::Builder::new_current_thread().enable_all().build().unwrap();
        }
        let req = request(uri);
        match self.handler {
            Handler::ServeDir => {
                let h = humphrey::handlers::serve_dir::<()>(self.dir);
                catch(|| RT.with(|rt| rt.block_on(h.serve(req, Arc::new(()), self.route))))
            }
            Handler::ServeAsFilePath => {
                let h = humphrey::handlers::serve_as_file_path::<()>(self.dir);
                catch(|| RT.with(|rt| rt.block_on(h.serve(req, Arc::new(())))))
            }
            Handler::ServerDirectory(_) => Err("not available in the tokio build".into()),
        }
    }
    #[cfg(not(hvt))]
    pub fn call(&self, uri: &str) -> Result<Response, String> {
        let req = request(uri);
        match self.handler {
            Handler::ServeDir => {
                let h = humphrey::handlers::serve_dir::<()>(self.dir);
                catch(|| h(req, Arc::new(()), self.route))
            }
            Handler::ServeAsFilePath => {
                let h = humphrey::handlers::serve_as_file_path::<()>(self.dir);
                catch(|| h(req, Arc::new(())))
            }
            Handler::ServerDirectory(_) => {
                let st = self.state.clone().unwrap();
                catch(|| humphrey_server::r#static::directory_handler(req, st, self.dir, self.route, 0))
            }
        }
    }
}

fn header(r: &Response, name: &str) -> Option<String> {
    r.headers.get(name).map(|s| s.to_string())
}

/// Confinement oracle for one response.
fn confinement(tree: &Tree, m: &Mounted, uri: &str, r: &Response) -> Option<Fail> {
    for c in &tree.canaries {
        if !c.is_empty() && r.body.windows(c.len()).any(|w| w == &c[..]) {
            return Some(fail!(
                format!("escape:{:?}", m.handler).replace("(true)", "").replace("(false)", ""),
                "{:?} mounted at {} served a file outside its directory for request path {:?}: {}",
                m.handler,
                m.route,
                uri,
                show(&r.body[..r.body.len().min(80)])
            ));
        }
    }
    if u16::from(r.status_code) == 200 {
        if !tree.files.values().any(|c| *c == r.body) {
            return Some(fail!(
                "unknown-200-body",
                "{:?} at {} answered 200 for {:?} with {} bytes that are not the content of any file inside the directory: {}",
                m.handler,
                m.route,
                uri,
                r.body.len(),
                show(&r.body[..r.body.len().min(80)])
            ));
        }
    }
    None
}

fn hostile_segments(tree: &Tree) -> Vec<String> {
    let mut v: Vec<String> = [
        ".", "..", "...", "", "%2e%2e", "%2E.", ".%2e", "%2e", "%2f", "%5c", "%00", "%252e%252e", "%c0%ae%c0%ae", "..%2f", "%2e%2e%2f", "..%5c", "canary.txt", "canary2.txt", "root-secret", "s.txt", "root", "outer", "index.html",
        "C:", "\\", "..\\", "....//", "%2e%2e%2fcanary.txt", "..%2fcanary.txt", "%2e%2e/canary.txt", "etc", "passwd", "~",
    ]
    .iter()
    .map(|s| s.to_string())
    .collect();
    for f in tree.files.keys().take(6) {
        for seg in f.split('/') {
            v.push(seg.to_string());
            v.push(pct(seg));
        }
    }
    for d in &tree.dirs {
        for seg in d.split('/') {
            v.push(seg.to_string());
        }
    }
    v
}

fn hostile_path(segs: &[String], rng: &mut Lcg) -> String {
    let n = 1 + (rng.next() % 5) as usize;
    let mut parts = Vec::new();
    for _ in 0..n {
        parts.push(segs[(rng.next() % segs.len() as u64) as usize].clone());
    }
    let mut p = parts.join(if rng.next() % 7 == 0 { "//" } else { "/" });
    match rng.next() % 8 {
        0 => p.push('/'),
        1 => p = format!("/{}", p), // leading extra slash: absolute component
        2 => p = pct(&p),           // whole path percent-encoded, slashes included
        _ => {}
    }
    p
}

pub fn check_tree(ctx: &Ctx, seed: u64, paths_per_mount: usize) -> Vec<(Fail, J)> {
    let mut rng = Lcg(seed);
    let tree = build_tree(&mut rng);
    let mut out: Vec<(Fail, J)> = Vec::new();
    #[allow(unused_mut)]
    let mut mounts = vec![Mounted::new(Handler::ServeDir, "/*", &tree, false), Mounted::new(Handler::ServeDir, "/s/*", &tree, true), Mounted::new(Handler::ServeAsFilePath, "/*", &tree, rng.next() % 2 == 0)];
    // the server crate's directory routes exist in the threaded build only
    #[cfg(not(hvt))]
    mounts.extend([Mounted::new(Handler::ServerDirectory(false), "/*", &tree, false), Mounted::new(Handler::ServerDirectory(true), "/static/*", &tree, true), Mounted::new(Handler::ServerDirectory(false), "/s/*", &tree, false), Mounted::new(Handler::ServerDirectory(false), "/files*", &tree, false)]);
    let segs = hostile_segments(&tree);
    let mut push = |f: Fail, m: &Mounted, uri: &str, out: &mut Vec<(Fail, J)>| {
        if !out.iter().any(|(x, _)| x.sig == f.sig) {
            out.push((f, json!({"tree_seed": seed.to_string(), "handler": format!("{:?}", m.handler), "route": m.route, "uri": uri})));
        }
    };
    for m in &mounts {
        let hname = format!("{:?}", m.handler);
        // ---- completeness: every file by its path
        for (rel, content) in &tree.files {
            if rel.contains("..") || rel.contains(':') {
                ctx.exclude("file whose path contains `..` or `:` (exempt from the completeness direction)", 1);
                continue;
            }
            let uri = match m.handler {
                Handler::ServeAsFilePath => format!("/{}", rel),
                _ => format!("{}{}", m.prefix(), encode_path(rel)),
            };
            let nested = rel.contains('/');
            let encoded = uri.contains('%') && !matches!(m.handler, Handler::ServeAsFilePath);
            ctx.case(hash_of(&(seed, &hname, m.route, &uri)), nested || encoded, &[&format!("{}:file", hname), if nested { "nested-file" } else { "top-level-file" }]);
            ctx.sample(&format!("{}:file", hname), || json!({"handler": hname, "route": m.route, "uri": uri, "expect": "200 + exact bytes + Content-Type"}));
            match m.call(&uri) {
                Err(p) => push(fail!("handler-panic", "{} panicked for {:?}: {}", hname, uri, p), m, &uri, &mut out),
                Ok(r) => {
                    if let Some(f) = confinement(&tree, m, &uri, &r) {
                        push(f, m, &uri, &mut out);
                    }
                    let status = u16::from(r.status_code);
                    if status != 200 || &r.body != content {
                        push(
                            fail!(
                                format!("file-not-served:{}", hname.replace("(true)", "").replace("(false)", "")),
                                "{} at {} answered {} ({} bytes) for {:?}, which names the existing file {:?} ({} bytes)",
                                hname, m.route, status, r.body.len(), uri, rel, content.len()
                            ),
                            m,
                            &uri,
                            &mut out,
                        );
                        continue;
                    }
                    let fname = rel.rsplit('/').next().unwrap();
                    let ext = Path::new(fname).extension().and_then(|e| e.to_str());
                    let ct = header(&r, "Content-Type");
                    let ok = match (ext, m.handler) {
                        (None, Handler::ServeDir) | (None, Handler::ServeAsFilePath) => ct.is_none(),
                        (None, Handler::ServerDirectory(_)) => ct.as_deref() == Some("application/octet-stream"),
                        (Some(e), _) => {
                            let want = mime_for(e);
                            let lower = mime_for(&e.to_ascii_lowercase());
                            ct.as_deref() == Some(want) || (e != e.to_ascii_lowercase() && ct.as_deref() == Some(lower))
                        }
                    };
                    if !ok {
                        push(fail!("content-type", "{} served {:?} with Content-Type {:?} (extension {:?})", hname, rel, ct, ext), m, &uri, &mut out);
                    }
                    // the same file under another percent-spelling of its path (decoded once): same answer
                    if !matches!(m.handler, Handler::ServeAsFilePath) {
                        let alt = format!("{}{}", m.prefix(), alt_spelling(rel, &mut rng));
                        if alt != uri {
                            ctx.case(hash_of(&(seed, &hname, m.route, &alt)), true, &[&format!("{}:file-alt-spelling", hname)]);
                            ctx.sample(&format!("{}:file-alt-spelling", hname), || json!({"handler": hname, "route": m.route, "uri": alt, "same_as": uri}));
                            match m.call(&alt) {
                                Err(p) => push(fail!("handler-panic", "{} panicked for {:?}: {}", hname, alt, p), m, &alt, &mut out),
                                Ok(r2) => {
                                    if u16::from(r2.status_code) != 200 || &r2.body != content || header(&r2, "Content-Type") != ct {
                                        push(
                                            fail!(
                                                format!("file-not-served-alt-spelling:{}", hname.replace("(true)", "").replace("(false)", "")),
                                                "{} at {} answered {} ({} bytes, Content-Type {:?}) for {:?}, which decodes once to the path of the existing file {:?} ({} bytes, served with {:?} as {:?})",
                                                hname, m.route, u16::from(r2.status_code), r2.body.len(), header(&r2, "Content-Type"), alt, rel, content.len(), ct, uri
                                            ),
                                            m,
                                            &alt,
                                            &mut out,
                                        );
                                    }
                                }
                            }
                        }
                    }
                }
            }
        }
        // ---- directories (serve_dir and directory routes)
        if !matches!(m.handler, Handler::ServeAsFilePath) {
            let mut all_dirs = tree.dirs.clone();
            all_dirs.push(String::new());
            for d in &all_dirs {
                if d.contains("..") || d.contains(':') {
                    continue;
                }
                let base = format!("{}{}", m.prefix(), encode_path(d));
                let idx = ["index.html", "index.htm"].iter().find_map(|n| {
                    let rel = if d.is_empty() { n.to_string() } else { format!("{}/{}", d, n) };
                    tree.files.get(&rel)
                });
                // without trailing slash -> 301 to the slash form (the root itself is addressed as the prefix, which already ends in '/')
                if !d.is_empty() {
                    ctx.case(hash_of(&(seed, &hname, m.route, &base, "301")), true, &[&format!("{}:dir-redirect", hname)]);
                    match m.call(&base) {
                        Err(p) => push(fail!("handler-panic", "{} panicked for {:?}: {}", hname, base, p), m, &base, &mut out),
                        Ok(r) => {
                            let loc = header(&r, "Location");
                            if u16::from(r.status_code) != 301 || loc.as_deref() != Some(&format!("{}/", base)) {
                                push(fail!("dir-redirect", "{} at {} answered {} Location {:?} for directory path {:?} (want 301 to {:?})", hname, m.route, u16::from(r.status_code), loc, base, format!("{}/", base)), m, &base, &mut out);
                            }
                        }
                    }
                }
                let with_slash = if d.is_empty() { base.clone() } else { format!("{}/", base) };
                ctx.case(hash_of(&(seed, &hname, m.route, &with_slash, "idx")), true, &[&format!("{}:dir-index", hname), if idx.is_some() { "dir-with-index" } else { "dir-without-index" }]);
                match m.call(&with_slash) {
                    Err(p) => push(fail!("handler-panic", "{} panicked for {:?}: {}", hname, with_slash, p), m, &with_slash, &mut out),
                    Ok(r) => {
                        if let Some(f) = confinement(&tree, m, &with_slash, &r) {
                            push(f, m, &with_slash, &mut out);
                        }
                        let status = u16::from(r.status_code);
                        match idx {
                            Some(c) => {
                                if status != 200 || &r.body != c {
                                    push(fail!("dir-index", "{} at {} answered {} for {:?}; the directory has an index file ({} bytes, index.html preferred over index.htm)", hname, m.route, status, with_slash, c.len()), m, &with_slash, &mut out);
                                }
                            }
                            None => {
                                if status != 404 {
                                    push(fail!("dir-no-index", "{} at {} answered {} for {:?}; the directory has no index file (want 404)", hname, m.route, status, with_slash), m, &with_slash, &mut out);
                                }
                            }
                        }
                    }
                }
                // the slash form under other spellings (any byte, the final slash included, written as %XX): same answer
                if !d.is_empty() {
                    for k in 0..2 {
                        let alt = if k == 0 { format!("{}{}", base, if rng.next() % 2 == 0 { "%2F" } else { "%2f" }) } else { format!("{}{}", m.prefix(), alt_spelling(&format!("{}/", d), &mut rng)) };
                        if alt == with_slash {
                            continue;
                        }
                        ctx.case(hash_of(&(seed, &hname, m.route, &alt, "idx-alt")), true, &[&format!("{}:dir-index-alt-spelling", hname)]);
                        ctx.sample(&format!("{}:dir-index-alt-spelling", hname), || json!({"handler": hname, "route": m.route, "uri": alt, "same_as": with_slash}));
                        match m.call(&alt) {
                            Err(p) => push(fail!("handler-panic", "{} panicked for {:?}: {}", hname, alt, p), m, &alt, &mut out),
                            Ok(r) => {
                                if let Some(f) = confinement(&tree, m, &alt, &r) {
                                    push(f, m, &alt, &mut out);
                                }
                                let status = u16::from(r.status_code);
                                let ok = match idx {
                                    Some(c) => status == 200 && &r.body == c,
                                    None => status == 404,
                                };
                                if !ok {
                                    push(fail!("dir-index-alt-spelling", "{} at {} answered {} ({} bytes) for {:?}, which decodes once to the directory path {:?} (want {})", hname, m.route, status, r.body.len(), alt, format!("{}/", d), if idx.is_some() { "200 with the index file" } else { "404: no index file" }), m, &alt, &mut out);
                                }
                            }
                        }
                    }
                }
                // and once more without the slash, now that the slash form has been served (and possibly cached): still a
                // redirect, and a file path with a slash appended is still not a file
                if !d.is_empty() {
                    ctx.case(hash_of(&(seed, &hname, m.route, &base, "301-again")), true, &[&format!("{}:dir-redirect-after-index", hname)]);
                    if let Ok(r) = m.call(&base) {
                        let loc = header(&r, "Location");
                        if u16::from(r.status_code) != 301 || loc.as_deref() != Some(&format!("{}/", base)) {
                            push(fail!("dir-redirect-after-index", "{} at {} answered {} Location {:?} for directory path {:?} after {:?} had been served (want 301 to {:?})", hname, m.route, u16::from(r.status_code), loc, base, with_slash, format!("{}/", base)), m, &base, &mut out);
                        }
                    }
                }
            }
        }
        // ---- hostile paths
        for _ in 0..paths_per_mount {
            let p = hostile_path(&segs, &mut rng);
            let uri = format!("{}{}", m.prefix(), p);
            let dotty = p.contains("..") || p.contains('%') || p.contains("//");
            ctx.case(hash_of(&(seed, &hname, m.route, &uri)), dotty, &[&format!("{}:hostile", hname)]);
            if dotty {
                ctx.sample(&format!("{}:hostile", hname), || json!({"handler": hname, "route": m.route, "uri": uri}));
            }
            match m.call(&uri) {
                Err(pn) => push(fail!("handler-panic", "{} panicked for {:?}: {}", hname, uri, pn), m, &uri, &mut out),
                Ok(r) => {
                    if let Some(f) = confinement(&tree, m, &uri, &r) {
                        push(f, m, &uri, &mut out);
                    }
                }
            }
        }
    }
    out
}

/// targeted traversal attempts: every canary x every number of `..` x spellings
fn targeted(ctx: &Ctx, seed: u64) -> Vec<(Fail, J)> {
    let mut rng = Lcg(seed);
    let tree = build_tree(&mut rng);
    let mut out = Vec::new();
    let ups = ["..", "%2e%2e", "%2E%2E", ".%2e", "%2e.", "%252e%252e", "..%00", "%c0%ae%c0%ae", "...", "..;"];
    let seps = ["/", "%2f", "%2F", "\\", "%5c", "//"];
    let targets = ["canary.txt", "root-secret/s.txt", "../canary2.txt", "index.html", "root/../canary.txt"];
    let starts = ["", "sub/", "a.txt/", "./", "%2e/", "idx/../"];
    #[allow(unused_mut)]
    let mut tmounts = vec![Mounted::new(Handler::ServeDir, "/*", &tree, false), Mounted::new(Handler::ServeDir, "/s/*", &tree, false), Mounted::new(Handler::ServeAsFilePath, "/*", &tree, false), Mounted::new(Handler::ServeAsFilePath, "/*", &tree, true)];
    #[cfg(not(hvt))]
    tmounts.extend([Mounted::new(Handler::ServerDirectory(false), "/*", &tree, false), Mounted::new(Handler::ServerDirectory(true), "/static/*", &tree, false)]);
    // absolute-path attacks: the canary's real location behind repeated, encoded or dotted leading separators (a
    // handler that joins the request path onto its directory must not let an absolute component replace the base)
    let outer = tree.root.parent().map(|p| p.to_path_buf()).unwrap_or_default();
    let abs: Vec<String> = vec![outer.join("canary.txt").display().to_string(), outer.join("root-secret").join("s.txt").display().to_string(), "/etc/passwd".to_string()];
    let leads = ["/", "//", "///", "%2f", "%2F/", "./", "/./", "sub/..//", "%2e/"];
    for m in tmounts.iter() {
        let hname = format!("{:?}", m.handler);
        for a in &abs {
            let tail = a.trim_start_matches('/');
            for lead in leads {
                for enc in [false, true] {
                    let t = if enc { tail.replace('/', "%2f") } else { tail.to_string() };
                    let uri = format!("{}{}{}", m.prefix(), lead, t);
                    ctx.case(hash_of(&(&hname, m.route, &uri)), true, &["targeted-absolute-path"]);
                    match m.call(&uri) {
                        Err(pn) => out.push((fail!("handler-panic", "{} panicked for {:?}: {}", hname, uri, pn), json!({"tree_seed": seed.to_string(), "uri": uri}))),
                        Ok(r) => {
                            let f = if a == "/etc/passwd" && u16::from(r.status_code) == 200 && r.body.starts_with(b"root:") {
                                Some(fail!(format!("escape:{:?}", m.handler).replace("(true)", "").replace("(false)", ""), "{:?} mounted at {} served /etc/passwd for request path {:?}", m.handler, m.route, uri))
                            } else {
                                confinement(&tree, m, &uri, &r)
                            };
                            if let Some(f) = f {
                                if !out.iter().any(|(x, _): &(Fail, J)| x.sig == f.sig) {
                                    out.push((f, json!({"tree_seed": seed.to_string(), "handler": hname, "route": m.route, "uri": uri})));
                                }
                            }
                        }
                    }
                }
            }
        }
    }
    ctx.sample("targeted-absolute-path", || json!({"uri": format!("//{}", abs[0].trim_start_matches('/')), "expect": "no canary bytes"}));
    for m in tmounts {
        let hname = format!("{:?}", m.handler);
        for up in ups {
            for sep in seps {
                for n in 1..=3 {
                    for t in targets {
                        for st in starts {
                            let mut p = st.to_string();
                            for _ in 0..n {
                                p.push_str(up);
                                p.push_str(sep);
                            }
                            p.push_str(t);
                            let uri = format!("{}{}", m.prefix(), p);
                            ctx.case(hash_of(&(&hname, m.route, &uri)), true, &["targeted-traversal"]);
                            match m.call(&uri) {
                                Err(pn) => out.push((fail!("handler-panic", "{} panicked for {:?}: {}", hname, uri, pn), json!({"tree_seed": seed.to_string(), "uri": uri}))),
                                Ok(r) => {
                                    if let Some(f) = confinement(&tree, &m, &uri, &r) {
                                        if !out.iter().any(|(x, _): &(Fail, J)| x.sig == f.sig) {
                                            out.push((f, json!({"tree_seed": seed.to_string(), "handler": hname, "route": m.route, "uri": uri})));
                                        }
                                    }
                                }
                            }
                        }
                    }
                }
            }
        }
    }
    ctx.sample("targeted-traversal", || json!({"uri": "/s/%2e%2e%2fcanary.txt", "expect": "no canary bytes"}));
    out
}

/// Two directory routes of one host sharing one cache-enabled AppState, whose directories contain the same relative
/// paths with different contents: each route must keep serving its own directory's files, in any request order.
#[cfg(not(hvt))]
fn shared_cache(ctx: &Ctx, seed: u64) -> Vec<(Fail, J)> {
    let mut rng = Lcg(seed);
    let tree = build_tree(&mut rng);
    let root2 = tree.root.parent().unwrap().join("second");
    let mut files2: BTreeMap<String, Vec<u8>> = BTreeMap::new();
    for (rel, _) in tree.files.iter() {
        // every other file also exists in the second directory, with other bytes (and sometimes another length)
        if rng.next() % 3 != 0 {
            let p = root2.join(rel);
            std::fs::create_dir_all(p.parent().unwrap()).unwrap();
            let content = format!("SECOND[{}]#{}", rel, rng.next() % 1000).into_bytes();
            std::fs::write(&p, &content).unwrap();
            files2.insert(rel.clone(), content);
        }
    }
    std::fs::create_dir_all(&root2).unwrap();
    let state = Arc::new(humphrey_server::server::server::AppState::from(crate::props::c16::quiet_config(1 << 20, 60)));
    let dir_a = leak(tree.root.display().to_string());
    let dir_b = leak(root2.display().to_string());
    let routes: [(&'static str, &'static str, &BTreeMap<String, Vec<u8>>); 2] = [("/pub/*", dir_a, &tree.files), ("/adm/*", dir_b, &files2)];
    let mut out = Vec::new();
    for (rel, _) in tree.files.iter() {
        if rel.contains("..") || rel.contains(':') {
            continue;
        }
        let order: Vec<usize> = match rng.next() % 3 {
            0 => vec![0, 1, 0, 1],
            1 => vec![1, 0, 1, 0],
            _ => vec![0, 0, 1, 1],
        };
        for k in order {
            let (route, dir, files) = routes[k];
            let uri = format!("{}{}", route.trim_end_matches('*'), encode_path(rel));
            ctx.case(hash_of(&(seed, route, &uri, "shared-cache")), true, &["two-directory-routes-one-cache"]);
            let st = state.clone();
            match catch(|| humphrey_server::r#static::directory_handler(request(&uri), st, dir, route, 0)) {
                Err(p) => out.push((fail!("handler-panic", "directory handler panicked for {:?}: {}", uri, p), json!({"tree_seed": seed.to_string(), "uri": uri}))),
                Ok(r) => {
                    let status = u16::from(r.status_code);
                    let f = match files.get(rel) {
                        Some(c) => {
                            if status != 200 || &r.body != c {
                                let other = routes[1 - k].2.get(rel).map_or(false, |o| *o == r.body);
                                Some(fail!(
                                    if other { "other-routes-file-served" } else { "file-not-served:ServerDirectory" },
                                    "two directory routes share one cache: {} answered {} with {} bytes for {:?}; its own directory holds {} bytes there{}",
                                    route, status, r.body.len(), uri, c.len(), if other { " — the body is the other route's file" } else { "" }
                                ))
                            } else {
                                None
                            }
                        }
                        None => {
                            if status == 200 {
                                Some(fail!("other-routes-file-served", "{} answered 200 ({} bytes) for {:?}, which does not exist in its directory (it exists under the other route)", route, r.body.len(), uri))
                            } else {
                                None
                            }
                        }
                    };
                    if let Some(f) = f {
                        if !out.iter().any(|(x, _): &(Fail, J)| x.sig == f.sig) {
                            out.push((f, json!({"tree_seed": seed.to_string(), "route": route, "uri": uri})));
                        }
                    }
                }
            }
        }
    }
    ctx.sample("two-directory-routes-one-cache", || json!({"routes": ["/pub/* -> root", "/adm/* -> second"], "sequence": "same relative path requested through both routes in turn, cache on"}));
    out
}

pub fn run(ctx: &Ctx) {
    #[cfg(hvt)]
    ctx.rule("tokio build: the async serve_dir / serve_as_file_path handlers on the same generated trees and request paths as the threaded check (the server crate's directory routes exist only there)");
    #[cfg(not(hvt))]
    ctx.rule("generated directory trees (nested to depth 4, index.html/index.htm/neither, extension-less / multi-dot / spaced / Unicode / %-containing names, canary files next to the root, two levels up, in a sibling with the root's name as prefix, and an index.html outside) x handlers {serve_dir at /* and /s/*, serve_as_file_path, server directory routes with cache on/off} x request paths: every file by its (encoded) path, every directory with and without slash, random compositions of up to 5 hostile segments (dot-segments, encoded dots and separators, NUL, double-encoding, overlong UTF-8, absolute components, repeated slashes), a targeted grid of traversal spellings, and the canaries' absolute paths behind repeated / encoded / dotted leading separators. Non-trivial = path with a dot-segment, an encoded character or a nested file/directory; distinct by (tree, handler, route, uri)");
    ctx.assume("handlers are called in-process with (route, uri) pairs the router would dispatch (uri = route prefix + path); symlinks and case-insensitive file systems are outside the quantifier");
    let trees = ctx.tier.pick(400u64, 8000u64);
    let paths = ctx.tier.pick(300usize, 400usize);
    let found: std::sync::Mutex<Vec<(Fail, J)>> = std::sync::Mutex::new(Vec::new());
    let next = std::sync::atomic::AtomicU64::new(0);
    crate::engine::shards(16, |_| loop {
        let i = next.fetch_add(1, std::sync::atomic::Ordering::SeqCst);
        if i >= trees {
            break;
        }
        let r = check_tree(ctx, pt::mix(ctx.seed, 600 + i), paths);
        if !r.is_empty() {
            found.lock().unwrap().extend(r);
        }
    });
    let t = targeted(ctx, pt::mix(ctx.seed, 699));
    found.lock().unwrap().extend(t);
    #[cfg(not(hvt))]
    for k in 0..ctx.tier.pick(20u64, 400u64) {
        let t = shared_cache(ctx, pt::mix(ctx.seed, 650 + k));
        found.lock().unwrap().extend(t);
    }
    let mut seen = std::collections::BTreeSet::new();
    for (f, c) in found.into_inner().unwrap() {
        if seen.insert(f.sig.clone()) && !ctx.tolerate(&f) {
            ctx.violation(f, "path", c);
        }
    }
}

pub fn replay(ctx: &Ctx, _kind: &str, case: &J) -> Vec<Fail> {
    // rebuild the tree from its seed and re-run all checks for it; report failures with the saved signature's handler
    let seed: u64 = case["tree_seed"].as_str().and_then(|s| s.parse().ok()).unwrap_or(0);
    let mut v: Vec<Fail> = check_tree(ctx, seed, 300).into_iter().map(|(f, _)| f).collect();
    v.extend(targeted(ctx, seed).into_iter().map(|(f, _)| f));
    v
}
