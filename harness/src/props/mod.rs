//! One module per property. Each exposes `run(&Ctx)` and `replay(&Ctx, kind, case) -> Vec<Fail>`.

use crate::engine::{Ctx, Fail};
use serde_json::Value as J;

pub mod targets;
pub mod c01;
pub mod c02;
pub mod c03;
pub mod c04;
pub mod c05;
pub mod c06;
pub mod c07;
pub mod c08;
pub mod c08_sched;
pub mod fuzzers;
pub mod c09;
pub mod c10;
pub mod c11;
pub mod c12;
pub mod c13;
pub mod c14;
pub mod c15;
pub mod c16;
pub mod c17;
pub mod c18;
pub mod c19;
pub mod c20;

pub fn level_of(id: &str) -> &'static str {
    match id {
        "C09" => "fault_enumeration",
        _ => "exploration",
    }
}

/// Properties whose thorough tier starts more applications (thread pools) than one process has threads for.
pub const CHUNKED_THOROUGH: [&str; 6] = ["C01", "C04", "C11", "C12", "C17", "C20"];

pub fn run(ctx: &Ctx) -> bool {
    if ctx.chunk.is_none() && ctx.tier == crate::engine::Tier::Thorough && CHUNKED_THOROUGH.contains(&ctx.id.as_str()) {
        crate::engine::run_chunked(ctx, 16);
        return true;
    }
    match ctx.id.as_str() {
        "C01" => c01::run(ctx),
        "C02" => c02::run(ctx),
        "C03" => c03::run(ctx),
        "C04" => c04::run(ctx),
        "C05" => c05::run(ctx),
        "C06" => c06::run(ctx),
        "C07" => c07::run(ctx),
        "C08" => c08::run(ctx),
        "C09" => c09::run(ctx),
        "C10" => c10::run(ctx),
        "C11" => c11::run(ctx),
        "C12" => c12::run(ctx),
        "C13" => c13::run(ctx),
        "C14" => c14::run(ctx),
        "C15" => c15::run(ctx),
        "C16" => c16::run(ctx),
        "C17" => c17::run(ctx),
        "C18" => c18::run(ctx),
        "C19" => c19::run(ctx),
        "C20" => c20::run(ctx),
        _ => return false,
    }
    true
}

pub fn replay(ctx: &Ctx, id: &str, kind: &str, case: &J) -> Vec<Fail> {
    match id {
        "C01" => c01::replay(ctx, kind, case),
        "C02" => c02::replay(ctx, kind, case),
        "C03" => c03::replay(ctx, kind, case),
        "C04" => c04::replay(ctx, kind, case),
        "C05" => c05::replay(ctx, kind, case),
        "C06" => c06::replay(ctx, kind, case),
        "C07" => c07::replay(ctx, kind, case),
        "C08" => c08::replay(ctx, kind, case),
        "C09" => c09::replay(ctx, kind, case),
        "C10" => c10::replay(ctx, kind, case),
        "C11" => c11::replay(ctx, kind, case),
        "C12" => c12::replay(ctx, kind, case),
        "C13" => c13::replay(ctx, kind, case),
        "C14" => c14::replay(ctx, kind, case),
        "C15" => c15::replay(ctx, kind, case),
        "C16" => c16::replay(ctx, kind, case),
        "C17" => c17::replay(ctx, kind, case),
        "C18" => c18::replay(ctx, kind, case),
        "C19" => c19::replay(ctx, kind, case),
        "C20" => c20::replay(ctx, kind, case),
        _ => vec![Fail::new("harness", format!("no replay for property {}", id))],
    }
}

/// Re-run every saved replay of this property (committed under /verif/corpus/replays/<ID>/) first.
pub fn run_saved_replays(ctx: &Ctx) {
    let dir = format!("{}/corpus/replays/{}", crate::engine::VERIF_DIR, ctx.id);
    let mut files: Vec<_> = match std::fs::read_dir(&dir) {
        Ok(rd) => rd.filter_map(|e| e.ok()).map(|e| e.path()).collect(),
        Err(_) => return,
    };
    files.sort();
    let mut n = 0u64;
    for f in files {
        if f.extension().and_then(|e| e.to_str()) != Some("json") {
            continue;
        }
        let text = match std::fs::read_to_string(&f) {
            Ok(t) => t,
            Err(_) => continue,
        };
        let v: J = match serde_json::from_str(&text) {
            Ok(v) => v,
            Err(_) => continue,
        };
        let kind = v["kind"].as_str().unwrap_or("");
        let fails = replay(ctx, &ctx.id, kind, &v["case"]);
        n += 1;
        if let Some(fl) = ctx.triage(fails) {
            ctx.violation(fl, kind, v["case"].clone());
        }
    }
    if n > 0 {
        ctx.label("saved-replays-rerun", n);
    }
}

pub fn worker_main(args: &[String]) -> i32 {
    match args.first().map(|s| s.as_str()) {
        Some("parsers") => crate::engine::worker::worker_loop(targets::parser_target),
        Some("c08sched") => c08_sched::worker_main(&args[1..]),
        Some("chunk") => {
            // hv worker chunk <ID> <tier> <k> <n>
            let id = args.get(1).cloned().unwrap_or_default();
            let tier = if args.get(2).map(|s| s.as_str()) == Some("thorough") { crate::engine::Tier::Thorough } else { crate::engine::Tier::Quick };
            let k: usize = args.get(3).and_then(|s| s.parse().ok()).unwrap_or(0);
            let n: usize = args.get(4).and_then(|s| s.parse().ok()).unwrap_or(1);
            let seed: u64 = std::env::var("VERIF_SEED").ok().and_then(|s| s.trim().parse::<u64>().ok()).unwrap_or(20260928);
            crate::engine::quiet_panics();
            let mut ctx = Ctx::new(&id, tier, seed, level_of(&id));
            ctx.chunk = Some((k, n));
            ctx.evidence_path = Some(format!("/verif/target/chunk-{}-{}.json", id, k));
            ctx.replay_tag = "chunk-";
            run(&ctx);
            ctx.finish()
        }
        Some("c20fd") => c20::fd_worker(&args[1..]),
        _ => 2,
    }
}
