//! C08 — thread pool: tasks run exactly once, panics are isolated, shutdown terminates.
//! Stress mode: generated scenarios (workers, tasks with panic flags, lifecycle script) on the real OS
//! scheduler with generated delays; history invariants over start/finish records.
//! Schedule mode (with the `humphrey_verif` scheduling shim): see `sched` below.

use crate::engine::{hash_of, pt, Ctx, Fail};
use humphrey::thread::pool::ThreadPool;
use proptest::prelude::*;
use serde::{Deserialize, Serialize};
use serde_json::{json, Value as J};
use std::sync::atomic::{AtomicUsize, Ordering};
use std::sync::{Arc, Condvar, Mutex};
use std::time::{Duration, Instant};

#[derive(Clone, Debug, Serialize, Deserialize, PartialEq)]
pub struct TaskSpec {
    pub panics: bool,
    /// busy time in units of 50 us
    pub work: u8,
}

#[derive(Clone, Debug, Serialize, Deserialize, PartialEq)]
pub enum End {
    StopThenDrop,
    DropOnly,
}

#[derive(Clone, Debug, Serialize, Deserialize)]
pub struct Scenario {
    pub workers: usize,
    pub tasks: Vec<TaskSpec>,
    /// run the witness batch (N tasks that wait for each other) after the tasks
    pub witness: bool,
    /// submit a second round of tasks after the witness (a restarted worker panicking again)
    pub second_round: Vec<TaskSpec>,
    pub end: End,
    /// delay between submissions, 20 us units
    pub submit_gap: u8,
    /// stop/drop the pool right after submitting, while tasks are still queued (they must all still run)
    #[serde(default)]
    pub end_early: bool,
}

#[derive(Default)]
struct Hist {
    starts: Mutex<Vec<(usize, String)>>,
    finishes: Mutex<Vec<usize>>,
    running: AtomicUsize,
    max_running: AtomicUsize,
    exited_threads: AtomicUsize,
    seen_threads: Mutex<std::collections::HashSet<std::thread::ThreadId>>,
}

struct ExitGuard(Arc<Hist>);
impl Drop for ExitGuard {
    fn drop(&mut self) {
        self.0.exited_threads.fetch_add(1, Ordering::SeqCst);
    }
}

thread_local! {
    static GUARD: std::cell::RefCell<Option<ExitGuard>> = std::cell::RefCell::new(None);
}

fn note_thread(h: &Arc<Hist>) {
    let id = std::thread::current().id();
    let mut g = h.seen_threads.lock().unwrap();
    if g.insert(id) {
        let h2 = h.clone();
        GUARD.with(|c| *c.borrow_mut() = Some(ExitGuard(h2)));
    }
}

fn make_task(id: usize, spec: TaskSpec, h: Arc<Hist>) -> impl FnOnce() + Send + 'static {
    move || {
        note_thread(&h);
        let name = std::thread::current().name().unwrap_or("?").to_string();
        h.starts.lock().unwrap().push((id, name));
        let r = h.running.fetch_add(1, Ordering::SeqCst) + 1;
        h.max_running.fetch_max(r, Ordering::SeqCst);
        let t = Instant::now();
        while t.elapsed() < Duration::from_micros(spec.work as u64 * 50) {
            std::hint::spin_loop();
        }
        h.running.fetch_sub(1, Ordering::SeqCst);
        if spec.panics {
            std::panic::panic_any(crate::props::c08::TaskPanic);
        }
        h.finishes.lock().unwrap().push(id);
    }
}

pub struct TaskPanic;

fn wait_until(max: Duration, f: impl Fn() -> bool) -> bool {
    let t = Instant::now();
    while t.elapsed() < max {
        if f() {
            return true;
        }
        std::thread::sleep(Duration::from_micros(200));
    }
    f()
}

pub fn run_stress(s: &Scenario) -> Vec<Fail> {
    let h = Arc::new(Hist::default());
    let mut fails = Vec::new();
    let n = s.workers.max(1);
    let mut pool = ThreadPool::new(n);
    pool.start();
    struct Sub {
        next_id: usize,
        expected_finish: Vec<usize>,
        submitted: Vec<usize>,
    }
    let mut sub = Sub { next_id: 0, expected_finish: Vec::new(), submitted: Vec::new() };
    fn submit(sub: &mut Sub, pool: &ThreadPool, spec: &TaskSpec, gap: u8, h: &Arc<Hist>) {
        let id = sub.next_id;
        sub.next_id += 1;
        pool.execute(make_task(id, spec.clone(), h.clone()));
        if !spec.panics {
            sub.expected_finish.push(id);
        }
        sub.submitted.push(id);
        if gap > 0 {
            std::thread::sleep(Duration::from_micros(gap as u64 * 20));
        }
    }
    for t in &s.tasks {
        submit(&mut sub, &pool, t, s.submit_gap, &h);
    }
    if s.end_early {
        // stop/drop while tasks are still queued: "lets already-queued tasks finish", panics included
        let end = s.end.clone();
        let (tx, rx) = std::sync::mpsc::channel();
        std::thread::spawn(move || {
            let r = crate::engine::catch(move || {
                let mut pool = pool;
                if end == End::StopThenDrop {
                    pool.stop();
                }
                drop(pool);
            });
            let _ = tx.send(r);
        });
        let ended = rx.recv_timeout(Duration::from_secs(10));
        if let Ok(Err(p)) = &ended {
            fails.push(fail!("caller-panicked", "stopping/dropping a {}-thread pool with {} queued tasks panicked in the caller: {}", n, s.tasks.len(), p));
            return fails;
        }
        if ended.is_err() {
            fails.push(fail!("early-drop-hangs", "stopping/dropping a {}-thread pool with {} queued tasks did not return within 10 s", n, s.tasks.len()));
            return fails;
        }
        let ok = wait_until(Duration::from_secs(10), || h.starts.lock().unwrap().len() >= sub.submitted.len() && h.finishes.lock().unwrap().len() >= sub.expected_finish.len());
        if !ok {
            fails.push(fail!(
                "queued-tasks-lost-at-shutdown",
                "{} tasks ({} panicking) were queued on a {}-thread pool that was then {}; only {} started and {} of {} non-panicking ones finished within 10 s",
                sub.submitted.len(),
                s.tasks.iter().filter(|t| t.panics).count(),
                n,
                if s.end == End::DropOnly { "dropped" } else { "stopped and dropped" },
                h.starts.lock().unwrap().len(),
                h.finishes.lock().unwrap().len(),
                sub.expected_finish.len()
            ));
        }
        let mut ids: Vec<usize> = h.starts.lock().unwrap().iter().map(|(i, _)| *i).collect();
        ids.sort();
        if ids.windows(2).any(|w| w[0] == w[1]) {
            fails.push(fail!("task-ran-twice", "a task was started more than once: {:?}", ids));
        }
        let threads_seen = h.seen_threads.lock().unwrap().len();
        if fails.is_empty() && !wait_until(Duration::from_secs(5), || h.exited_threads.load(Ordering::SeqCst) >= h.seen_threads.lock().unwrap().len()) {
            fails.push(fail!("workers-do-not-exit", "after an early {} only {} of {} worker threads exited", if s.end == End::DropOnly { "drop" } else { "stop + drop" }, h.exited_threads.load(Ordering::SeqCst), threads_seen));
        }
        return fails;
    }
    // ---- every task runs exactly once; panicking ones affect nothing else
    let all_started = wait_until(Duration::from_secs(10), || h.starts.lock().unwrap().len() >= sub.submitted.len() && h.finishes.lock().unwrap().len() >= sub.expected_finish.len());
    if !all_started {
        let st = h.starts.lock().unwrap().len();
        let fi = h.finishes.lock().unwrap().len();
        fails.push(fail!("tasks-not-run", "{} tasks submitted to a {}-thread pool ({} of them panic) but only {} started and {} finished within 10 s", sub.submitted.len(), n, s.tasks.iter().filter(|t| t.panics).count(), st, fi));
    }
    // ---- the pool is back to N usable workers: N tasks that each wait for the other N-1 to have started
    if s.witness && fails.is_empty() {
        // strict witness: N tasks that each wait for the other N-1 to have started
        let arrived = Arc::new((Mutex::new(0usize), Condvar::new()));
        let finished = Arc::new(AtomicUsize::new(0));
        for _ in 0..n {
            let a = arrived.clone();
            let f = finished.clone();
            let h2 = h.clone();
            pool.execute(move || {
                note_thread(&h2);
                let (m, cv) = &*a;
                let mut g = m.lock().unwrap();
                *g += 1;
                cv.notify_all();
                let deadline = Instant::now() + Duration::from_secs(8);
                while *g < n {
                    let now = Instant::now();
                    if now >= deadline {
                        return;
                    }
                    let (ng, _) = cv.wait_timeout(g, deadline - now).unwrap();
                    g = ng;
                }
                drop(g);
                f.fetch_add(1, Ordering::SeqCst);
            });
        }
        let ok = wait_until(Duration::from_secs(10), || finished.load(Ordering::SeqCst) >= n);
        if !ok {
            fails.push(fail!(
                "pool-not-back-to-n",
                "after {} panics, {} tasks that each wait for the other {} to have started did not all run at the same time on the {}-thread pool: only {} workers are usable",
                s.tasks.iter().filter(|t| t.panics).count(),
                n,
                n - 1,
                n,
                *arrived.0.lock().unwrap()
            ));
        }
    }
    // ---- a restarted worker panicking again, tasks after panics still run
    if fails.is_empty() {
        for t in &s.second_round {
            submit(&mut sub, &pool, t, s.submit_gap, &h);
        }
        let ok = wait_until(Duration::from_secs(10), || h.starts.lock().unwrap().len() >= sub.submitted.len() && h.finishes.lock().unwrap().len() >= sub.expected_finish.len());
        if !ok {
            fails.push(fail!("tasks-after-panic-not-run", "second round: {} tasks submitted in total but only {} started / {} finished", sub.submitted.len(), h.starts.lock().unwrap().len(), h.finishes.lock().unwrap().len()));
        }
    }
    // exactly once
    {
        let starts = h.starts.lock().unwrap();
        let mut ids: Vec<usize> = starts.iter().map(|(i, _)| *i).collect();
        ids.sort();
        let dup = ids.windows(2).any(|w| w[0] == w[1]);
        if dup {
            fails.push(fail!("task-ran-twice", "a task was started more than once: {:?}", ids));
        }
        let mut fin = h.finishes.lock().unwrap().clone();
        fin.sort();
        if fin.windows(2).any(|w| w[0] == w[1]) {
            fails.push(fail!("task-ran-twice", "a task finished more than once: {:?}", fin));
        }
    }
    if h.max_running.load(Ordering::SeqCst) > n {
        fails.push(fail!("too-many-concurrent", "{} tasks ran at the same time on a {}-thread pool", h.max_running.load(Ordering::SeqCst), n));
    }
    // ---- stop / drop must return and every worker thread must exit
    let threads_seen = h.seen_threads.lock().unwrap().len();
    let end = s.end.clone();
    let (tx, rx) = std::sync::mpsc::channel();
    std::thread::spawn(move || {
        let r = crate::engine::catch(move || {
            let mut pool = pool;
            if end == End::StopThenDrop {
                pool.stop();
            }
            drop(pool);
        });
        let _ = tx.send(r);
    });
    let ended = rx.recv_timeout(Duration::from_secs(10));
    if let Ok(Err(p)) = &ended {
        fails.push(fail!("caller-panicked", "{} a started {}-thread pool panicked in the caller: {}", if s.end == End::DropOnly { "dropping (without stop)" } else { "stop() followed by dropping" }, n, p));
        return fails;
    }
    if ended.is_err() {
        fails.push(fail!(
            if s.end == End::DropOnly { "drop-without-stop-hangs" } else { "stop-then-drop-hangs" },
            "{} a started {}-thread pool did not return within 10 s",
            if s.end == End::DropOnly { "dropping (without stop)" } else { "stop() followed by dropping" },
            n
        ));
        return fails;
    }
    let exited = wait_until(Duration::from_secs(5), || h.exited_threads.load(Ordering::SeqCst) >= threads_seen);
    if !exited {
        fails.push(fail!(
            "workers-do-not-exit",
            "after {} only {} of the {} worker threads that ran tasks have exited within 5 s",
            if s.end == End::DropOnly { "drop" } else { "stop + drop" },
            h.exited_threads.load(Ordering::SeqCst),
            threads_seen
        ));
    }
    fails
}

fn arb_scenario(max_workers: usize, max_tasks: usize) -> impl Strategy<Value = Scenario> {
    let task = (prop_oneof![3 => Just(false), 1 => Just(true)], prop_oneof![3 => Just(0u8), 2 => 1u8..20]).prop_map(|(panics, work)| TaskSpec { panics, work });
    (
        1usize..=max_workers,
        proptest::collection::vec(task.clone(), 0..=max_tasks),
        any::<bool>(),
        proptest::collection::vec(task, 0..4),
        prop_oneof![Just(End::StopThenDrop), Just(End::DropOnly)],
        prop_oneof![2 => Just(0u8), 1 => 1u8..10],
        prop_oneof![2 => Just(false), 1 => Just(true)],
    )
        .prop_map(|(workers, tasks, witness, second_round, end, submit_gap, end_early)| Scenario { workers, tasks, witness, second_round, end, submit_gap, end_early })
}

pub fn run(ctx: &Ctx) {
    ctx.rule("stress mode: scenarios of 1..8 workers, up to 12 tasks each with a panic flag and a busy time, an optional witness batch (N tasks that each wait for the other N-1 to have started), a second round of tasks (a restarted worker panicking again), ended by stop()+drop or by drop alone, on the real OS scheduler with generated submission gaps. History invariants: every submitted task starts exactly once and, unless it panics, finishes exactly once; tasks after a panic still run; the witness completes (pool back to N usable workers); never more than N tasks between start and finish; stop/drop return within 10 s; afterwards every worker thread that ran a task exits (thread-local exit guards). Non-trivial: scenario contains a panic or omits stop; distinct by scenario");
    ctx.assume("stress mode samples OS interleavings (a race can be missed, never falsely reported); the recovery thread is allowed to stay blocked forever; stop() before start() is outside the quantifier");
    // Both modes run in child processes of this binary (see c08_sched::run): every started pool leaves its detached
    // recovery thread behind, and schedule mode spawns thousands of short-lived threads per second, so the work is cut
    // into chunks with a bounded number of pools per process.
    if !cfg!(humphrey_verif_shim) {
        // ./check fell back to a build without the scheduling shim (the pool's sources no longer compile against it)
        ctx.inconclusive("schedule mode skipped: thread/pool.rs and thread/recovery.rs do not build against the scheduling shim (they use std items the shim does not wrap); stress mode only");
        ctx.label("sched:skipped-no-shim", 1);
    }
    super::c08_sched::run(ctx);
}

/// The stress-mode share of one chunk (child process).
pub fn run_stress_chunk(ctx: &Ctx, chunk: usize, nchunks: usize) {
    let total = if std::env::var("HV_C08_ONLY_SCHED").is_ok() { 0 } else { ctx.tier.pick(600u32, 20_000u32) };
    let cases = total / nchunks as u32 + if (chunk as u32) < total % nchunks as u32 { 1 } else { 0 };
    if cases == 0 {
        return;
    }
    pt::run(
        ctx,
        "stress",
        pt::Opts::new(cases).salt(800 + chunk as u64).shrink_iters(12),
        arb_scenario(8, 12),
        |s| serde_json::to_value(s).unwrap(),
        |s| {
            let panics = s.tasks.iter().chain(s.second_round.iter()).filter(|t| t.panics).count();
            let nt = panics > 0 || s.end == End::DropOnly;
            let mut labels = vec!["stress"];
            if panics > 0 {
                labels.push("with-panic");
            }
            if panics >= 2 {
                labels.push(">=2-panics");
            }
            if s.end == End::DropOnly {
                labels.push("drop-without-stop");
            }
            if s.witness {
                labels.push("witness-batch");
            }
            if s.end_early {
                labels.push("shutdown-with-queued-tasks");
            }
            ctx.case(hash_of(&format!("{:?}", s)), nt, &labels);
            ctx.sample(labels.last().unwrap(), || serde_json::to_value(s).unwrap());
            run_stress(s)
        },
    );
}

pub fn replay(_ctx: &Ctx, kind: &str, case: &J) -> Vec<Fail> {
    match kind {
        "sched" | "sched-random" => super::c08_sched::replay(case),
        "stress" => match serde_json::from_value::<Scenario>(case.clone()) {
            Ok(s) => run_stress(&s),
            Err(e) => vec![Fail::new("harness", format!("bad replay case: {}", e))],
        },
        _ => vec![Fail::new("harness", format!("unknown replay kind {}", kind))],
    }
}
