//! C08, schedule mode: the pool runs under the `humphrey_verif` scheduling shim
//! (`humphrey::thread::verif_shim`), so the harness owns the interleaving of the submitting thread, the
//! workers and the recovery thread. Lifecycle scripts x panic placements x schedules:
//!   * systematically: stateless depth-first enumeration of every schedule within a pre-emption bound,
//!   * randomly: proptest draws (script, choice vector) pairs beyond the bound and shrinks them.
//! Oracle: history invariants over start/finish/panic records plus the scheduler's final thread table;
//! a state with no runnable thread before the script has returned is a deadlock, attributed to the step the
//! script was in.

use crate::engine::{hash_of, pt, Ctx, Fail};
use humphrey::thread::pool::ThreadPool;
use humphrey::thread::verif_shim as shim;
use proptest::prelude::*;
use serde::{Deserialize, Serialize};
use serde_json::{json, Value as J};
use std::sync::atomic::{AtomicUsize, Ordering};
use std::sync::{Arc, Mutex};
use std::time::Duration;

#[derive(Clone, Debug, Serialize, Deserialize, PartialEq, Eq, Hash)]
pub enum Op {
    Start,
    Exec { panics: bool },
    /// wait until every task submitted so far has started and, unless it panics, finished
    WaitAll,
    /// submit N tasks that each wait until all N have started, then wait for them
    Witness,
    Stop,
}

#[derive(Clone, Debug, Serialize, Deserialize, PartialEq, Eq, Hash)]
pub struct Script {
    pub workers: usize,
    /// executed in order, then the pool is dropped
    pub ops: Vec<Op>,
}

impl Script {
    /// `Exec`/`Witness`/`Stop` only on a started pool (the property's "execute follows start"; `stop` before
    /// `start` panics by contract), `Start` only on a pool that is not started.
    pub fn valid(&self) -> bool {
        let mut started = false;
        for op in &self.ops {
            match op {
                Op::Start => {
                    if started {
                        return false;
                    }
                    started = true;
                }
                Op::Exec { .. } | Op::Witness => {
                    if !started {
                        return false;
                    }
                }
                Op::Stop => {
                    if !started {
                        return false;
                    }
                    started = false;
                }
                Op::WaitAll => {}
            }
        }
        self.workers >= 1
    }
    fn panics(&self) -> usize {
        self.ops.iter().filter(|o| matches!(o, Op::Exec { panics: true })).count()
    }
    fn tasks(&self) -> usize {
        self.ops.iter().filter(|o| matches!(o, Op::Exec { .. })).count()
    }
    fn ends_with_stop(&self) -> bool {
        matches!(self.ops.last(), Some(Op::Stop))
    }
}

#[derive(Default)]
struct Hist {
    /// (task id, worker thread name)
    starts: Mutex<Vec<(usize, String)>>,
    finishes: Mutex<Vec<usize>>,
    /// tasks between start and finish, per pool generation (a generation = one `start`): after `stop` + `start` the
    /// previous generation's workers may still be finishing their queue next to the new ones
    running: Mutex<Vec<usize>>,
    /// the largest number of tasks of one generation that were running at the same time
    max_running: AtomicUsize,
    /// index of the script step the body is in (ops.len() = the final drop, +1 = returned)
    phase: AtomicUsize,
    witness_arrived: AtomicUsize,
    witness_done: AtomicUsize,
}

pub struct TaskPanic;

fn task(id: usize, generation: usize, panics: bool, h: Arc<Hist>) -> impl FnOnce() + Send + 'static {
    move || {
        let name = std::thread::current().name().unwrap_or("?").to_string();
        h.starts.lock().unwrap().push((id, name));
        {
            let mut r = h.running.lock().unwrap();
            if r.len() <= generation {
                r.resize(generation + 1, 0);
            }
            r[generation] += 1;
            h.max_running.fetch_max(r[generation], Ordering::SeqCst);
        }
        shim::notify();
        shim::yield_now();
        h.running.lock().unwrap()[generation] -= 1;
        if panics {
            std::panic::panic_any(TaskPanic);
        }
        h.finishes.lock().unwrap().push(id);
        shim::notify();
    }
}

struct Submitted {
    id: usize,
    panics: bool,
}

fn body(script: Script, h: Arc<Hist>, submitted: Arc<Mutex<Vec<Submitted>>>) {
    let n = script.workers;
    let mut pool = ThreadPool::new(n);
    let mut next_id = 0usize;
    let mut witness_rounds = 0usize;
    let mut generation = 0usize;
    for (i, op) in script.ops.iter().enumerate() {
        h.phase.store(i, Ordering::SeqCst);
        match op {
            Op::Start => {
                generation += 1;
                pool.start()
            }
            Op::Exec { panics } => {
                submitted.lock().unwrap().push(Submitted { id: next_id, panics: *panics });
                pool.execute(task(next_id, generation, *panics, h.clone()));
                next_id += 1;
            }
            Op::WaitAll => {
                let subs: Vec<(usize, bool)> = submitted.lock().unwrap().iter().map(|s| (s.id, s.panics)).collect();
                let h2 = h.clone();
                shim::block_until(move || {
                    let st = h2.starts.lock().unwrap();
                    let fi = h2.finishes.lock().unwrap();
                    subs.iter().all(|(id, p)| st.iter().any(|(i, _)| i == id) && (*p || fi.contains(id)))
                });
            }
            Op::Witness => {
                witness_rounds += 1;
                let need = witness_rounds * n;
                for _ in 0..n {
                    let h2 = h.clone();
                    pool.execute(move || {
                        h2.witness_arrived.fetch_add(1, Ordering::SeqCst);
                        shim::notify();
                        let h3 = h2.clone();
                        shim::block_until(move || h3.witness_arrived.load(Ordering::SeqCst) >= need);
                        h2.witness_done.fetch_add(1, Ordering::SeqCst);
                        shim::notify();
                    });
                }
                let h2 = h.clone();
                shim::block_until(move || h2.witness_done.load(Ordering::SeqCst) >= need);
            }
            Op::Stop => pool.stop(),
        }
    }
    h.phase.store(script.ops.len(), Ordering::SeqCst);
    drop(pool);
    h.phase.store(script.ops.len() + 1, Ordering::SeqCst);
}

/// How the next thread is picked at choice point `k`.
#[derive(Clone, Debug)]
pub enum Policy {
    /// replay these thread ids, then continue the running thread / lowest thread id (no pre-emption)
    Prefix(Vec<usize>),
    /// choice vector: value < 0xA000 continues the running thread when possible, otherwise indexes the runnable set
    Vector(Vec<u16>),
}

pub struct Exec {
    pub fails: Vec<Fail>,
    pub trace: Vec<shim::Step>,
    pub inconclusive: Option<String>,
    pub restarts: usize,
}

/// The default scheduler: continue the running thread; otherwise the lowest thread that is not in a timed wait;
/// a timeout elapses by default only when nothing else can run.
fn default_of(runnable: &[usize], timed: &[usize], current: Option<usize>) -> usize {
    current.unwrap_or_else(|| runnable.iter().copied().find(|t| !timed.contains(t)).unwrap_or(runnable[0]))
}

fn default_choice(c: &shim::Choice) -> usize {
    default_of(c.runnable, c.timed, c.current)
}

pub fn execute(script: &Script, policy: &Policy) -> Exec {
    let h = Arc::new(Hist::default());
    let submitted = Arc::new(Mutex::new(Vec::new()));
    let pol = policy.clone();
    let chooser: Box<dyn FnMut(&shim::Choice) -> usize + Send> = Box::new(move |c| match &pol {
        Policy::Prefix(p) => {
            if c.index < p.len() {
                p[c.index]
            } else {
                default_choice(c)
            }
        }
        Policy::Vector(v) => match v.get(c.index) {
            None => default_choice(c),
            Some(&x) => {
                if x < 0xA000 {
                    default_choice(c)
                } else {
                    let others: Vec<usize> = c.runnable.iter().copied().filter(|t| Some(*t) != c.current).collect();
                    let pool = if others.is_empty() { c.runnable.to_vec() } else { others };
                    pool[((x - 0xA000) as usize * pool.len()) / 0x6000]
                }
            }
        },
    });
    let (s2, h2, sub2) = (script.clone(), h.clone(), submitted.clone());
    let out = shim::explore(chooser, 20_000, Duration::from_secs(20), move || body(s2, h2, sub2));
    let mut fails = Vec::new();
    let mut inconclusive = None;
    let n = script.workers;
    let phase = h.phase.load(Ordering::SeqCst);
    let phase_name = |p: usize| -> String {
        if p < script.ops.len() {
            format!("{:?}", script.ops[p])
        } else if p == script.ops.len() {
            "Drop".to_string()
        } else {
            "returned".to_string()
        }
    };
    let table = |ts: &[shim::ThreadInfo]| -> String {
        // resources are identified by address inside the shim; print them as small indices in order of appearance
        let mut seen: Vec<usize> = Vec::new();
        let mut idx = |a: usize| -> usize {
            if let Some(i) = seen.iter().position(|x| *x == a) {
                i
            } else {
                seen.push(a);
                seen.len() - 1
            }
        };
        let mut res = |r: &shim::Res| -> String {
            match r {
                shim::Res::Mutex(a) => format!("mutex#{}", idx(*a)),
                shim::Res::Chan(a) => format!("channel#{}", idx(*a)),
                shim::Res::Join(t) => format!("join of thread {}", t),
                shim::Res::Cond => "harness condition".to_string(),
                shim::Res::Drain => "end of run".to_string(),
            }
        };
        ts.iter()
            .map(|t| {
                let st = match &t.state {
                    shim::TState::Runnable => "runnable".to_string(),
                    shim::TState::Finished => "finished".to_string(),
                    shim::TState::Blocked(r) => format!("blocked on {}", res(r)),
                    shim::TState::TimedBlocked(r) => format!("timed wait on {}", res(r)),
                };
                format!("[{} {}: {} in {}{}]", t.tid, t.name.as_deref().map(|n| if n == "body" { "caller".to_string() } else { format!("worker {}", n) }).unwrap_or_else(|| "unnamed (recovery)".to_string()), st, t.last_op, if t.panicked { ", unwound" } else { "" })
            })
            .collect::<Vec<_>>()
            .join(" ")
    };
    let sched_text = || -> String { out.trace.iter().map(|s| s.chosen.to_string()).collect::<Vec<_>>().join(",") };
    let restarts = out.threads.iter().filter(|t| t.name.as_deref().map(|n| n.parse::<usize>().is_ok()).unwrap_or(false)).count().saturating_sub(n * script.ops.iter().filter(|o| **o == Op::Start).count());
    match &out.end {
        shim::End::Done => {}
        shim::End::BodyPanicked(m) => fails.push(fail!("caller-panicked", "the thread driving the pool panicked in step {} with `{}`; schedule [{}]", phase_name(phase), m, sched_text())),
        shim::End::Deadlock => {
            let what = match script.ops.get(phase) {
                Some(Op::WaitAll) => "tasks-not-run",
                Some(Op::Witness) => "pool-not-back-to-n",
                Some(Op::Stop) => "stop-blocks-forever",
                None => "drop-blocks-forever",
                Some(_) => "caller-blocks-forever",
            };
            fails.push(fail!(what, "deadlock: no thread can run while the caller is in step {} of {:?} on a {}-thread pool; threads: {}; schedule [{}]", phase_name(phase), script.ops, n, table(&out.threads), sched_text()));
        }
        shim::End::StepLimit => fails.push(fail!("never-quiesces", "more than 20000 scheduling steps (caller in step {}); threads: {}", phase_name(phase), table(&out.threads))),
        shim::End::BadChoice => inconclusive = Some(format!("schedule did not replay (choice not runnable) for {:?}", script)),
        shim::End::Stuck => inconclusive = Some(format!("no scheduling progress for 20 s in step {}: a thread blocks outside the shim; threads: {}", phase_name(phase), table(&out.threads))),
    }
    if out.leaked > 0 && inconclusive.is_none() && fails.is_empty() {
        inconclusive = Some(format!("{} controlled OS threads did not exit after teardown", out.leaked));
    }
    if matches!(out.end, shim::End::Done | shim::End::BodyPanicked(_)) {
        // history invariants at quiescence
        let starts = h.starts.lock().unwrap().clone();
        let finishes = h.finishes.lock().unwrap().clone();
        let subs = submitted.lock().unwrap();
        for s in subs.iter() {
            let ns = starts.iter().filter(|(i, _)| *i == s.id).count();
            let nf = finishes.iter().filter(|i| **i == s.id).count();
            if ns == 0 {
                fails.push(fail!("task-never-ran", "task {} of {} submitted to a started {}-thread pool never ran although every thread had finished or blocked for good; script {:?}; threads: {}; schedule [{}]", s.id, subs.len(), n, script.ops, table(&out.threads), sched_text()));
            } else if ns > 1 || nf > 1 {
                fails.push(fail!("task-ran-twice", "task {} started {} times and finished {} times; script {:?}; schedule [{}]", s.id, ns, nf, script.ops, sched_text()));
            } else if !s.panics && nf == 0 {
                fails.push(fail!("task-never-finished", "task {} started but never finished; threads: {}", s.id, table(&out.threads)));
            }
        }
        let mr = h.max_running.load(Ordering::SeqCst);
        if mr > n {
            fails.push(fail!("too-many-concurrent", "{} tasks submitted after the same start() were between start and finish at the same time on a {}-thread pool; schedule [{}]", mr, n, sched_text()));
        }
        // every worker thread (named by its numeric id) has exited
        if out.end == shim::End::Done {
            let alive: Vec<&shim::ThreadInfo> = out.threads.iter().filter(|t| t.tid != 0 && t.state != shim::TState::Finished && t.name.as_deref().map(|n| n.parse::<usize>().is_ok()).unwrap_or(false)).collect();
            if !alive.is_empty() {
                fails.push(fail!(
                    "workers-do-not-exit",
                    "after {} of the pool, {} worker thread(s) never exit: {}; script {:?}; schedule [{}]",
                    if script.ends_with_stop() { "stop + drop" } else { "drop" },
                    alive.len(),
                    table(&out.threads),
                    script.ops,
                    sched_text()
                ));
            }
        }
    }
    Exec { fails, trace: out.trace, inconclusive, restarts }
}

/// switches away from a thread that could continue, plus timeouts made to elapse while something else could run
fn preemptions(trace: &[shim::Step], upto: usize) -> usize {
    trace[..upto].iter().filter(|s| (s.current.is_some() && s.current != Some(s.chosen)) || (s.timed.contains(&s.chosen) && s.chosen != default_of(&s.runnable, &s.timed, s.current))).count()
}

/// deviations from the default scheduler (continue the running thread, else the lowest thread id)
fn delays(trace: &[shim::Step], upto: usize) -> usize {
    trace[..upto].iter().filter(|s| s.chosen != default_of(&s.runnable, &s.timed, s.current)).count()
}

pub struct DfsResult {
    pub executions: u64,
    pub complete: bool,
    pub max_choice_points: usize,
    pub fail: Option<(Fail, Vec<usize>)>,
    pub inconclusive: Option<String>,
}

/// Every schedule of `script` with at most `bound` pre-emptions (stateless search: each schedule is re-run from
/// the start; a schedule is identified by its sequence of choices).
pub fn dfs(script: &Script, bound: usize, delay: bool, max_exec: u64, ctx: &Ctx, labels: &[&str]) -> DfsResult {
    let mut stack: Vec<Vec<usize>> = vec![vec![]];
    let mut res = DfsResult { executions: 0, complete: true, max_choice_points: 0, fail: None, inconclusive: None };
    let sh = hash_of(script);
    // a capped search takes the next schedule from a random place of the frontier (so that the cap does not confine it to
    // one corner of the space) as long as the frontier is small; the order is irrelevant when the space is exhausted
    let mut rng = crate::engine::Lcg(pt::mix(ctx.seed, sh));
    loop {
        if stack.is_empty() {
            break;
        }
        let prefix = if stack.len() < 50_000 {
            let i = (rng.next() % stack.len() as u64) as usize;
            stack.swap_remove(i)
        } else {
            stack.pop().unwrap()
        };
        if res.executions >= max_exec {
            res.complete = false;
            break;
        }
        if ctx.has_failed() {
            res.complete = false;
            break;
        }
        let ex = execute(script, &Policy::Prefix(prefix.clone()));
        res.executions += 1;
        let chosen: Vec<usize> = ex.trace.iter().map(|s| s.chosen).collect();
        let pre = preemptions(&ex.trace, ex.trace.len());
        let mut ls: Vec<&str> = labels.to_vec();
        ls.push(match pre {
            0 => "sched:preemptions=0",
            1 => "sched:preemptions=1",
            2 => "sched:preemptions=2",
            _ => "sched:preemptions>=3",
        });
        if ex.restarts > 0 {
            ls.push("sched:worker-restarted");
        }
        if ex.restarts > 1 {
            ls.push("sched:restarted-twice-or-more");
        }
        ctx.case(hash_of(&(sh, &chosen)), !prefix.is_empty() || script.panics() > 0, &ls);
        res.max_choice_points = res.max_choice_points.max(ex.trace.len());
        if let Some(t) = ex.inconclusive {
            res.inconclusive = Some(t);
            res.complete = false;
            break;
        }
        if let Some(f) = ctx.triage(ex.fails) {
            res.fail = Some((f, chosen));
            res.complete = false;
            break;
        }
        // children: at every choice point at or after the prefix, every alternative that stays within the bound
        for k in (prefix.len()..ex.trace.len()).rev() {
            let st = &ex.trace[k];
            let p = if delay { delays(&ex.trace, k) } else { preemptions(&ex.trace, k) };
            for &alt in st.runnable.iter().rev() {
                if alt == st.chosen {
                    continue;
                }
                let dflt = default_of(&st.runnable, &st.timed, st.current);
                let cost = if delay {
                    if alt != dflt {
                        1
                    } else {
                        0
                    }
                } else if (st.current.is_some() && st.current != Some(alt)) || (st.timed.contains(&alt) && alt != dflt) {
                    1
                } else {
                    0
                };
                if p + cost <= bound {
                    let mut np: Vec<usize> = chosen[..k].to_vec();
                    np.push(alt);
                    stack.push(np);
                }
            }
        }
    }
    res
}

/// Canonical scripts: start, k tasks with every panic placement, optionally wait + witness + one more task,
/// ended by stop + drop or drop alone.
pub fn systematic_scripts(max_workers: usize, max_tasks: usize) -> Vec<Script> {
    let mut out = Vec::new();
    for workers in 1..=max_workers {
        for k in 0..=max_tasks {
            for mask in 0..(1u32 << k) {
                let tasks: Vec<Op> = (0..k).map(|i| Op::Exec { panics: mask & (1 << i) != 0 }).collect();
                for shape in 0..4 {
                    for stop in [false, true] {
                        let mut ops = vec![Op::Start];
                        ops.extend(tasks.iter().cloned());
                        match shape {
                            0 => {}
                            1 => ops.push(Op::WaitAll),
                            2 => {
                                ops.push(Op::WaitAll);
                                ops.push(Op::Witness);
                            }
                            _ => {
                                if k == 0 {
                                    continue;
                                }
                                // a restarted worker panicking again, then the witness, without waiting in between
                                ops.push(Op::Exec { panics: true });
                                ops.push(Op::Witness);
                            }
                        }
                        if stop {
                            ops.push(Op::Stop);
                        }
                        let s = Script { workers, ops };
                        debug_assert!(s.valid());
                        out.push(s);
                    }
                }
            }
        }
    }
    out
}

fn script_labels(s: &Script) -> Vec<&'static str> {
    let mut l = vec!["sched"];
    if s.panics() > 0 {
        l.push("sched:with-panic");
    }
    if s.panics() >= 2 {
        l.push("sched:>=2-panics");
    }
    if !s.ends_with_stop() {
        l.push("sched:drop-without-stop");
    }
    if s.ops.contains(&Op::Witness) {
        l.push("sched:witness");
    }
    if !s.ops.contains(&Op::WaitAll) && !s.ops.contains(&Op::Witness) && s.tasks() > 0 {
        l.push("sched:shutdown-with-queued-tasks");
    }
    if s.ops.iter().filter(|o| **o == Op::Start).count() > 1 {
        l.push("sched:restarted-pool");
    }
    l
}

fn arb_script() -> impl Strategy<Value = Script> {
    let op = prop_oneof![
        4 => Just(Op::Exec { panics: false }),
        2 => Just(Op::Exec { panics: true }),
        1 => Just(Op::WaitAll),
        1 => Just(Op::Witness),
        1 => Just(Op::Stop),
        1 => Just(Op::Start),
    ];
    (1usize..=4, proptest::collection::vec(op, 0..9)).prop_map(|(workers, raw)| {
        // repair into a valid script by construction: drop operations that are not allowed in the current state
        let mut ops = vec![Op::Start];
        let mut started = true;
        for o in raw {
            match o {
                Op::Start => {
                    if !started {
                        ops.push(Op::Start);
                        started = true;
                    }
                }
                Op::Stop => {
                    if started {
                        ops.push(Op::Stop);
                        started = false;
                    }
                }
                Op::Exec { .. } | Op::Witness => {
                    if started {
                        ops.push(o);
                    }
                }
                Op::WaitAll => ops.push(o),
            }
        }
        Script { workers, ops }
    })
}


fn chunk_summary_path(chunk: usize) -> String {
    format!("/verif/target/c08s-{}.json", chunk)
}

/// Parent side. Schedule mode spawns thousands of short-lived OS threads per second; inside one process they
/// serialise on the address-space lock, so the work is cut into chunks that run in child processes of this
/// binary (`hv worker c08sched <tier> <chunk> <nchunks>`), 16 at a time; each child writes a summary that is
/// merged here.
pub fn run(ctx: &Ctx) {
    if cfg!(humphrey_verif_shim) {
        ctx.rule("schedule mode (scheduling shim, the harness picks every interleaving): a case is a (lifecycle script, schedule) pair. Systematic part: scripts `start, k tasks with every panic placement, [wait-all [, witness] | panicking task + witness], [stop], drop` for N in 1..3 and k up to 4, and for each script every schedule within the pass's bound (stateless DFS over the shim's choice points; delay bounding = number of deviations from the default scheduler, pre-emption bounding = number of switches away from a thread that could continue; a capped pass takes schedules from random places of the frontier). Random part: generated scripts over {start, execute (panicking or not), wait-all, witness, stop} with restarts of a stopped pool, N in 1..4, and a generated choice vector. Oracle at quiescence: every submitted task started exactly once and, unless it panics, finished exactly once; at most N tasks of one pool generation (one start()) between start and finish; the witness batch (N tasks that each wait for all N) completes; the caller never blocks forever (deadlock = no runnable thread) and never panics; every worker thread has exited. Non-trivial: the schedule deviates from the default one, or a task panics; distinct by (script, choice sequence)");
        ctx.assume("schedule mode: scheduling points are the shim's operations (lock, send, recv, spawn, join, thread exit) plus one yield inside each task; memory-model effects below that granularity are not explored. The detached recovery thread may stay blocked forever");
    }
    let exe = match std::env::current_exe() {
        Ok(e) => e,
        Err(e) => {
            ctx.inconclusive(&format!("schedule mode: cannot find own executable: {}", e));
            return;
        }
    };
    let next = AtomicUsize::new(0);
    let nch = nchunks(ctx);
    let np = passes(ctx).len();
    // per pass: scripts, fully enumerated, executions; then max choice points, child violations
    let agg = Mutex::new((vec![(0u64, 0u64, 0u64); np], 0usize, 0u64));
    let printed: Mutex<std::collections::HashSet<String>> = Mutex::new(std::collections::HashSet::new());
    let procs = std::env::var("HV_C08_PROCS").ok().and_then(|s| s.parse().ok()).unwrap_or(16);
    crate::engine::shards(procs, |_| loop {
        let chunk = next.fetch_add(1, Ordering::SeqCst);
        if chunk >= nch || ctx.has_failed() {
            break;
        }
        let path = chunk_summary_path(chunk);
        let _ = std::fs::remove_file(&path);
        let out = std::process::Command::new(&exe)
            .args(["worker", "c08sched", ctx.tier.name(), &chunk.to_string(), &nch.to_string()])
            .env("VERIF_SEED", ctx.seed.to_string())
            .output();
        let out = match out {
            Ok(o) => o,
            Err(e) => {
                ctx.inconclusive(&format!("schedule mode: cannot start child: {}", e));
                break;
            }
        };
        let text = String::from_utf8_lossy(&out.stdout);
        {
            // one report per signature across all children
            let mut printed = printed.lock().unwrap();
            let lines: Vec<&str> = text.lines().collect();
            let mut k = 0;
            while k < lines.len() {
                let l = lines[k];
                if l.starts_with("VIOLATION") {
                    let sig = lines.get(k + 1).map(|x| x.trim().to_string()).unwrap_or_default();
                    let fresh = printed.insert(sig);
                    let mut m = k;
                    loop {
                        if fresh {
                            println!("{}", lines[m]);
                        }
                        m += 1;
                        if m >= lines.len() || !(lines[m].starts_with("  signature") || lines[m].starts_with("  detail")) {
                            break;
                        }
                    }
                    k = m;
                    continue;
                }
                if l.starts_with("KNOWN-FINDING") || l.starts_with("INCONCLUSIVE") {
                    if printed.insert(l.to_string()) {
                        println!("{}", l);
                    }
                }
                k += 1;
            }
        }
        let v: J = match std::fs::read_to_string(&path).ok().and_then(|t| serde_json::from_str(&t).ok()) {
            Some(v) => v,
            None => {
                ctx.inconclusive(&format!("schedule mode: child for chunk {} left no summary (exit {:?}): {}", chunk, out.status.code(), String::from_utf8_lossy(&out.stderr).chars().take(400).collect::<String>()));
                continue;
            }
        };
        let _ = std::fs::remove_file(&path);
        let cov = &v["coverage"];
        ctx.bulk_n(cov["evaluations"].as_u64().unwrap_or(0), cov["distinct_nontrivial"].as_u64().unwrap_or(0));
        if let Some(l) = cov["labels"].as_object() {
            for (k, n) in l {
                ctx.label(k, n.as_u64().unwrap_or(0));
            }
        }
        if let Some(sm) = cov["samples"].as_array() {
            for x in sm {
                ctx.sample(x["class"].as_str().unwrap_or("sched"), || x["case"].clone());
            }
        }
        if let Some(inc) = cov["inconclusive"].as_array() {
            for x in inc {
                ctx.inconclusive(x.as_str().unwrap_or("?"));
            }
        }
        let viol = v["violations"].as_u64().unwrap_or(0);
        let mut a = agg.lock().unwrap();
        if let Some(ps) = cov["schedule_mode"]["passes"].as_array() {
            for (i, p) in ps.iter().enumerate().take(np) {
                a.0[i].0 += p["scripts"].as_u64().unwrap_or(0);
                a.0[i].1 += p["fully_enumerated"].as_u64().unwrap_or(0);
                a.0[i].2 += p["executions"].as_u64().unwrap_or(0);
            }
        }
        a.1 = a.1.max(cov["schedule_mode"]["max_choice_points_in_one_execution"].as_u64().unwrap_or(0) as usize);
        a.2 += viol;
        if viol > 0 {
            ctx.side_violation(viol);
        }
    });
    let a = agg.lock().unwrap();
    let ps = passes(ctx);
    let mut pj = Vec::new();
    for (i, p) in ps.iter().enumerate() {
        let (scripts, full, execs) = a.0[i];
        pj.push(json!({"workers_up_to": p.workers, "tasks_up_to": p.tasks, "bounding": if p.delay { "delay" } else { "pre-emption" }, "bound": p.bound, "per_script_cap": p.cap, "scripts": scripts, "scripts_fully_enumerated_within_bound": full, "executions": execs}));
        if scripts > 0 && full == scripts && a.2 == 0 {
            ctx.exhaustive_space(&format!("all schedules with at most {} {} of {} lifecycle scripts (N in 1..{}, up to {} tasks with every panic placement)", p.bound, if p.delay { "deviation(s) from the default scheduler (delay bounding)" } else { "pre-emption(s)" }, scripts, p.workers, p.tasks));
        }
    }
    ctx.extra("schedule_mode", json!({"passes": pj, "max_choice_points_in_one_execution": a.1, "child_processes": nch}));
}

/// One systematic pass: scripts for N in 1..=workers with up to `tasks` tasks, every schedule within `bound`
/// pre-emptions, at most `cap` schedules per script.
#[derive(Clone, Copy)]
struct Pass {
    workers: usize,
    tasks: usize,
    bound: usize,
    cap: u64,
    /// false: pre-emption bounding (a switch away from a thread that could continue costs 1, the choice of the next
    /// thread when the running one blocks or exits is free). true: delay bounding (every deviation from the
    /// deterministic default scheduler - continue the running thread, else the lowest thread id - costs 1)
    delay: bool,
}

fn passes(ctx: &Ctx) -> Vec<Pass> {
    if let Ok(p) = std::env::var("HV_C08_PARAMS") {
        let v: Vec<u64> = p.split(',').filter_map(|x| x.parse().ok()).collect();
        if v.len() == 5 {
            return vec![Pass { workers: v[0] as usize, tasks: v[1] as usize, bound: v[2] as usize, cap: v[3], delay: v[4] != 0 }];
        }
    }
    ctx.tier.pick(
        vec![
            Pass { workers: 3, tasks: 4, bound: 1, cap: 20_000, delay: true },
            Pass { workers: 2, tasks: 2, bound: 2, cap: 20_000, delay: true },
            Pass { workers: 3, tasks: 3, bound: 2, cap: 100, delay: false },
        ],
        vec![
            Pass { workers: 3, tasks: 4, bound: 2, cap: 20_000, delay: true },
            Pass { workers: 2, tasks: 2, bound: 3, cap: 30_000, delay: true },
            Pass { workers: 3, tasks: 4, bound: 2, cap: 2_000, delay: false },
        ],
    )
}

fn nchunks(ctx: &Ctx) -> usize {
    ctx.tier.pick(64, 512)
}

/// Child side: `hv worker c08sched <tier> <chunk> <nchunks>`.
pub fn worker_main(args: &[String]) -> i32 {
    let tier = match args.first().map(|s| s.as_str()) {
        Some("thorough") => crate::engine::Tier::Thorough,
        _ => crate::engine::Tier::Quick,
    };
    let chunk: usize = args.get(1).and_then(|s| s.parse().ok()).unwrap_or(0);
    let nchunks: usize = args.get(2).and_then(|s| s.parse().ok()).unwrap_or(1);
    let seed: u64 = std::env::var("VERIF_SEED").ok().and_then(|s| s.trim().parse::<u64>().ok()).unwrap_or(20260928);
    crate::engine::quiet_panics();
    let mut ctx = Ctx::new("C08", tier, seed, crate::props::level_of("C08"));
    ctx.evidence_path = Some(chunk_summary_path(chunk));
    ctx.replay_tag = "sched-";
    run_chunk(&ctx, chunk, nchunks);
    ctx.finish()
}

fn run_chunk(ctx: &Ctx, chunk: usize, nchunks: usize) {
    // ---- stress mode (real scheduler) share of this chunk
    super::c08::run_stress_chunk(ctx, chunk, nchunks);
    if ctx.n_violations() > 0 || !cfg!(humphrey_verif_shim) || std::env::var("HV_C08_NO_SCHED").is_ok() {
        ctx.extra("schedule_mode", json!({"passes": [], "max_choice_points_in_one_execution": 0}));
        return;
    }
    // ---- systematic
    let mut pj = Vec::new();
    let mut maxcp = 0usize;
    for (pi, p) in passes(ctx).iter().enumerate() {
        let all = systematic_scripts(p.workers, p.tasks);
        // the expensive scripts (many workers, many tasks) come last: deal them round-robin
        let scripts: Vec<&Script> = all.iter().enumerate().filter(|(i, _)| (i + pi * 7) % nchunks == chunk).map(|(_, s)| s).collect();
        let mut total = 0u64;
        let mut complete = 0usize;
        for s in &scripts {
            if ctx.has_failed() {
                break;
            }
            let mut labels = script_labels(s);
            labels.push(match (p.delay, p.bound) {
                (true, 0) => "sched:delay-bound-0",
                (true, 1) => "sched:delay-bound-1",
                (true, 2) => "sched:delay-bound-2",
                (true, _) => "sched:delay-bound-3+",
                (false, 0) => "sched:preemption-bound-0",
                (false, 1) => "sched:preemption-bound-1",
                (false, _) => "sched:preemption-bound-2+",
            });
            let r = dfs(s, p.bound, p.delay, p.cap, ctx, &labels);
            total += r.executions;
            maxcp = maxcp.max(r.max_choice_points);
            if r.complete {
                complete += 1;
            }
            ctx.sample(labels[labels.len() - 2], || json!({"script": s, "schedules_explored": r.executions, "bounding": if p.delay { "delay" } else { "pre-emption" }, "bound": p.bound, "all_schedules_within_bound": r.complete}));
            if let Some(t) = r.inconclusive {
                ctx.inconclusive(&t);
            }
            if let Some((f, chosen)) = r.fail {
                ctx.violation(f, "sched", json!({"script": s, "prefix": chosen}));
            }
        }
        pj.push(json!({"scripts": scripts.len(), "fully_enumerated": complete, "executions": total}));
    }
    ctx.extra("schedule_mode", json!({"passes": pj, "max_choice_points_in_one_execution": maxcp}));
    if ctx.n_violations() > 0 {
        return;
    }
    // ---- random scripts and schedules beyond the bound
    let cases = ctx.tier.pick(1600u32, 60_000u32);
    pt::run(
        ctx,
        "sched-random",
        pt::Opts::new((cases / nchunks as u32).max(1)).salt(8800 + chunk as u64).shrink_iters(400),
        (arb_script(), proptest::collection::vec(prop_oneof![3 => 0u16..0xA000, 2 => 0xA000u16..=0xFFFF], 0..60)),
        |(s, v)| json!({"script": s, "vector": v}),
        |(s, v)| {
            let ex = execute(s, &Policy::Vector(v.clone()));
            let chosen: Vec<usize> = ex.trace.iter().map(|t| t.chosen).collect();
            let pre = preemptions(&ex.trace, ex.trace.len());
            let mut ls = script_labels(s);
            ls.push("sched:random");
            ls.push(match pre {
                0 => "sched:preemptions=0",
                1 => "sched:preemptions=1",
                2 => "sched:preemptions=2",
                _ => "sched:preemptions>=3",
            });
            if ex.restarts > 0 {
                ls.push("sched:worker-restarted");
            }
            if ex.restarts > 1 {
                ls.push("sched:restarted-twice-or-more");
            }
            ctx.case(hash_of(&(hash_of(s), &chosen)), pre > 0 || s.panics() > 0, &ls);
            ctx.sample("sched:random", || json!({"script": s, "schedule": chosen}));
            if let Some(t) = ex.inconclusive {
                ctx.inconclusive(&t);
                return vec![];
            }
            ex.fails
        },
    );
}

pub fn replay(case: &J) -> Vec<Fail> {
    let script: Script = match serde_json::from_value(case["script"].clone()) {
        Ok(s) => s,
        Err(e) => return vec![Fail::new("harness", format!("bad replay case: {}", e))],
    };
    let policy = if let Some(p) = case.get("prefix") {
        Policy::Prefix(serde_json::from_value(p.clone()).unwrap_or_default())
    } else {
        Policy::Vector(serde_json::from_value(case["vector"].clone()).unwrap_or_default())
    };
    let ex = execute(&script, &policy);
    if let Some(t) = ex.inconclusive {
        return vec![Fail::new("harness", t)];
    }
    ex.fails
}
