//! C02 — request parsing is faithful, segmentation-independent and round-trips.

use crate::common::http::*;
use crate::engine::{catch, hash_of, pt, show, Ctx, Fail};
use humphrey::http::Request;
use proptest::prelude::*;
use serde_json::{json, Value as J};

#[derive(Clone, Debug, PartialEq)]
pub struct Obs {
    pub method: String,
    pub uri: String,
    pub query: String,
    pub version: String,
    pub body: Option<Vec<u8>>,
    pub origin: String,
    pub proxies: Vec<String>,
    pub port: u16,
    pub cookies: Vec<(String, String)>,
    pub lists: Vec<(String, Vec<String>)>,
    pub firsts: Vec<Option<String>>,
    pub count: usize,
}

pub fn observe(r: &Request, names: &[String]) -> Obs {
    Obs {
        method: r.method.to_string(),
        uri: r.uri.clone(),
        query: r.query.clone(),
        version: r.version.clone(),
        body: r.content.clone(),
        origin: r.address.origin_addr.to_string(),
        proxies: r.address.proxies.iter().map(|p| p.to_string()).collect(),
        port: r.address.port,
        cookies: r.get_cookies().into_iter().map(|c| (c.name, c.value)).collect(),
        lists: names
            .iter()
            .map(|n| (n.clone(), r.headers.get_all(n.as_str()).into_iter().map(|s| s.to_string()).collect()))
            .collect(),
        firsts: names.iter().map(|n| r.headers.get(n.as_str()).map(|s| s.to_string())).collect(),
        count: r.headers.len(),
    }
}

/// parses `wire` delivered in reads of the given sizes: Ok(Ok((request, bytes consumed))) / Ok(Err(error text)) / Err(panic message)
pub type ParseFn<'a> = &'a (dyn Fn(&[u8], Vec<usize>, std::net::SocketAddr) -> Result<Result<(Request, usize), String>, String> + Sync);

#[cfg(not(hvt))]
pub fn parse_with(wire: &[u8], sizes: Vec<usize>, peer: std::net::SocketAddr) -> Result<Result<(Request, usize), String>, String> {
    catch(|| {
        let mut rd = PlanReader::new(wire.to_vec(), sizes);
        match Request::from_stream(&mut rd, peer) {
            Ok(r) => Ok((r, rd.consumed())),
            Err(e) => Err(format!("{:?}", e)),
        }
    })
}

/// plans for a wire message: whole, byte-wise, single splits (all if short, else biased sample), random multi-splits
pub fn plans_for(wire: &[u8], seed: u64) -> Vec<Plan> {
    if let Some(p) = plan_override() {
        return p;
    }
    let mut plans = vec![Plan::Whole, Plan::ByteWise];
    let n = wire.len();
    if n <= 300 {
        for k in 1..n {
            plans.push(Plan::SplitAt(k));
        }
    } else {
        let mut pts: Vec<usize> = Vec::new();
        // around every CRLF (up to a budget), the header/body boundary, BufReader refills
        let mut i = 0;
        while i + 1 < n && pts.len() < 40 {
            if wire[i] == b'\r' && wire[i + 1] == b'\n' {
                pts.push(i);
                pts.push(i + 1);
                pts.push(i + 2);
            }
            i += 1;
        }
        if let Some(hb) = wire.windows(4).position(|w| w == b"\r\n\r\n") {
            for d in 0..6 {
                pts.push(hb + d);
            }
        }
        for m in [8191usize, 8192, 8193, 8194, 16384, 16385] {
            pts.push(m);
        }
        let mut rng = crate::engine::Lcg(seed);
        while pts.len() < 64 {
            pts.push((rng.next() % n as u64) as usize);
        }
        pts.retain(|&k| k > 0 && k < n);
        pts.sort();
        pts.dedup();
        for k in pts {
            plans.push(Plan::SplitAt(k));
        }
    }
    // random multi-split plans
    let mut rng = crate::engine::Lcg(seed ^ 0xabcdef);
    for _ in 0..3 {
        let mut sizes = Vec::new();
        let max = [3u64, 17, 700][(rng.next() % 3) as usize];
        for _ in 0..40 {
            sizes.push(1 + (rng.next() % max) as usize);
        }
        plans.push(Plan::Sizes(sizes));
    }
    plans
}

fn addr_eq(a: &str, b: &str) -> bool {
    match (a.parse::<std::net::IpAddr>(), b.parse::<std::net::IpAddr>()) {
        (Ok(x), Ok(y)) => x == y,
        _ => a == b,
    }
}

/// compares an observation with what the spec denotes
fn faithful(spec: &ReqSpec, o: &Obs) -> Vec<Fail> {
    let mut f = Vec::new();
    if o.method != spec.method {
        f.push(fail!("method", "method {:?}, sent {:?}", o.method, spec.method));
    }
    if o.uri != spec.path {
        f.push(fail!("uri", "uri {:?}, sent path {:?}", o.uri, spec.path));
    }
    if o.query != spec.query.clone().unwrap_or_default() {
        f.push(fail!("query", "query {:?}, sent {:?}", o.query, spec.query));
    }
    if o.version != spec.version {
        f.push(fail!("version", "version {:?}, sent {:?}", o.version, spec.version));
    }
    if o.body != spec.body {
        f.push(fail!(
            "body",
            "body {:?}, sent {:?}",
            o.body.as_ref().map(|b| show(b)),
            spec.body.as_ref().map(|b| show(b))
        ));
    }
    // address
    let peer = spec.peer_addr();
    let (want_origin, want_proxies): (String, Vec<String>) = if spec.xff.is_empty() {
        (peer.ip().to_string(), vec![])
    } else {
        let mut p: Vec<String> = spec.xff[..spec.xff.len() - 1].to_vec();
        p.push(peer.ip().to_string());
        (spec.xff.last().unwrap().clone(), p)
    };
    if !addr_eq(&o.origin, &want_origin) || o.proxies.len() != want_proxies.len() || o.proxies.iter().zip(&want_proxies).any(|(a, b)| !addr_eq(a, b)) {
        let spaced = spec.headers.iter().any(|h| h.name.eq_ignore_ascii_case("x-forwarded-for") && h.value.contains(' '));
        f.push(fail!(
            if spaced { "address-xff-with-spaces" } else { "address" },
            "address origin={} proxies={:?}; X-Forwarded-For listed {:?} from peer {} so origin should be {} and proxies {:?}",
            o.origin,
            o.proxies,
            spec.xff,
            peer,
            want_origin,
            want_proxies
        ));
    }
    if o.port != peer.port() {
        f.push(fail!("port", "port {} but peer port {}", o.port, peer.port()));
    }
    if o.cookies != spec.cookies {
        f.push(fail!("cookies", "cookies {:?}, sent {:?}", o.cookies, spec.cookies));
    }
    let want = spec.header_lists();
    for ((n, got), (_, w)) in o.lists.iter().zip(&want) {
        if got != w {
            let mut a = got.clone();
            let mut b = w.clone();
            a.sort();
            b.sort();
            let sig = if a == b {
                "header-order"
            } else if got.iter().zip(w).any(|(g, x)| g != x && x.starts_with(|c: char| c.is_whitespace() && c != ' ' && c != '\t') && x.trim_start() == g) {
                "header-value-leading-unicode-space"
            } else {
                "header-values"
            };
            f.push(fail!(sig, "get_all({:?}) = {:?}, sent {:?}", n, got, w));
        }
    }
    for ((n, first), (_, w)) in names_zip(&o.lists, &o.firsts).zip(&want) {
        if first.as_ref() != w.first() {
            f.push(fail!("header-get-first", "get({:?}) = {:?}, first sent value {:?}", n, first, w.first()));
        }
    }
    if o.count != spec.headers.len() {
        f.push(fail!("header-count", "{} header fields parsed, {} sent", o.count, spec.headers.len()));
    }
    f
}

fn names_zip<'a>(lists: &'a [(String, Vec<String>)], firsts: &'a [Option<String>]) -> impl Iterator<Item = (&'a String, &'a Option<String>)> {
    lists.iter().map(|(n, _)| n).zip(firsts.iter())
}

#[cfg(not(hvt))]
pub fn check(spec: &ReqSpec, plan_seed: u64, ctx: Option<&Ctx>) -> Vec<Fail> {
    check_with(spec, plan_seed, ctx, &parse_with)
}

pub fn check_with(spec: &ReqSpec, plan_seed: u64, ctx: Option<&Ctx>, parse_with: ParseFn) -> Vec<Fail> {
    let wire = spec.render();
    let peer = spec.peer_addr();
    let names: Vec<String> = spec.header_lists().into_iter().map(|(n, _)| n).collect();
    let plans = plans_for(&wire, plan_seed);
    let mut fails = Vec::new();
    let mut base: Option<(Obs, Request)> = None;
    for plan in &plans {
        let r = parse_with(&wire, plan.sizes(wire.len()), peer);
        let (req, consumed) = match r {
            Err(p) => {
                fails.push(fail!("parse-panic", "Request::from_stream panicked under plan {:?}: {} on {}", plan, p, show(&wire)));
                return fails;
            }
            Ok(Err(e)) => {
                fails.push(fail!(
                    if base.is_some() { "segmentation-rejects" } else { "rejects-wellformed" },
                    "Request::from_stream returned {} under plan {:?} for well-formed {}",
                    e,
                    plan,
                    show(&wire)
                ));
                return fails;
            }
            Ok(Ok(x)) => x,
        };
        if consumed != wire.len() {
            fails.push(fail!("under-read", "parser consumed {} of {} bytes under plan {:?}", consumed, wire.len(), plan));
        }
        let o = observe(&req, &names);
        match &base {
            None => {
                fails.extend(faithful(spec, &o));
                base = Some((o, req));
            }
            Some((b, _)) => {
                if &o != b {
                    fails.push(fail!(
                        "segmentation-dependent",
                        "parse under plan {:?} differs from the all-at-once parse of {}: {:?} vs {:?}",
                        plan,
                        show(&wire),
                        o,
                        b
                    ));
                    return fails;
                }
            }
        }
        if !fails.is_empty() {
            return fails;
        }
    }
    if let Some(c) = ctx {
        c.label("plans", plans.len() as u64);
    }
    // round trip
    let (obs, req) = base.unwrap();
    let bytes = match catch(|| Vec::<u8>::from(req.clone())) {
        Ok(b) => b,
        Err(p) => {
            fails.push(fail!("serialise-panic", "Vec<u8>::from(Request) panicked: {}", p));
            return fails;
        }
    };
    match parse_request(&bytes) {
        Err(e) => fails.push(fail!(
            "roundtrip-invalid",
            "serialised request is not valid HTTP ({}): {}",
            e,
            show(&bytes)
        )),
        Ok(rr) => {
            let mut want_lists = spec.header_lists();
            let mut got_lists: Vec<(String, Vec<String>)> = Vec::new();
            for (n, v) in &rr.headers {
                if let Some(e) = got_lists.iter_mut().find(|(k, _)| k == n) {
                    e.1.push(v.clone());
                } else {
                    got_lists.push((n.clone(), vec![v.clone()]));
                }
            }
            want_lists.sort();
            got_lists.sort();
            if rr.method != spec.method || rr.target != spec.target() || rr.version != spec.version {
                fails.push(fail!(
                    "roundtrip-request-line",
                    "relayed request line {} {} {} differs from received {} {} {}",
                    rr.method,
                    rr.target,
                    rr.version,
                    spec.method,
                    spec.target(),
                    spec.version
                ));
            }
            if got_lists != want_lists {
                let reordered = {
                    let norm = |l: &Vec<(String, Vec<String>)>| {
                        let mut l = l.clone();
                        for e in l.iter_mut() {
                            e.1.sort();
                        }
                        l
                    };
                    norm(&got_lists) == norm(&want_lists)
                };
                fails.push(fail!(
                    if reordered { "roundtrip-header-order" } else { "roundtrip-headers" },
                    "relayed header fields differ from received ones (same-named order must be kept): relayed {:?} received {:?}",
                    got_lists,
                    want_lists
                ));
            }
            if rr.body != spec.body.clone().unwrap_or_default() {
                fails.push(fail!("roundtrip-body", "relayed body differs from received body"));
            }
            if !(rr.leftover.is_empty() || rr.leftover == b"\r\n") {
                fails.push(fail!("roundtrip-trailing-bytes", "serialised request is followed by stray bytes {}", show(&rr.leftover)));
            } else if !rr.leftover.is_empty() {
                if let Some(c) = ctx {
                    c.exclude("serialised header-less request carries one extra CRLF (RFC 7230 §3.5 lets recipients ignore it)", 1);
                }
            }
        }
    }
    // Humphrey parses its own serialisation back to an equal request
    match parse_with(&bytes, vec![usize::MAX], peer) {
        Err(p) => fails.push(fail!("parse-panic", "re-parsing the serialised request panicked: {}", p)),
        Ok(Err(e)) => fails.push(fail!("roundtrip-rejected", "Humphrey rejects its own serialisation ({}): {}", e, show(&bytes))),
        Ok(Ok((r2, _))) => {
            let o2 = observe(&r2, &names);
            if o2 != obs {
                let sig = if o2.lists != obs.lists { "roundtrip-header-order" } else { "roundtrip-differs" };
                fails.push(fail!(sig, "parse(serialise(r)) != r: {:?} vs {:?}", o2, obs));
            }
        }
    }
    fails
}

pub fn nontrivial(spec: &ReqSpec) -> (bool, Vec<&'static str>) {
    let mut labels = Vec::new();
    if spec.has_repeated_name() {
        labels.push("repeated-name");
    }
    if spec.headers.len() > 20 {
        labels.push(">20-headers");
    }
    if spec.body.as_ref().map_or(false, |b| !b.is_empty()) {
        labels.push("body");
    }
    if spec.body.as_ref().map_or(false, |b| b.len() > 8192) {
        labels.push("body>8KiB");
    }
    if !spec.xff.is_empty() {
        labels.push("xff");
    }
    if !spec.cookies.is_empty() {
        labels.push("cookie");
    }
    if spec.has_non_ascii() {
        labels.push("non-ascii-value");
    }
    if spec.query.is_some() {
        labels.push("query");
    }
    (!labels.is_empty() && labels != ["query"], labels)
}

pub fn spec_json(spec: &ReqSpec, seed: u64) -> J {
    json!({"spec": serde_json::to_value(spec).unwrap(), "plan_seed": seed.to_string(), "wire": show(&spec.render())})
}

#[cfg(not(hvt))]
pub fn run(ctx: &Ctx) {
    ctx.rule("ReqSpec generated from the supported HTTP/1.x grammar, rendered to bytes, parsed under read plans {whole, byte-wise, every single split (<=300 bytes) or 64 biased splits, 3 random multi-splits}; oracles: faithful to the spec, equal under every plan, serialisation accepted by the reference parser and re-parsed equal; non-trivial = repeated header name, >20 headers, non-empty body, X-Forwarded-For, Cookie or non-ASCII value; distinct by rendered bytes");
    ctx.assume("in-memory scripted reader gives exact control over read boundaries; reference request parser in common/http.rs is a correct strict RFC 7230 parser for the supported subset");
    ctx.exclude("header values with leading/trailing whitespace, obs-fold, absolute-form targets, Transfer-Encoding requests (outside the property's grammar)", 0);
    let cases = ctx.tier.pick(24_000u32, 400_000u32);
    crate::engine::shards(16, |i| {
        pt::run(
            ctx,
            "request",
            pt::Opts::new(cases / 16).salt(200 + i as u64),
            (arb_req(), any::<u64>()),
            |(s, seed)| spec_json(s, *seed),
            |(s, seed)| {
                let (nt, labels) = nontrivial(s);
                let wire = s.render();
                ctx.case(hash_of(&wire), nt, &labels);
                let class = labels.first().copied().unwrap_or("plain");
                ctx.sample(class, || json!({"wire": show(&wire), "peer": s.peer}));
                check(s, *seed, Some(ctx))
            },
        );
    });
}

#[cfg(not(hvt))]
pub fn replay(_ctx: &Ctx, _kind: &str, case: &J) -> Vec<Fail> {
    let spec: ReqSpec = match serde_json::from_value(case["spec"].clone()) {
        Ok(s) => s,
        Err(e) => return vec![Fail::new("harness", format!("bad replay case: {}", e))],
    };
    let seed = case["plan_seed"].as_str().and_then(|s| s.parse().ok()).unwrap_or(0);
    check(&spec, seed, None)
}
