//! C05 — `*` matches any character sequence, everything else matches only itself.
//! Oracle: humphrey::krauss::wildcard_match and <String as Route>::route_matches == reference DP glob matcher (both directions).

use crate::common::glob::{glob_match, glob_match_naive};
use crate::engine::{hash_of, pt, Ctx, Fail};
use proptest::prelude::*;
use serde_json::{json, Value as J};

pub fn check(p: &str, t: &str) -> Option<Fail> {
    let want = glob_match(p, t);
    // both public entry points: the matcher itself and the route-pattern entry point used when requests are routed
    for (entry, name) in [(0u8, "wildcard_match"), (1u8, "Route::route_matches")] {
        let got = match crate::engine::catch(|| {
            if entry == 0 {
                humphrey::krauss::wildcard_match(p, t)
            } else {
                use humphrey::route::Route;
                p.to_string().route_matches(t)
            }
        }) {
            Ok(g) => g,
            Err(m) => return Some(fail!("panic", "{}({:?},{:?}) panicked: {}", name, p, t, m)),
        };
        if got != want {
            let suffix = if entry == 0 { "" } else { ":route_matches" };
            return Some(if want {
                fail!(format!("false-negative{}", suffix), "{}({:?}, {:?}) = false but the text is an instance of the pattern", name, p, t)
            } else {
                fail!(format!("false-positive{}", suffix), "{}({:?}, {:?}) = true but the text is not an instance of the pattern", name, p, t)
            });
        }
    }
    None
}

/// non-trivial: the pattern has a `*` followed by a literal char that occurs at least twice in the
/// text (so a greedy/first-occurrence matcher has to reconsider where the star ends).
pub fn nontrivial(p: &str, t: &str) -> bool {
    let pc: Vec<char> = p.chars().collect();
    for i in 0..pc.len().saturating_sub(1) {
        if pc[i] == '*' && pc[i + 1] != '*' {
            let c = pc[i + 1];
            if t.chars().filter(|&x| x == c).count() >= 2 {
                return true;
            }
        }
    }
    false
}

fn all_strings(alpha: &[char], max_len: usize) -> Vec<String> {
    let mut out = vec![String::new()];
    let mut frontier = vec![String::new()];
    for _ in 0..max_len {
        let mut next = Vec::new();
        for s in &frontier {
            for &c in alpha {
                let mut n = s.clone();
                n.push(c);
                next.push(n);
            }
        }
        out.extend(next.iter().cloned());
        frontier = next;
    }
    out
}

fn exhaustive(ctx: &Ctx) {
    let alphabets: [(&str, char, char); 3] = [("ascii", 'a', 'b'), ("2-byte", 'é', 'b'), ("4-byte", 'a', '😀')];
    let results: std::sync::Mutex<Vec<(u64, Vec<u64>, Option<(Fail, String, String)>)>> =
        std::sync::Mutex::new(Vec::new());
    std::thread::scope(|s| {
        for (_name, a, b) in alphabets.iter().copied() {
            let results = &results;
            s.spawn(move || {
                let pats = all_strings(&['*', a, b], 6);
                // texts may contain `*` themselves: there it is an ordinary character that only a pattern `*` can absorb
                let mut texts = all_strings(&[a, b], 8);
                texts.extend(all_strings(&['*', a, b], 6).into_iter().filter(|t| t.contains('*')));
                let mut evals = 0u64;
                let mut nt = Vec::new();
                let mut first: Option<(Fail, String, String)> = None;
                for p in &pats {
                    for t in &texts {
                        evals += 1;
                        if nontrivial(p, t) {
                            nt.push(hash_of(&(p, t)));
                        }
                        if first.is_none() {
                            if let Some(f) = check(p, t) {
                                first = Some((f, p.clone(), t.clone()));
                            }
                        }
                    }
                }
                results.lock().unwrap().push((evals, nt, first));
            });
        }
    });
    // cross-check of the two reference formulations on the ASCII space (harness self-test)
    {
        let pats = all_strings(&['*', 'a', 'b'], 5);
        let texts = all_strings(&['a', 'b'], 6);
        for p in &pats {
            let pc: Vec<char> = p.chars().collect();
            for t in &texts {
                let tc: Vec<char> = t.chars().collect();
                if glob_match(p, t) != glob_match_naive(&pc, &tc) {
                    eprintln!("HARNESS ERROR: reference glob matchers disagree on {:?} {:?}", p, t);
                    std::process::exit(2);
                }
            }
        }
    }
    for (evals, nt, first) in results.into_inner().unwrap() {
        ctx.bulk(evals, nt);
        if let Some((f, p, t)) = first {
            if !ctx.tolerate(&f) {
                ctx.violation(f, "pair", json!({"pattern": p, "text": t}));
            }
        }
    }
    ctx.exhaustive_space("all patterns of length <=6 over {*,a,b} x (all texts of length <=8 over {a,b} + all texts of length <=6 over {*,a,b} that contain a `*`) (1093 x (511 + 966) pairs), repeated with a->é (2-byte) and with b->😀 (4-byte)");
    ctx.sample("exhaustive", || json!({"pattern": "*aab", "text": "aaab", "reference": true}));
}

const LITS: &[&str] = &["aab", "abab", ".example", "/a/a", "a", "b", "aa", "é", "éé", "😀", "/", "ab", "ba"];
/// what a `*` of the pattern stands for in the text: the literals above plus text that contains `*` itself
const FILLS: &[&str] = &["aab", "abab", ".example", "/a/a", "a", "b", "aa", "é", "éé", "😀", "/", "ab", "ba", "*", "*a", "a*", "**"];

#[derive(Clone, Debug)]
enum Piece {
    Star,
    Lit(u16),
}

fn piece() -> impl Strategy<Value = Piece> {
    prop_oneof![2 => Just(Piece::Star), 5 => any::<u16>().prop_map(Piece::Lit)]
}

/// (pattern pieces, per-star fill pieces, optional text mutation)
fn pair() -> impl Strategy<Value = (String, String)> {
    (
        proptest::collection::vec(piece(), 0..14),
        proptest::collection::vec(proptest::collection::vec(any::<u16>(), 0..5), 14),
        prop_oneof![
            3 => Just(0u8),   // matching by construction
            1 => Just(1u8),   // drop one char of the text
            1 => Just(2u8),   // insert one char
            1 => Just(3u8),   // independent text
        ],
        any::<u16>(),
        proptest::collection::vec(any::<u16>(), 0..10),
    )
        .prop_map(|(pieces, fills, mode, pos, indep)| {
            let mut pat = String::new();
            let mut text = String::new();
            let mut star_no = 0;
            for p in &pieces {
                match p {
                    Piece::Star => {
                        pat.push('*');
                        for l in &fills[star_no % fills.len()] {
                            text.push_str(FILLS[pt::idx(*l, FILLS.len())]);
                        }
                        star_no += 1;
                    }
                    Piece::Lit(i) => {
                        let l = LITS[pt::idx(*i, LITS.len())];
                        pat.push_str(l);
                        text.push_str(l);
                    }
                }
            }
            let mut chars: Vec<char> = text.chars().collect();
            match mode {
                1 if !chars.is_empty() => {
                    let k = pt::idx(pos, chars.len());
                    chars.remove(k);
                }
                2 => {
                    let k = pt::idx(pos, chars.len() + 1);
                    chars.insert(k, ['a', 'b', '*'][(pos % 3) as usize]);
                }
                3 => {
                    chars.clear();
                    for l in &indep {
                        chars.extend(FILLS[pt::idx(*l, FILLS.len())].chars());
                    }
                }
                _ => {}
            }
            (pat, chars.into_iter().collect())
        })
}

fn random(ctx: &Ctx) {
    let cases = ctx.tier.pick(50_000u32, 1_000_000u32);
    let nshards = 8usize;
    crate::engine::shards(nshards, |i| {
        pt::run(
            ctx,
            "pair",
            pt::Opts::new(cases / nshards as u32).salt(500 + i as u64),
            pair(),
            |(p, t)| json!({"pattern": p, "text": t}),
            |(p, t)| {
                let nt = nontrivial(p, t);
                let want = glob_match(p, t);
                ctx.case(
                    hash_of(&(p, t)),
                    nt,
                    &[if want { "random:matching" } else { "random:non-matching" }],
                );
                if nt {
                    ctx.sample(if want { "random-match" } else { "random-nonmatch" }, || {
                        json!({"pattern": p, "text": t, "reference": want})
                    });
                }
                check(p, t).into_iter().collect()
            },
        );
    });
}

pub fn run(ctx: &Ctx) {
    ctx.rule("exhaustive small (pattern,text) pairs over 3 alphabets (texts with and without a literal `*`) + random long pairs built from self-overlapping literals, the text's star fillings including `*` itself (half matching by construction, rest single-char mutants / independent); non-trivial = pattern has `*` followed by a literal char occurring >=2 times in the text; distinct by (pattern,text)");
    ctx.assume("reference DP glob matcher (cross-checked against a naive recursive matcher on all patterns<=5 x texts<=6) is correct");
    exhaustive(ctx);
    random(ctx);
}

pub fn replay(_ctx: &Ctx, _kind: &str, case: &J) -> Vec<Fail> {
    let p = case["pattern"].as_str().unwrap_or("");
    let t = case["text"].as_str().unwrap_or("");
    check(p, t).into_iter().collect()
}
