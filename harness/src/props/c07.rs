//! C07 — responses serialise to valid HTTP and parse back; the response parser (and the client)
//! returns exactly what a conforming server sent, for Content-Length and chunked framing under
//! every chunking and read segmentation; redirects end at the final response.

use crate::common::http::*;
use crate::engine::{catch, hash_of, pt, show, Ctx, Fail};
use humphrey::http::cookie::{SameSite, SetCookie};
use humphrey::http::{Response, StatusCode};
use proptest::prelude::*;
use serde::{Deserialize, Serialize};
use serde_json::{json, Value as J};
use std::convert::TryFrom;
use std::time::Duration;

/// status codes Humphrey models (derived from StatusCode::try_from, so the list follows the code)
pub fn modelled_codes() -> Vec<u16> {
    (100u16..600).filter(|c| StatusCode::try_from(*c).is_ok()).collect()
}

/// registered reason phrases (RFC 2616 / 7231 / 9110 spellings all count)
pub fn registered_reasons(code: u16) -> &'static [&'static str] {
    match code {
        100 => &["Continue"],
        101 => &["Switching Protocols"],
        200 => &["OK"],
        201 => &["Created"],
        202 => &["Accepted"],
        203 => &["Non-Authoritative Information"],
        204 => &["No Content"],
        205 => &["Reset Content"],
        206 => &["Partial Content"],
        300 => &["Multiple Choices"],
        301 => &["Moved Permanently"],
        302 => &["Found"],
        303 => &["See Other"],
        304 => &["Not Modified"],
        305 => &["Use Proxy"],
        307 => &["Temporary Redirect"],
        400 => &["Bad Request"],
        401 => &["Unauthorized"],
        402 => &["Payment Required"],
        403 => &["Forbidden"],
        404 => &["Not Found"],
        405 => &["Method Not Allowed"],
        406 => &["Not Acceptable"],
        407 => &["Proxy Authentication Required"],
        408 => &["Request Timeout", "Request Time-out"],
        409 => &["Conflict"],
        410 => &["Gone"],
        411 => &["Length Required"],
        412 => &["Precondition Failed"],
        413 => &["Request Entity Too Large", "Payload Too Large", "Content Too Large"],
        414 => &["Request-URI Too Long", "Request-URI Too Large", "URI Too Long"],
        415 => &["Unsupported Media Type"],
        416 => &["Requested Range Not Satisfiable", "Requested range not satisfiable", "Range Not Satisfiable"],
        417 => &["Expectation Failed"],
        500 => &["Internal Server Error"],
        501 => &["Not Implemented"],
        502 => &["Bad Gateway"],
        503 => &["Service Unavailable"],
        504 => &["Gateway Timeout", "Gateway Time-out"],
        505 => &["HTTP Version Not Supported", "HTTP Version not supported"],
        _ => &[],
    }
}

// ------------------------------------------------------------------------------------ (i) builder side

#[derive(Clone, Debug, Serialize, Deserialize)]
pub struct CookieSpec {
    pub name: String,
    pub value: String,
    pub expires: Option<String>,
    pub max_age: Option<u64>,
    pub domain: Option<String>,
    pub path: Option<String>,
    pub secure: bool,
    pub http_only: bool,
    /// 0 none, 1 Strict, 2 Lax, 3 None
    pub same_site: u8,
}

impl CookieSpec {
    fn build(&self) -> SetCookie {
        let mut c = SetCookie::new(&self.name, &self.value);
        if let Some(e) = &self.expires {
            c = c.with_expires(e);
        }
        if let Some(m) = self.max_age {
            c = c.with_max_age(Duration::from_secs(m));
        }
        if let Some(d) = &self.domain {
            c = c.with_domain(d);
        }
        if let Some(p) = &self.path {
            c = c.with_path(p);
        }
        c = c.with_secure(self.secure).with_http_only(self.http_only);
        match self.same_site {
            1 => c = c.with_same_site(SameSite::Strict),
            2 => c = c.with_same_site(SameSite::Lax),
            3 => c = c.with_same_site(SameSite::None),
            _ => {}
        }
        c
    }
    fn n_attrs(&self) -> usize {
        self.expires.is_some() as usize + self.max_age.is_some() as usize + self.domain.is_some() as usize + self.path.is_some() as usize + self.secure as usize + self.http_only as usize + (self.same_site != 0) as usize
    }
    /// expected attribute set, RFC 6265 §4.1.1 syntax, order-free
    fn expected_attrs(&self) -> Vec<String> {
        let mut v = Vec::new();
        if let Some(e) = &self.expires {
            v.push(format!("expires={}", e));
        }
        if let Some(m) = self.max_age {
            v.push(format!("max-age={}", m));
        }
        if let Some(d) = &self.domain {
            v.push(format!("domain={}", d));
        }
        if let Some(p) = &self.path {
            v.push(format!("path={}", p));
        }
        if self.secure {
            v.push("secure".into());
        }
        if self.http_only {
            v.push("httponly".into());
        }
        match self.same_site {
            1 => v.push("samesite=Strict".into()),
            2 => v.push("samesite=Lax".into()),
            3 => v.push("samesite=None".into()),
            _ => {}
        }
        v.sort();
        v
    }
}

#[derive(Clone, Debug, Serialize, Deserialize)]
pub enum BuildItem {
    Header(String, String),
    Cookie(CookieSpec),
}

#[derive(Clone, Debug, Serialize, Deserialize)]
pub struct BuildSpec {
    pub status: u16,
    pub items: Vec<BuildItem>,
    pub body: Vec<u8>,
    /// add Content-Length the way the server does
    pub with_content_length: bool,
}

fn build(spec: &BuildSpec) -> Response {
    let status = StatusCode::try_from(spec.status).ok().unwrap();
    let mut r = if spec.body.is_empty() { Response::empty(status) } else { Response::new(status, &spec.body) };
    for it in &spec.items {
        match it {
            BuildItem::Header(n, v) => r = r.with_header(n.as_str(), v),
            BuildItem::Cookie(c) => r = r.with_cookie(c.build()),
        }
    }
    if spec.with_content_length {
        r = r.with_header("Content-Length", spec.body.len().to_string());
    }
    r
}

/// expected (lower-case name, value) pairs in build order; cookies as ("set-cookie", spec index)
fn expected_fields(spec: &BuildSpec) -> Vec<(String, Option<String>, Option<usize>)> {
    let mut v = Vec::new();
    for (i, it) in spec.items.iter().enumerate() {
        match it {
            BuildItem::Header(n, val) => v.push((n.to_ascii_lowercase(), Some(val.clone()), None)),
            BuildItem::Cookie(_) => v.push(("set-cookie".to_string(), None, Some(i))),
        }
    }
    if spec.with_content_length {
        v.push(("content-length".into(), Some(spec.body.len().to_string()), None));
    }
    v
}

fn lists_of(h: &[(String, String)]) -> Vec<(String, Vec<String>)> {
    let mut out: Vec<(String, Vec<String>)> = Vec::new();
    for (n, v) in h {
        if let Some(e) = out.iter_mut().find(|(k, _)| k == n) {
            e.1.push(v.clone());
        } else {
            out.push((n.clone(), vec![v.clone()]));
        }
    }
    out.sort();
    out
}

fn check_cookie_line(line: &str, c: &CookieSpec) -> Option<String> {
    let mut parts = line.split("; ");
    let first = parts.next().unwrap_or("");
    if first != format!("{}={}", c.name, c.value) {
        return Some(format!("cookie-pair {:?} != {}={}", first, c.name, c.value));
    }
    let mut attrs: Vec<String> = Vec::new();
    for p in parts {
        let (k, v) = match p.split_once('=') {
            Some((k, v)) => (k, Some(v)),
            None => (p, None),
        };
        let kl = k.to_ascii_lowercase();
        if !["expires", "max-age", "domain", "path", "secure", "httponly", "samesite"].contains(&kl.as_str()) {
            return Some(format!("unknown cookie attribute {:?}", p));
        }
        attrs.push(match v {
            Some(v) => format!("{}={}", kl, v),
            None => kl,
        });
    }
    attrs.sort();
    if attrs != c.expected_attrs() {
        return Some(format!("attributes {:?} != expected {:?}", attrs, c.expected_attrs()));
    }
    None
}

pub fn check_build(spec: &BuildSpec) -> Vec<Fail> {
    let mut fails = Vec::new();
    let bytes = match catch(|| Vec::<u8>::from(build(spec))) {
        Ok(b) => b,
        Err(p) => return vec![fail!("serialise-panic", "Vec<u8>::from(Response) panicked: {}", p)],
    };
    let parsed = match parse_response(&bytes, true) {
        RespParse::Complete(r) => r,
        other => {
            return vec![fail!(
                "serialise-invalid",
                "serialised response is not a valid HTTP/1.1 message ({:?}): {}",
                other,
                show(&bytes)
            )]
        }
    };
    if parsed.version != "HTTP/1.1" {
        fails.push(fail!("serialise-version", "version {:?}", parsed.version));
    }
    if parsed.status != spec.status {
        fails.push(fail!("serialise-status", "status {} != built {}", parsed.status, spec.status));
    }
    if !registered_reasons(spec.status).contains(&parsed.reason.as_str()) {
        fails.push(fail!(
            "serialise-reason",
            "reason phrase {:?} is not the registered phrase for {} ({:?})",
            parsed.reason,
            spec.status,
            registered_reasons(spec.status)
        ));
    }
    // one line per header / Set-Cookie; per-name order
    let exp = expected_fields(spec);
    if parsed.headers.len() != exp.len() {
        fails.push(fail!("serialise-header-count", "{} header lines for {} headers/cookies", parsed.headers.len(), exp.len()));
    }
    let mut exp_lists: Vec<(String, Vec<(Option<String>, Option<usize>)>)> = Vec::new();
    for (n, v, c) in &exp {
        if let Some(e) = exp_lists.iter_mut().find(|(k, _)| k == n) {
            e.1.push((v.clone(), *c));
        } else {
            exp_lists.push((n.clone(), vec![(v.clone(), *c)]));
        }
    }
    for (name, want) in &exp_lists {
        let got: Vec<&String> = parsed.headers.iter().filter(|(n, _)| n == name).map(|(_, v)| v).collect();
        if got.len() != want.len() {
            fails.push(fail!("serialise-header-lines", "{} lines named {:?}, built {}", got.len(), name, want.len()));
            continue;
        }
        for (g, (v, c)) in got.iter().zip(want) {
            if let Some(v) = v {
                if *g != v {
                    fails.push(fail!("serialise-header-value", "header {:?}: line value {:?}, built {:?}", name, g, v));
                }
            } else if let Some(ci) = c {
                if let BuildItem::Cookie(cs) = &spec.items[*ci] {
                    if let Some(e) = check_cookie_line(g, cs) {
                        fails.push(fail!("serialise-set-cookie", "Set-Cookie line {:?} for {:?}: {}", g, cs, e));
                    }
                }
            }
        }
    }
    // body / framing
    let leftover = &bytes[parsed.consumed..];
    let body_ok = if spec.with_content_length {
        parsed.body == spec.body
    } else {
        // close-delimited reading: everything after the blank line
        parsed.body == spec.body || (parsed.body.len() == spec.body.len() + 2 && parsed.body.ends_with(b"\r\n") && parsed.body.starts_with(&spec.body))
    };
    if !body_ok {
        fails.push(fail!("serialise-body", "body bytes differ from the built body"));
    }
    let stray = if spec.with_content_length { leftover.to_vec() } else { parsed.body[spec.body.len().min(parsed.body.len())..].to_vec() };
    if !stray.is_empty() {
        if stray == b"\r\n" && !spec.body.is_empty() {
            fails.push(fail!("crlf-after-body", "two stray bytes \\r\\n follow the {}-byte body (beyond Content-Length)", spec.body.len()));
        } else {
            fails.push(fail!("serialise-trailing-bytes", "stray bytes after the message: {}", show(&stray)));
        }
    }
    // parse back (only claimed with the Content-Length the server adds, or an empty body)
    if spec.with_content_length || spec.body.is_empty() {
        match catch(|| {
            let mut rd = PlanReader::new(bytes.clone(), vec![usize::MAX]);
            Response::from_stream(&mut rd)
        }) {
            Err(p) => fails.push(fail!("parse-panic", "Response::from_stream panicked on the serialised response: {}", p)),
            Ok(Err(e)) => fails.push(fail!("parse-back-rejected", "Response::from_stream rejects the serialised response ({:?}): {}", e, show(&bytes))),
            Ok(Ok(r)) => {
                let got: Vec<(String, String)> = {
                    // raw order per name via get_all
                    let mut names: Vec<String> = exp.iter().map(|(n, _, _)| n.clone()).collect();
                    names.dedup();
                    let mut seen = std::collections::BTreeSet::new();
                    let mut v = Vec::new();
                    for n in names {
                        if seen.insert(n.clone()) {
                            for val in r.headers.get_all(n.as_str()) {
                                v.push((n.clone(), val.to_string()));
                            }
                        }
                    }
                    v
                };
                if r.version != "HTTP/1.1" || u16::from(r.status_code) != spec.status {
                    fails.push(fail!("parse-back-status", "parsed back {} {}", r.version, u16::from(r.status_code)));
                }
                if lists_of(&got) != lists_of(&parsed.headers) || r.headers.len() != parsed.headers.len() {
                    fails.push(fail!("parse-back-headers", "headers parsed back {:?} differ from the serialised ones {:?}", lists_of(&got), lists_of(&parsed.headers)));
                }
                if r.body != spec.body {
                    fails.push(fail!("parse-back-body", "body parsed back differs"));
                }
            }
        }
    }
    fails
}

fn arb_cookie() -> impl Strategy<Value = CookieSpec> {
    (
        "[A-Za-z_][A-Za-z0-9_]{0,8}",
        "[A-Za-z0-9_.%/+-]{0,16}",
        proptest::option::of(prop_oneof![Just("Wed, 21 Oct 2015 07:28:00 GMT".to_string()), Just("Thu, 01 Jan 1970 00:00:00 GMT".to_string())]),
        proptest::option::of(prop_oneof![Just(0u64), Just(1), Just(3600), any::<u32>().prop_map(|x| x as u64)]),
        proptest::option::of("[a-z]{1,8}\\.(com|org|dev)"),
        proptest::option::of("/[a-z/]{0,8}"),
        any::<bool>(),
        any::<bool>(),
        0u8..4,
    )
        .prop_map(|(name, value, expires, max_age, domain, path, secure, http_only, same_site)| CookieSpec { name, value, expires, max_age, domain, path, secure, http_only, same_site })
}

pub fn arb_build() -> impl Strategy<Value = BuildSpec> {
    let item = prop_oneof![
        5 => (arb_header_name(), arb_header_value()).prop_map(|(n, v)| BuildItem::Header(n, v)),
        2 => arb_cookie().prop_map(BuildItem::Cookie),
    ];
    (
        any::<u16>(),
        prop_oneof![6 => proptest::collection::vec(item.clone(), 0..8), 2 => proptest::collection::vec(item, 18..41)],
        arb_body(),
        any::<bool>(),
    )
        .prop_map(|(ci, items, body, wcl)| {
            let codes = modelled_codes();
            let items = items
                .into_iter()
                .filter(|it| match it {
                    BuildItem::Header(n, _) => {
                        let l = n.to_ascii_lowercase();
                        l != "content-length" && l != "transfer-encoding" && l != "set-cookie"
                    }
                    _ => true,
                })
                .collect();
            let status = codes[pt::idx(ci, codes.len())];
            let body = if status_has_body(status) { body } else { Vec::new() };
            BuildSpec { status, items, body, with_content_length: wcl }
        })
}

fn builder_exhaustive(ctx: &Ctx) {
    // every StatusCode x {empty, non-empty body} and every Set-Cookie attribute combination
    let codes = modelled_codes();
    let mut n = 0u64;
    let mut first: Option<(Fail, J)> = None;
    for &code in &codes {
        for body in [&b""[..], &b"hello"[..]] {
            for wcl in [false, true] {
                if !body.is_empty() && !status_has_body(code) {
                    ctx.exclude("1xx/204/304 built with a body (these statuses never carry one)", 1);
                    continue;
                }
                let spec = BuildSpec { status: code, items: vec![BuildItem::Header("X-A".into(), "1".into())], body: body.to_vec(), with_content_length: wcl };
                n += 1;
                for f in check_build(&spec) {
                    if !ctx.tolerate(&f) && first.is_none() {
                        first = Some((f, serde_json::to_value(&spec).unwrap()));
                    }
                }
            }
        }
    }
    for mask in 0u32..(1 << 6) {
        for ss in 0u8..4 {
            let c = CookieSpec {
                name: "sid".into(),
                value: "abc123".into(),
                expires: if mask & 1 != 0 { Some("Wed, 21 Oct 2015 07:28:00 GMT".into()) } else { None },
                max_age: if mask & 2 != 0 { Some(3600) } else { None },
                domain: if mask & 4 != 0 { Some("example.com".into()) } else { None },
                path: if mask & 8 != 0 { Some("/app".into()) } else { None },
                secure: mask & 16 != 0,
                http_only: mask & 32 != 0,
                same_site: ss,
            };
            let spec = BuildSpec { status: 200, items: vec![BuildItem::Cookie(c.clone()), BuildItem::Header("X-B".into(), "2".into()), BuildItem::Cookie(c)], body: b"x".to_vec(), with_content_length: true };
            n += 1;
            for f in check_build(&spec) {
                if !ctx.tolerate(&f) && first.is_none() {
                    first = Some((f, serde_json::to_value(&spec).unwrap()));
                }
            }
        }
    }
    ctx.bulk_n(n, n);
    ctx.exhaustive_space(&format!("builder: every modelled StatusCode ({} codes) x empty/non-empty body x with/without Content-Length; every Set-Cookie attribute combination (2^6 x 4 SameSite)", codes.len()));
    if let Some((f, case)) = first {
        ctx.violation(f, "build", case);
    }
}

// ------------------------------------------------------------------------------------ (ii) wire side

#[derive(Clone, Debug, Serialize, Deserialize, PartialEq)]
pub enum FramingSpec {
    /// no body, no framing header (status without body, or empty)
    None,
    ContentLength,
    /// chunk sizes (sum = body length; empty body = no data chunks), upper-case hex?, leading zeros?
    Chunked(Vec<usize>, bool, bool),
}

#[derive(Clone, Debug, Serialize, Deserialize, PartialEq)]
pub struct RespSpec {
    pub version: String,
    pub status: u16,
    pub reason: String,
    pub headers: Vec<HeaderSpec>,
    pub body: Vec<u8>,
    pub framing: FramingSpec,
    /// position (among headers) of the framing header
    pub framing_at: usize,
}

impl RespSpec {
    pub fn render(&self) -> Vec<u8> {
        let mut out = Vec::new();
        out.extend_from_slice(format!("{} {} {}\r\n", self.version, self.status, self.reason).as_bytes());
        let at = self.framing_at.min(self.headers.len());
        let framing_line: Option<String> = match &self.framing {
            FramingSpec::None => None,
            FramingSpec::ContentLength => Some(format!("Content-Length: {}\r\n", self.body.len())),
            FramingSpec::Chunked(..) => Some("Transfer-Encoding: chunked\r\n".to_string()),
        };
        for (i, h) in self.headers.iter().enumerate() {
            if i == at {
                if let Some(l) = &framing_line {
                    out.extend_from_slice(l.as_bytes());
                }
            }
            out.extend_from_slice(format!("{}:{}{}\r\n", h.name, h.ows, h.value).as_bytes());
        }
        if at >= self.headers.len() {
            if let Some(l) = &framing_line {
                out.extend_from_slice(l.as_bytes());
            }
        }
        out.extend_from_slice(b"\r\n");
        match &self.framing {
            FramingSpec::None => {}
            FramingSpec::ContentLength => out.extend_from_slice(&self.body),
            FramingSpec::Chunked(sizes, upper, zeros) => {
                let mut p = 0;
                for &s in sizes {
                    let hexs = if *upper { format!("{:X}", s) } else { format!("{:x}", s) };
                    let hexs = if *zeros { format!("0{}", hexs) } else { hexs };
                    out.extend_from_slice(hexs.as_bytes());
                    out.extend_from_slice(b"\r\n");
                    out.extend_from_slice(&self.body[p..p + s]);
                    out.extend_from_slice(b"\r\n");
                    p += s;
                }
                out.extend_from_slice(b"0\r\n\r\n");
            }
        }
        out
    }
    /// what a faithful parser returns: per-name header lists (TE replaced by Content-Length for chunked)
    pub fn expected_lists(&self) -> Vec<(String, Vec<String>)> {
        let mut h: Vec<(String, String)> = self.headers.iter().map(|h| (h.name.to_ascii_lowercase(), h.value.clone())).collect();
        match self.framing {
            FramingSpec::None => {}
            _ => h.push(("content-length".into(), self.body.len().to_string())),
        }
        lists_of(&h)
    }
    pub fn n_chunks(&self) -> usize {
        match &self.framing {
            FramingSpec::Chunked(s, ..) => s.len(),
            _ => 0,
        }
    }
}

pub fn status_has_body(code: u16) -> bool {
    !((100..200).contains(&code) || code == 204 || code == 304)
}

pub fn check_wire(spec: &RespSpec, plan_seed: u64, ctx: Option<&Ctx>) -> Vec<Fail> {
    let wire = spec.render();
    // generator self-check: the reference parser must read the spec back
    match parse_response(&wire, true) {
        RespParse::Complete(r) if r.body == spec.body && r.status == spec.status && r.consumed == wire.len() => {}
        other => {
            eprintln!("HARNESS ERROR: reference response parser does not read back a generated response: {:?}\n{}", other, show(&wire));
            std::process::exit(2);
        }
    }
    let names: Vec<String> = spec.expected_lists().into_iter().map(|(n, _)| n).collect();
    let plans = crate::props::c02::plans_for(&wire, plan_seed);
    if let Some(c) = ctx {
        c.label("plans", plans.len() as u64);
    }
    for plan in &plans {
        let r = catch(|| {
            let mut rd = PlanReader::new(wire.clone(), plan.sizes(wire.len()));
            Response::from_stream(&mut rd).map(|r| (r, rd.consumed()))
        });
        let (r, consumed) = match r {
            Err(p) => return vec![fail!("parse-panic", "Response::from_stream panicked under {:?}: {} on {}", plan, p, show(&wire))],
            Ok(Err(e)) => {
                return vec![fail!(
                    if matches!(plan, Plan::Whole) { "rejects-conforming" } else { "segmentation-rejects" },
                    "Response::from_stream returned {:?} under {:?} for conforming {}",
                    e,
                    plan,
                    show(&wire)
                )]
            }
            Ok(Ok(x)) => x,
        };
        let mut fails = Vec::new();
        if r.version != spec.version {
            fails.push(fail!("version", "version {:?}, sent {:?}", r.version, spec.version));
        }
        if u16::from(r.status_code) != spec.status {
            fails.push(fail!("status", "status {}, sent {}", u16::from(r.status_code), spec.status));
        }
        if r.body != spec.body {
            fails.push(fail!(
                if spec.n_chunks() > 0 { "chunked-body" } else { "body" },
                "body {} ({} bytes), sent {} ({} bytes) [{:?}]",
                show(&r.body),
                r.body.len(),
                show(&spec.body),
                spec.body.len(),
                spec.framing
            ));
        }
        let mut got: Vec<(String, String)> = Vec::new();
        for n in &names {
            for v in r.headers.get_all(n.as_str()) {
                got.push((n.clone(), v.to_string()));
            }
        }
        let want = spec.expected_lists();
        let total: usize = want.iter().map(|(_, v)| v.len()).sum();
        if lists_of(&got) != want || r.headers.len() != total {
            let leading = spec.headers.iter().any(|h| h.value.starts_with(|c: char| c.is_whitespace()));
            fails.push(fail!(
                if leading { "header-value-leading-unicode-space" } else { "headers" },
                "headers {:?} (count {}), sent {:?}",
                lists_of(&got),
                r.headers.len(),
                want
            ));
        }
        if consumed != wire.len() {
            fails.push(fail!("under-read", "parser consumed {} of {} bytes", consumed, wire.len()));
        }
        if !fails.is_empty() {
            if !matches!(plan, Plan::Whole) {
                for f in fails.iter_mut() {
                    f.detail = format!("under plan {:?}: {}", plan, f.detail);
                }
            }
            return fails;
        }
    }
    Vec::new()
}

fn compositions(n: usize) -> Vec<Vec<usize>> {
    // all ways to cut n bytes into ordered non-empty chunks: 2^(n-1)
    if n == 0 {
        return vec![vec![]];
    }
    let mut out = Vec::new();
    for mask in 0u32..(1 << (n - 1)) {
        let mut sizes = Vec::new();
        let mut cur = 1;
        for i in 0..n - 1 {
            if mask & (1 << i) != 0 {
                sizes.push(cur);
                cur = 1;
            } else {
                cur += 1;
            }
        }
        sizes.push(cur);
        out.push(sizes);
    }
    out
}

fn arb_reason() -> impl Strategy<Value = String> {
    prop_oneof![
        4 => Just(None),
        1 => Just(Some("".to_string())),
        1 => "[A-Za-z][A-Za-z '-]{0,20}[a-z]".prop_map(Some),
        1 => Just(Some("Très bien".to_string())),
    ]
    .prop_map(|o| o.unwrap_or_else(|| "\u{1}".to_string()))
}

pub fn arb_resp() -> impl Strategy<Value = RespSpec> {
    (
        any::<u16>(),
        arb_reason(),
        prop_oneof![3 => Just("HTTP/1.1"), 1 => Just("HTTP/1.0")],
        prop_oneof![8 => proptest::collection::vec((arb_header_name(), arb_ows(), arb_header_value()), 0..8), 2 => proptest::collection::vec((arb_header_name(), arb_ows(), arb_header_value()), 18..41)],
        arb_body(),
        prop_oneof![2 => Just(0u8), 3 => Just(1u8)],
        proptest::collection::vec(any::<u16>(), 0..8),
        any::<bool>(),
        any::<bool>(),
        any::<u16>(),
    )
        .prop_map(|(ci, reason, version, hs, body, framing, cuts, upper, zeros, at)| {
            let codes = modelled_codes();
            let status = codes[pt::idx(ci, codes.len())];
            let reason = if reason == "\u{1}" { registered_reasons(status)[0].to_string() } else { reason };
            let headers: Vec<HeaderSpec> = hs
                .into_iter()
                .filter(|(n, _, _)| {
                    let l = n.to_ascii_lowercase();
                    l != "content-length" && l != "transfer-encoding"
                })
                .map(|(name, ows, value)| HeaderSpec { name, ows, value })
                .collect();
            let (body, framing) = if !status_has_body(status) {
                (Vec::new(), FramingSpec::None)
            } else if framing == 0 {
                (body, FramingSpec::ContentLength)
            } else {
                // cut points -> chunk sizes
                let mut pts: Vec<usize> = cuts.iter().map(|c| pt::idx(*c, body.len() + 1)).filter(|&p| p > 0 && p < body.len()).collect();
                pts.sort();
                pts.dedup();
                let mut sizes = Vec::new();
                let mut prev = 0;
                for p in pts {
                    sizes.push(p - prev);
                    prev = p;
                }
                if body.len() > prev {
                    sizes.push(body.len() - prev);
                }
                (body, FramingSpec::Chunked(sizes, upper, zeros))
            };
            let framing_at = pt::idx(at, headers.len() + 1);
            RespSpec { version: version.to_string(), status, reason, headers, body, framing, framing_at }
        })
}

fn wire_exhaustive(ctx: &Ctx) {
    // every composition of bodies of 0..=6 bytes into chunks, under every plan the plan generator yields
    let bodies: Vec<Vec<u8>> = vec![
        vec![],
        b"a".to_vec(),
        b"ab".to_vec(),
        b"\r\n\r".to_vec(),
        b"0\r\n\r".to_vec(),
        b"hello".to_vec(),
        b"\x00\xff\r\n0\r".to_vec(),
        b"abcdef".to_vec(),
    ];
    let mut n = 0u64;
    let mut nt = 0u64;
    let mut first: Option<(Fail, J)> = None;
    for body in &bodies {
        for sizes in compositions(body.len()) {
            for (upper, zeros) in [(false, false), (true, true)] {
                let spec = RespSpec {
                    version: "HTTP/1.1".into(),
                    status: 200,
                    reason: "OK".into(),
                    headers: vec![HeaderSpec { name: "Content-Type".into(), ows: " ".into(), value: "text/plain".into() }],
                    body: body.clone(),
                    framing: FramingSpec::Chunked(sizes.clone(), upper, zeros),
                    framing_at: 1,
                };
                n += 1;
                if sizes.len() >= 2 {
                    nt += 1;
                }
                for f in check_wire(&spec, 7, None) {
                    if !ctx.tolerate(&f) && first.is_none() {
                        first = Some((f, json!({"spec": serde_json::to_value(&spec).unwrap(), "plan_seed": "7"})));
                    }
                }
            }
        }
    }
    ctx.bulk_n(n, nt);
    ctx.exhaustive_space("chunked: every composition of 8 bodies of 0..6 bytes into chunks (2^(n-1) each) x lower/upper-case hex sizes, each under whole / byte-wise / every single split point / 3 random multi-split read plans");
    if let Some((f, case)) = first {
        ctx.violation(f, "wire", case);
    }
}

pub fn run(ctx: &Ctx) {
    ctx.rule("(i) responses built through the public API (every StatusCode, 0..40 headers incl. repeated names, Set-Cookie attribute combinations, bodies 0..64 KiB) serialised and validated by a strict reference response parser, then parsed back; (ii) conforming responses rendered by a reference encoder (Content-Length or chunked in generated/exhaustive chunkings, either hex case) parsed by Response::from_stream under whole/byte-wise/single-split/random read plans; (iii) Client against scripted loopback servers with redirect chains. Non-trivial: repeated header name, Set-Cookie with >=2 attributes, >=2 chunks, redirect chain >=2; distinct by serialised bytes");
    ctx.assume("reference response parser/encoder in common/http.rs; in-memory scripted reader models read boundaries exactly");
    builder_exhaustive(ctx);
    wire_exhaustive(ctx);
    let cases = ctx.tier.pick(8_000u32, 200_000u32);
    crate::engine::shards(8, |i| {
        pt::run(
            ctx,
            "build",
            pt::Opts::new(cases / 8).salt(700 + i as u64),
            arb_build(),
            |s| serde_json::to_value(s).unwrap(),
            |s| {
                let repeated = {
                    let mut names: Vec<String> = s.items.iter().map(|it| match it { BuildItem::Header(n, _) => n.to_ascii_lowercase(), BuildItem::Cookie(_) => "set-cookie".into() }).collect();
                    let n0 = names.len();
                    names.sort();
                    names.dedup();
                    names.len() < n0
                };
                let cookie2 = s.items.iter().any(|it| matches!(it, BuildItem::Cookie(c) if c.n_attrs() >= 2));
                let mut labels = vec!["build"];
                if repeated {
                    labels.push("build:repeated-name");
                }
                if cookie2 {
                    labels.push("build:cookie>=2attrs");
                }
                if s.with_content_length {
                    labels.push("build:with-content-length");
                }
                ctx.case(hash_of(&format!("{:?}", s)), repeated || cookie2, &labels);
                ctx.sample(labels.last().unwrap(), || json!({"status": s.status, "items": s.items.len(), "body_len": s.body.len(), "serialised": show(&Vec::<u8>::from(build(s)))}));
                check_build(s)
            },
        );
    });
    crate::engine::shards(8, |i| {
        pt::run(
            ctx,
            "wire",
            pt::Opts::new(cases / 8).salt(750 + i as u64),
            (arb_resp(), any::<u64>()),
            |(s, seed)| json!({"spec": serde_json::to_value(s).unwrap(), "plan_seed": seed.to_string()}),
            |(s, seed)| {
                let wire = s.render();
                let repeated = {
                    let l = s.expected_lists();
                    l.iter().any(|(_, v)| v.len() > 1)
                };
                let mut labels = vec!["wire"];
                if s.n_chunks() >= 2 {
                    labels.push("wire:chunks>=2");
                }
                if matches!(s.framing, FramingSpec::Chunked(..)) {
                    labels.push("wire:chunked");
                }
                if repeated {
                    labels.push("wire:repeated-name");
                }
                ctx.case(hash_of(&wire), repeated || s.n_chunks() >= 2, &labels);
                ctx.sample(labels.last().unwrap(), || json!({"wire": show(&wire)}));
                check_wire(s, *seed, Some(ctx))
            },
        );
    });
    run_client(ctx);
}

pub fn replay(_ctx: &Ctx, kind: &str, case: &J) -> Vec<Fail> {
    match kind {
        "client" => match serde_json::from_value::<ClientCase>(case.clone()) {
            Ok(c) => check_client(&c, 15),
            Err(e) => vec![Fail::new("harness", format!("bad replay case: {}", e))],
        },
        "build" => match serde_json::from_value::<BuildSpec>(case.clone()) {
            Ok(s) => check_build(&s),
            Err(e) => vec![Fail::new("harness", format!("bad replay case: {}", e))],
        },
        "wire" => match serde_json::from_value::<RespSpec>(case["spec"].clone()) {
            Ok(s) => check_wire(&s, case["plan_seed"].as_str().and_then(|x| x.parse().ok()).unwrap_or(0), None),
            Err(e) => vec![Fail::new("harness", format!("bad replay case: {}", e))],
        },
        _ => vec![Fail::new("harness", format!("unknown replay kind {}", kind))],
    }
}

// ------------------------------------------------------------------------------------ (iii) client

#[derive(Clone, Debug, Serialize, Deserialize)]
pub struct Hop {
    /// last octet of the listener address for this hop's *target* (127.S.0.N)
    pub host: u8,
    pub path: String,
    pub query: Option<String>,
    /// status of the redirect sent in answer to the *previous* request that leads here (unused for hop 0)
    pub via_status: u16,
    /// Location spelled relative (only legal when host equals the previous hop's host)
    pub relative: bool,
}

#[derive(Clone, Debug, Serialize, Deserialize)]
pub struct ClientCase {
    /// 0 get, 1 post, 2 put, 3 delete
    pub method: u8,
    pub body: Vec<u8>,
    pub hops: Vec<Hop>,
    pub last: RespSpec,
}

fn method_name(m: u8) -> &'static str {
    ["GET", "POST", "PUT", "DELETE"][m as usize % 4]
}

fn hop_target(h: &Hop) -> String {
    match &h.query {
        Some(q) => format!("{}?{}", h.path, q),
        None => h.path.clone(),
    }
}

pub fn check_client(case: &ClientCase, shard: usize) -> Vec<Fail> {
    use std::net::TcpListener;
    use std::sync::{Arc, Mutex};
    // host 4 is the IPv6 loopback, written as a bracketed literal in URLs and Location values (seed C07-15: a URL parser
    // that only adds the default port to hosts without a colon). There is one ::1, so those cases run one at a time.
    static V6_TURN: Mutex<()> = Mutex::new(());
    static V6_OK: std::sync::OnceLock<bool> = std::sync::OnceLock::new();
    let v6_ok = *V6_OK.get_or_init(|| TcpListener::bind(("::1", 0)).is_ok());
    let uses_v6 = v6_ok && case.hops.iter().any(|h| h.host % 8 == 4);
    let _turn = if uses_v6 { Some(V6_TURN.lock().unwrap_or_else(|e| e.into_inner())) } else { None };
    let ip = |n: u8| if n % 8 == 4 && v6_ok { "[::1]".to_string() } else { format!("127.{}.0.{}", 20 + shard, 1 + (n % 4)) };
    // responses per hop index: redirect to hop i+1, or the final response
    let mut wires: Vec<Vec<u8>> = Vec::new();
    for i in 0..case.hops.len() {
        if i + 1 < case.hops.len() {
            let nx = &case.hops[i + 1];
            let same_host = ip(nx.host) == ip(case.hops[i].host);
            let loc = if nx.relative && same_host { hop_target(nx) } else { format!("http://{}{}", ip(nx.host), hop_target(nx)) };
            let reason = registered_reasons(nx.via_status)[0];
            wires.push(format!("HTTP/1.1 {} {}\r\nLocation: {}\r\nContent-Length: 0\r\n\r\n", nx.via_status, reason, loc).into_bytes());
        } else {
            wires.push(case.last.render());
        }
    }
    let script = Arc::new(Mutex::new((0usize, Vec::<Result<(String, RefRequest), String>>::new())));
    let mut addrs: Vec<String> = case.hops.iter().map(|h| ip(h.host)).collect();
    addrs.sort();
    addrs.dedup();
    let mut listeners = Vec::new();
    for a in &addrs {
        match TcpListener::bind((a.trim_matches(|c| c == '[' || c == ']'), 80)) {
            Ok(l) => listeners.push((a.clone(), l)),
            Err(e) => return vec![Fail::new("harness-bind", format!("cannot bind {}:80: {}", a, e))],
        }
    }
    let stop = Arc::new(std::sync::atomic::AtomicBool::new(false));
    let wires = Arc::new(wires);
    let mut threads = Vec::new();
    for (a, l) in listeners {
        let script = script.clone();
        let wires = wires.clone();
        let stop = stop.clone();
        l.set_nonblocking(true).unwrap();
        threads.push(std::thread::spawn(move || {
            while !stop.load(std::sync::atomic::Ordering::SeqCst) {
                match l.accept() {
                    Ok((mut s, _)) => {
                        let _ = s.set_nonblocking(false);
                        let r = crate::common::net::read_request(&mut s, Duration::from_secs(5));
                        let idx = {
                            let mut g = script.lock().unwrap();
                            let idx = g.0;
                            g.0 += 1;
                            g.1.push(r.map(|r| (a.clone(), r)));
                            idx
                        };
                        if idx < wires.len() {
                            crate::common::net::write_all_close(s, &wires[idx]);
                        }
                    }
                    Err(_) => std::thread::sleep(Duration::from_millis(1)),
                }
            }
        }));
    }
    // run the client under a watchdog
    let h0 = &case.hops[0];
    let url = format!("http://{}{}", ip(h0.host), hop_target(h0));
    let (tx, rx) = std::sync::mpsc::channel();
    let method = case.method % 4;
    let body = case.body.clone();
    let url2 = url.clone();
    std::thread::spawn(move || {
        let r = catch(|| {
            let mut client = humphrey::Client::new();
            let req = match method {
                0 => client.get(&url2),
                1 => client.post(&url2, body.clone()),
                2 => client.put(&url2, body.clone()),
                _ => client.delete(&url2),
            };
            match req {
                Err(e) => Err(format!("request construction failed: {}", e)),
                Ok(rq) => rq.with_redirects(true).send().map_err(|e| e.to_string()).map(|r| {
                    let names: Vec<String> = {
                        let mut n: Vec<String> = r.headers.iter().map(|h| h.name.to_string().to_ascii_lowercase()).collect();
                        n.sort();
                        n.dedup();
                        n
                    };
                    let mut hs = Vec::new();
                    for n in names {
                        for v in r.headers.get_all(n.as_str()) {
                            hs.push((n.clone(), v.to_string()));
                        }
                    }
                    (r.version.clone(), u16::from(r.status_code), hs, r.body.clone())
                }),
            }
        });
        let _ = tx.send(r);
    });
    let outcome = rx.recv_timeout(Duration::from_secs(30));
    stop.store(true, std::sync::atomic::Ordering::SeqCst);
    for t in threads {
        let _ = t.join();
    }
    let mut fails = Vec::new();
    let seen = script.lock().unwrap().1.clone();
    let resp = match outcome {
        Err(_) => return vec![Fail::new("harness-timeout", "client did not return within 30 s")],
        Ok(Err(p)) => return vec![fail!("client-panic", "Client panicked: {} (url {})", p, url)],
        Ok(Ok(Err(e))) => {
            return vec![fail!(
                "client-error",
                "Client::{}({}).with_redirects(true).send() failed: {} (requests seen: {})",
                method_name(method).to_lowercase(),
                url,
                e,
                seen.len()
            )]
        }
        Ok(Ok(Ok(r))) => r,
    };
    // what each hop saw
    if seen.len() != case.hops.len() {
        fails.push(fail!("client-hops", "servers saw {} requests for a chain of {} hops", seen.len(), case.hops.len()));
    }
    for (i, (s, h)) in seen.iter().zip(&case.hops).enumerate() {
        match s {
            Err(e) => fails.push(fail!("client-request-invalid", "hop {}: request not valid HTTP: {}", i, e)),
            Ok((addr, r)) => {
                let want_target = hop_target(h);
                if *addr != ip(h.host) {
                    fails.push(fail!("client-wrong-host", "hop {}: request arrived at {} instead of {}", i, addr, ip(h.host)));
                }
                if r.method != method_name(method) {
                    fails.push(fail!("client-method", "hop {}: method {} instead of {}", i, r.method, method_name(method)));
                }
                if r.target != want_target {
                    let stale_query = i > 0 && h.relative && case.hops[i - 1].query.is_some();
                    fails.push(fail!(
                        if stale_query { "client-redirect-keeps-old-query" } else { "client-target" },
                        "hop {}: request target {:?} instead of {:?} (Location was {})",
                        i,
                        r.target,
                        want_target,
                        if h.relative { "relative" } else { "absolute" }
                    ));
                }
                let want_body: &[u8] = if method == 1 || method == 2 { &case.body } else { b"" };
                if r.body != want_body {
                    fails.push(fail!("client-body", "hop {}: body {} instead of {}", i, show(&r.body), show(want_body)));
                }
                let host: Vec<&String> = r.headers.iter().filter(|(n, _)| n == "host").map(|(_, v)| v).collect();
                if host.len() != 1 || *host[0] != ip(h.host) {
                    fails.push(fail!("client-host-header", "hop {}: Host header(s) {:?} instead of {}", i, host, ip(h.host)));
                }
                if !(r.leftover.is_empty() || r.leftover == b"\r\n") {
                    fails.push(fail!("client-trailing-bytes", "hop {}: stray bytes after the request: {}", i, show(&r.leftover)));
                }
            }
        }
    }
    let (version, status, hs, body) = resp;
    let last = &case.last;
    if version != last.version || status != last.status {
        fails.push(fail!("client-final-status", "client returned {} {}, final response was {} {}", version, status, last.version, last.status));
    }
    if body != last.body {
        fails.push(fail!("client-final-body", "client returned body {} instead of {}", show(&body), show(&last.body)));
    }
    if lists_of(&hs) != last.expected_lists() {
        fails.push(fail!("client-final-headers", "client returned headers {:?} instead of {:?}", lists_of(&hs), last.expected_lists()));
    }
    fails
}

fn arb_client_case() -> impl Strategy<Value = ClientCase> {
    let hop = (0u8..5, arb_path(), arb_query(), prop_oneof![Just(301u16), Just(302), Just(307)], any::<bool>())
        .prop_map(|(host, path, query, via_status, relative)| Hop { host, path, query, via_status, relative });
    (
        0u8..4,
        proptest::collection::vec(any::<u8>(), 0..64),
        proptest::collection::vec(hop, 1..7),
        arb_resp().prop_filter("final response must not be a followed redirect", |r| ![301, 302, 307].contains(&r.status)),
    )
        .prop_map(|(method, body, mut hops, last)| {
            // a relative Location needs the same host as the previous hop
            for i in 1..hops.len() {
                if hops[i].relative {
                    hops[i].host = hops[i - 1].host;
                }
            }
            ClientCase { method, body, hops, last }
        })
}

pub fn run_client(ctx: &Ctx) {
    if !crate::common::net::can_bind_80() {
        ctx.exclude("client sub-check skipped: cannot bind 127.0.0.x:80 (Client URLs cannot name a port)", 1);
        ctx.assume("Client sub-check NOT run: port 80 could not be bound");
        return;
    }
    let cases = ctx.tier.pick(240u32, 6_000u32);
    let nshards = 12;
    crate::engine::shards(nshards, |i| {
        pt::run(
            ctx,
            "client",
            pt::Opts::new(cases / nshards as u32).salt(780 + i as u64).shrink_iters(200),
            arb_client_case(),
            |c| serde_json::to_value(c).unwrap(),
            |c| {
                let chain = c.hops.len() - 1;
                let mut labels = vec!["client"];
                if chain >= 2 {
                    labels.push("client:chain>=2");
                }
                if c.hops.iter().skip(1).any(|h| h.relative) {
                    labels.push("client:relative-location");
                }
                if c.hops.iter().skip(1).any(|h| !h.relative) {
                    labels.push("client:absolute-location");
                }
                ctx.case(hash_of(&format!("{:?}", c)), chain >= 2, &labels);
                ctx.sample(labels.last().unwrap(), || json!({"method": method_name(c.method), "hops": c.hops, "final_status": c.last.status, "final_body_len": c.last.body.len()}));
                let f = check_client(c, i);
                if f.iter().any(|x| x.sig.starts_with("harness-")) {
                    ctx.inconclusive(&format!("client case skipped: {}", f[0].detail));
                    return Vec::new();
                }
                f
            },
        );
    });
}
