//! C01 — one well-framed response per request on every connection, in order.
//! A real App runs on loopback; a scripted reference client sends generated request sequences under
//! generated segmentations and reads the byte stream with the strict reference response parser; a
//! reference connection model predicts every response and where the connection closes.

use crate::common::http::{parse_response, Framing, RefResponse, RespParse};
use crate::common::net::connect_retry;
#[cfg(not(hvt))]
use crate::common::net_app::{start_app, RunningApp};
use crate::common::refs::parse_imf_fixdate;
use crate::engine::{hash_of, pt, show, Ctx, Fail, Lcg};
use humphrey::http::cors::Cors;
use humphrey::http::method::Method;
use humphrey::http::Request;
#[cfg(not(hvt))]
use humphrey::http::{Response, StatusCode};
#[cfg(not(hvt))]
use humphrey::App;
use proptest::prelude::*;
use serde::{Deserialize, Serialize};
use serde_json::{json, Value as J};
use std::io::{Read, Write};
use std::net::TcpStream;
use std::sync::{Arc, Condvar, Mutex};
use std::time::{Duration, Instant};

pub const TIMEOUT_MS: u64 = 1000;

#[derive(Clone, Copy, Debug, Serialize, Deserialize, PartialEq, Eq, Hash)]
pub enum Target {
    Echo,
    Empty,
    Cors,
    Panic,
    Big,
    Unrouted,
}

#[derive(Clone, Copy, Debug, Serialize, Deserialize, PartialEq, Eq, Hash)]
pub enum Malformed {
    NoVersion,
    UnknownMethod,
    Garbage,
    HeaderNoColon,
    BadLength,
    NegativeLength,
    NonUtf8Header,
}

#[derive(Clone, Debug, Serialize, Deserialize, PartialEq, Eq, Hash)]
pub struct Req {
    pub method: String,
    pub target: Target,
    /// 0 absent, 1 close, 2.. keep-alive in some letter case
    pub conn: u8,
    pub http10: bool,
    pub body: Option<Vec<u8>>,
    pub malformed: Option<Malformed>,
    pub extra_headers: u8,
}

#[derive(Clone, Debug, Serialize, Deserialize, PartialEq, Eq, Hash)]
pub enum Step {
    Request(Req),
    /// stay silent past the connection timeout (only generated when a timeout is configured)
    Idle,
}

#[derive(Clone, Debug, Serialize, Deserialize, PartialEq, Eq, Hash)]
pub enum Seg {
    /// each request in one write
    PerRequest,
    /// one byte per write
    ByteWise,
    /// write sizes drawn from this seed (1..max)
    Random(u64, usize),
}

#[derive(Clone, Debug, Serialize, Deserialize, PartialEq, Eq, Hash)]
pub struct Script {
    pub threads: usize,
    pub timeout: bool,
    /// 0 explicit lists, 1 Cors::wildcard(), 2 wildcard origin only
    pub cors_kind: u8,
    pub steps: Vec<Step>,
    /// boundary after step i is pipelined (next request sent without waiting for the response)
    pub pipelined: Vec<bool>,
    pub seg: Seg,
}

fn conn_value(c: u8) -> Option<&'static str> {
    match c {
        0 => None,
        1 => Some("close"),
        2 => Some("keep-alive"),
        3 => Some("Keep-Alive"),
        4 => Some("KEEP-ALIVE"),
        _ => Some("kEEp-aLIve"),
    }
}

fn path_of(t: Target) -> &'static str {
    match t {
        Target::Echo => "/echo",
        Target::Empty => "/empty",
        Target::Cors => "/cors",
        Target::Panic => "/panic",
        Target::Big => "/big",
        Target::Unrouted => "/nope/not-here",
    }
}

pub fn render_request(r: &Req, nonce: usize) -> Vec<u8> {
    let version = if r.http10 { "HTTP/1.0" } else { "HTTP/1.1" };
    let target = format!("{}?n={}", path_of(r.target), nonce);
    let mut out = Vec::new();
    match r.malformed {
        Some(Malformed::NoVersion) => out.extend_from_slice(format!("{} {}\r\n", r.method, target).as_bytes()),
        Some(Malformed::UnknownMethod) => out.extend_from_slice(format!("BREW {} {}\r\n", target, version).as_bytes()),
        Some(Malformed::Garbage) => out.extend_from_slice(b"\x16\x03\x01 nonsense without structure\r\n"),
        _ => out.extend_from_slice(format!("{} {} {}\r\n", r.method, target, version).as_bytes()),
    }
    out.extend_from_slice(b"Host: c01.test\r\n");
    for k in 0..r.extra_headers % 4 {
        out.extend_from_slice(format!("X-Extra-{}: value {} with caf\u{e9}\r\n", k, k).as_bytes());
    }
    if let Some(c) = conn_value(r.conn) {
        out.extend_from_slice(format!("Connection: {}\r\n", c).as_bytes());
    }
    match r.malformed {
        Some(Malformed::HeaderNoColon) => out.extend_from_slice(b"ThisLineHasNoColon\r\n"),
        Some(Malformed::BadLength) => out.extend_from_slice(b"Content-Length: twelve\r\n"),
        Some(Malformed::NegativeLength) => out.extend_from_slice(b"Content-Length: -5\r\n"),
        Some(Malformed::NonUtf8Header) => out.extend_from_slice(b"X-Bytes: \xff\xfe\xc3\r\n"),
        _ => {}
    }
    let has_len_fault = matches!(r.malformed, Some(Malformed::BadLength) | Some(Malformed::NegativeLength));
    if let (Some(b), false) = (&r.body, has_len_fault) {
        out.extend_from_slice(format!("Content-Length: {}\r\n", b.len()).as_bytes());
        out.extend_from_slice(b"\r\n");
        out.extend_from_slice(b);
    } else {
        out.extend_from_slice(b"\r\n");
    }
    out
}

// ------------------------------------------------------------------------------------------ server side

pub struct AppState {
    pub log: Mutex<Vec<(String, String, String, Vec<u8>)>>,
}

/// 8 MiB: larger than what the socket buffers take in one non-blocking write
pub fn huge_body() -> Arc<Vec<u8>> {
    static B: std::sync::OnceLock<Arc<Vec<u8>>> = std::sync::OnceLock::new();
    B.get_or_init(|| Arc::new((0..(8u32 << 20)).map(|i| ((i >> 3) % 249) as u8 ^ (i as u8)).collect())).clone()
}

pub fn big_body() -> Vec<u8> {
    (0..70_000u32).map(|i| (i % 251) as u8).collect()
}

pub type LogEntry = (String, String, String, Vec<u8>);

/// A running server under test (threaded `App` here, tokio `App` in crate hvt).
pub trait Server {
    fn addr(&self) -> std::net::SocketAddr;
    fn log(&self) -> Vec<LogEntry>;
    fn stop(self: Box<Self>, max: Duration) -> Result<(), String>;
}

/// (threads, connection timeout, CORS kind, loopback alias) -> running server
pub type StartFn<'a> = &'a (dyn Fn(usize, bool, u8, &str) -> Result<Box<dyn Server>, String> + Sync);

pub fn log_request(st: &Arc<AppState>, r: &Request) {
    st.log.lock().unwrap().push((r.method.to_string(), r.uri.clone(), r.query.clone(), r.content.clone().unwrap_or_default()));
}

pub fn describe(tag: &str, r: &Request) -> Vec<u8> {
    let mut b = format!("{}|{}|{}|{}|", tag, r.method, r.uri, r.query).into_bytes();
    if let Some(c) = &r.content {
        b.extend_from_slice(c);
    }
    b
}

pub fn expected_cors(kind: u8) -> Vec<(String, String)> {
    match kind % 3 {
        0 => vec![
            ("access-control-allow-origin".into(), "https://a.example, https://b.example".into()),
            ("access-control-allow-methods".into(), "GET, POST".into()),
            ("access-control-allow-headers".into(), "X-Custom, Content-Type".into()),
        ],
        1 => vec![
            ("access-control-allow-origin".into(), "*".into()),
            ("access-control-allow-methods".into(), "*".into()),
            ("access-control-allow-headers".into(), "*".into()),
        ],
        _ => vec![("access-control-allow-origin".into(), "*".into())],
    }
}

pub fn cors_for(kind: u8) -> Cors {
    match kind % 3 {
        0 => Cors::new().with_origin("https://a.example").with_origin("https://b.example").with_method(Method::Get).with_method(Method::Post).with_header("X-Custom").with_header("Content-Type"),
        1 => Cors::wildcard(),
        _ => Cors::new().with_wildcard_origin(),
    }
}

#[cfg(not(hvt))]
struct SyncServer {
    running: RunningApp,
    st: Arc<AppState>,
}

#[cfg(not(hvt))]
impl Server for SyncServer {
    fn addr(&self) -> std::net::SocketAddr {
        self.running.addr
    }
    fn log(&self) -> Vec<LogEntry> {
        self.st.log.lock().unwrap().clone()
    }
    fn stop(self: Box<Self>, max: Duration) -> Result<(), String> {
        self.running.stop(max).map(|_| ())
    }
}

#[cfg(not(hvt))]
pub fn start_sync(threads: usize, timeout: bool, cors_kind: u8, ip: &str) -> Result<Box<dyn Server>, String> {
    let (app, st) = build_app(threads, timeout, cors_kind);
    let running = start_app(app, ip)?;
    Ok(Box::new(SyncServer { running, st }))
}

#[cfg(not(hvt))]
pub fn build_app(threads: usize, timeout: bool, cors_kind: u8) -> (App<AppState>, Arc<AppState>) {
    let app: App<AppState> = App::new_with_config(threads, AppState { log: Mutex::new(Vec::new()) });
    let st = app.get_state();
    let logit = |st: &Arc<AppState>, r: &Request| {
        st.log.lock().unwrap().push((r.method.to_string(), r.uri.clone(), r.query.clone(), r.content.clone().unwrap_or_default()));
    };
    let app = app
        .with_route("/echo", move |r: Request, st: Arc<AppState>| {
            logit(&st, &r);
            Response::new(StatusCode::OK, describe("E", &r))
        })
        .with_route("/empty", move |r: Request, st: Arc<AppState>| {
            logit(&st, &r);
            Response::empty(StatusCode::OK)
        })
        .with_route("/cors", move |r: Request, st: Arc<AppState>| {
            logit(&st, &r);
            Response::new(StatusCode::OK, describe("C", &r))
        })
        .with_route("/panic", move |r: Request, st: Arc<AppState>| -> Response {
            logit(&st, &r);
            panic!("handler panics on purpose");
        })
        .with_route("/big", move |r: Request, st: Arc<AppState>| {
            logit(&st, &r);
            Response::new(StatusCode::OK, big_body())
        })
        .with_route("/huge", move |_r: Request, _st: Arc<AppState>| Response::new(StatusCode::OK, huge_body().as_ref().clone()))
        .with_cors_config("/cors", cors_for(cors_kind))
        .with_connection_timeout(if timeout { Some(Duration::from_millis(TIMEOUT_MS)) } else { None });
    (app, st)
}

// ------------------------------------------------------------------------------------------ model

#[derive(Clone, Debug, PartialEq)]
pub enum Expect {
    /// a full response to a well-formed request
    Ok { status: u16, version: &'static str, body: Vec<u8>, cors: Vec<(String, String)>, stays_open: bool },
    Bad400,
    Timeout408,
    /// handler panics: EOF without a byte
    PanicEof,
}

fn body_for(r: &Req, nonce: usize) -> Vec<u8> {
    let tag = match r.target {
        Target::Echo => "E",
        Target::Cors => "C",
        Target::Empty => return Vec::new(),
        Target::Big => return big_body(),
        _ => "",
    };
    let mut b = format!("{}|{}|{}|n={}|", tag, r.method, path_of(r.target), nonce).into_bytes();
    if let Some(c) = &r.body {
        b.extend_from_slice(c);
    }
    b
}

/// Expected outcome per step while the connection is open; None = not answered (connection closed before)
pub fn model(s: &Script) -> Vec<Option<Expect>> {
    let mut out = Vec::new();
    let mut open = true;
    for (i, st) in s.steps.iter().enumerate() {
        if !open {
            out.push(None);
            continue;
        }
        match st {
            Step::Idle => {
                out.push(Some(Expect::Timeout408));
                open = false;
            }
            Step::Request(r) => {
                if r.malformed.is_some() {
                    out.push(Some(Expect::Bad400));
                    open = false;
                    continue;
                }
                let version = if r.http10 { "HTTP/1.0" } else { "HTTP/1.1" };
                let keep = r.conn >= 2;
                let routed = r.target != Target::Unrouted;
                let cors = if r.target == Target::Cors { expected_cors(s.cors_kind) } else { Vec::new() };
                if r.method == "OPTIONS" {
                    if routed {
                        out.push(Some(Expect::Ok { status: 204, version, body: Vec::new(), cors, stays_open: keep }));
                    } else {
                        out.push(Some(Expect::Ok { status: 404, version, body: Vec::new(), cors: Vec::new(), stays_open: keep }));
                    }
                } else if r.target == Target::Panic {
                    out.push(Some(Expect::PanicEof));
                    open = false;
                    continue;
                } else if routed {
                    out.push(Some(Expect::Ok { status: 200, version, body: body_for(r, i), cors, stays_open: keep }));
                } else {
                    out.push(Some(Expect::Ok { status: 404, version, body: Vec::new(), cors: Vec::new(), stays_open: keep }));
                }
                open = keep;
            }
        }
    }
    out
}

// ------------------------------------------------------------------------------------------ client

struct Shared {
    buf: Vec<u8>,
    eof: bool,
}

struct Client {
    stream: TcpStream,
    shared: Arc<(Mutex<Shared>, Condvar)>,
    pos: usize,
    reader: Option<std::thread::JoinHandle<()>>,
}

impl Client {
    fn connect(addr: std::net::SocketAddr) -> Result<Client, String> {
        let stream = connect_retry(addr, Duration::from_secs(5)).map_err(|e| format!("connect: {}", e))?;
        let _ = stream.set_nodelay(true);
        let shared = Arc::new((Mutex::new(Shared { buf: Vec::new(), eof: false }), Condvar::new()));
        let sh = shared.clone();
        let mut rs = stream.try_clone().map_err(|e| e.to_string())?;
        let reader = std::thread::spawn(move || {
            let mut tmp = [0u8; 65536];
            loop {
                match rs.read(&mut tmp) {
                    Ok(0) | Err(_) => {
                        let mut g = sh.0.lock().unwrap();
                        g.eof = true;
                        sh.1.notify_all();
                        return;
                    }
                    Ok(n) => {
                        let mut g = sh.0.lock().unwrap();
                        g.buf.extend_from_slice(&tmp[..n]);
                        sh.1.notify_all();
                    }
                }
            }
        });
        Ok(Client { stream, shared, pos: 0, reader: Some(reader) })
    }

    fn write_segments(&mut self, bytes: &[u8], seg: &Seg, rng: &mut Lcg) {
        match seg {
            Seg::PerRequest => {
                let _ = self.stream.write_all(bytes);
            }
            Seg::ByteWise if bytes.len() <= 400 => {
                for b in bytes {
                    if self.stream.write_all(&[*b]).is_err() {
                        return;
                    }
                    std::thread::sleep(Duration::from_micros(1500));
                }
            }
            Seg::ByteWise => {
                // long messages: byte-wise head (first 120 bytes), rest in 1 KiB pieces
                for b in &bytes[..120] {
                    if self.stream.write_all(&[*b]).is_err() {
                        return;
                    }
                    std::thread::sleep(Duration::from_micros(1500));
                }
                for ch in bytes[120..].chunks(1024) {
                    if self.stream.write_all(ch).is_err() {
                        return;
                    }
                }
            }
            Seg::Random(_, max) => {
                let mut p = 0;
                let mut pieces = 0;
                while p < bytes.len() {
                    let n = if pieces > 60 { bytes.len() - p } else { (1 + (rng.next() % *max as u64) as usize).min(bytes.len() - p) };
                    if self.stream.write_all(&bytes[p..p + n]).is_err() {
                        return;
                    }
                    p += n;
                    pieces += 1;
                    std::thread::sleep(Duration::from_millis(2));
                }
            }
        }
    }

    /// snapshot of unread bytes and eof flag, waiting until something changes or the deadline passes
    fn wait_more(&self, have: usize, deadline: Instant) -> (Vec<u8>, bool) {
        let (m, cv) = &*self.shared;
        let mut g = m.lock().unwrap();
        loop {
            if g.buf.len() - self.pos > have || g.eof {
                return (g.buf[self.pos..].to_vec(), g.eof);
            }
            let now = Instant::now();
            if now >= deadline {
                return (g.buf[self.pos..].to_vec(), g.eof);
            }
            let (ng, _) = cv.wait_timeout(g, deadline - now).unwrap();
            g = ng;
        }
    }

    /// Reads one response (blocking up to `max`). Returns Ok(Some(resp)), Ok(None) on clean EOF with no bytes, Err(text) otherwise.
    fn read_response(&mut self, max: Duration, fails: &mut Vec<Fail>, need_eof: bool) -> Result<Option<(RefResponse, bool)>, String> {
        self.read_response2(max, fails, need_eof, false)
    }

    fn read_response2(&mut self, max: Duration, fails: &mut Vec<Fail>, need_eof: bool, stays_open: bool) -> Result<Option<(RefResponse, bool)>, String> {
        let mut deadline = Instant::now() + max;
        let mut shortened = false;
        let mut have = 0;
        loop {
            let (mut data, eof) = self.wait_more(have, deadline);
            // one stray CRLF between messages (known finding K2)
            let mut skipped = 0;
            if self.pos > 0 && data.starts_with(b"\r\n") {
                skipped = 2;
                data.drain(..2);
            } else if self.pos > 0 && data == b"\r" && !eof {
                have = data.len();
                continue;
            }
            if data.is_empty() && eof {
                if skipped > 0 {
                    self.pos += skipped;
                    fails.push(fail!("crlf-after-body", "two stray bytes \\r\\n follow a response body on the connection"));
                }
                return Ok(None);
            }
            match parse_response(&data, eof) {
                RespParse::Complete(r) if !(need_eof && !eof && r.framing != Framing::CloseDelimited) || eof || !need_eof => {
                    if skipped > 0 {
                        fails.push(fail!("crlf-after-body", "two stray bytes \\r\\n follow a response body on the connection"));
                    }
                    let close_delimited = r.framing == Framing::CloseDelimited;
                    self.pos += skipped + r.consumed;
                    return Ok(Some((r, close_delimited)));
                }
                RespParse::Invalid(e) => return Err(format!("server bytes are not a valid HTTP response ({}): {}", e, show(&data[..data.len().min(200)]))),
                RespParse::Incomplete(ref why) if why == "close-delimited body" && stays_open && !shortened => {
                    // head complete, no framing header: on a connection that is to stay open this cannot end; do not wait the full deadline
                    shortened = true;
                    deadline = Instant::now() + Duration::from_millis(1500);
                    have = data.len() + skipped;
                }
                RespParse::Incomplete(ref why) if why == "close-delimited body" && stays_open && Instant::now() >= deadline => {
                    return Err(format!("NOT-SELF-DELIMITING: response has neither Content-Length nor chunked coding and the connection stays open: {}", show(&data[..data.len().min(200)])));
                }
                _ => {
                    if eof {
                        return Err(format!("INCOMPLETE-AT-EOF: the connection ended inside a response; got {} bytes: {}", data.len(), show(&data[..data.len().min(200)])));
                    }
                    if Instant::now() >= deadline {
                        return Err(format!("no complete response within {:?}; got {} bytes: {}", max, data.len(), show(&data[..data.len().min(200)])));
                    }
                    have = data.len() + skipped;
                }
            }
        }
    }

    /// The model says the connection closes now. Decide by evidence: EOF soon, else a probe request
    /// that must not be answered. Returns extra bytes received before EOF.
    fn expect_eof(&mut self, _max: Duration) -> Result<Vec<u8>, String> {
        match self.wait_eof(Duration::from_millis(400)) {
            Ok(extra) => return Ok(extra),
            Err(_) => {}
        }
        let _ = self.stream.write_all(b"GET /echo?n=closeprobe HTTP/1.1\r\nHost: probe\r\nConnection: close\r\n\r\n");
        match self.wait_eof(Duration::from_secs(4)) {
            Ok(extra) if extra.is_empty() || extra == b"\r\n" => Ok(extra),
            Ok(extra) => Err(format!("a probe request sent on the connection was answered ({} bytes: {}), so the connection was still open", extra.len(), show(&extra[..extra.len().min(80)]))),
            Err(e) => Err(e),
        }
    }

    fn wait_eof(&mut self, max: Duration) -> Result<Vec<u8>, String> {
        let deadline = Instant::now() + max;
        let mut have = 0;
        loop {
            let (data, eof) = self.wait_more(have, deadline);
            if eof {
                self.pos += data.len();
                return Ok(data);
            }
            if Instant::now() >= deadline {
                return Err(format!("connection still open after {:?}", max));
            }
            have = data.len();
        }
    }

    fn finish(mut self) {
        let _ = self.stream.shutdown(std::net::Shutdown::Both);
        if let Some(r) = self.reader.take() {
            let _ = r.join();
        }
    }
}

fn header_vals<'a>(r: &'a RefResponse, name: &str) -> Vec<&'a str> {
    r.headers.iter().filter(|(n, _)| n == name).map(|(_, v)| v.as_str()).collect()
}

/// compares one response with its expectation
fn check_response(i: usize, what: &str, r: &RefResponse, e: &Expect, fails: &mut Vec<Fail>) {
    match e {
        Expect::Ok { status, version, body, cors, .. } => {
            if r.status != *status {
                fails.push(fail!(format!("status:{}", what), "step {} ({}): status {} instead of {}", i, what, r.status, status));
                return;
            }
            if r.version != *version {
                fails.push(fail!(format!("version:{}", what), "step {} ({}): response version {} to a {} request", i, what, r.version, version));
            }
            let date = header_vals(r, "date");
            if date.len() != 1 || parse_imf_fixdate(date[0]).is_none() {
                fails.push(fail!(format!("date:{}", what), "step {} ({}): Date header(s) {:?} (want exactly one IMF-fixdate)", i, what, date));
            }
            if header_vals(r, "server").is_empty() {
                fails.push(fail!(format!("server:{}", what), "step {} ({}): no Server header", i, what));
            }
            let cl = header_vals(r, "content-length");
            if *status == 204 {
                if !cl.is_empty() && cl != ["0"] {
                    fails.push(fail!("content-length:204", "step {}: 204 with Content-Length {:?}", i, cl));
                }
            } else if cl.len() != 1 || cl[0].parse::<usize>().ok() != Some(r.body.len()) || r.framing != Framing::ContentLength {
                fails.push(fail!(format!("content-length:{}", what), "step {} ({}): Content-Length {:?}, framing {:?}, body {} bytes", i, what, cl, r.framing, r.body.len()));
            }
            if *status != 404 && &r.body != body {
                fails.push(fail!(
                    format!("body:{}", what),
                    "step {} ({}): body {} instead of {}",
                    i,
                    what,
                    show(&r.body[..r.body.len().min(120)]),
                    show(&body[..body.len().min(120)])
                ));
            }
            let got_cors: Vec<(String, String)> = r.headers.iter().filter(|(n, _)| n.starts_with("access-control-")).cloned().collect();
            // header names listed in Access-Control-Allow-Headers are case-insensitive
            let norm = |v: &Vec<(String, String)>| -> Vec<(String, String)> { v.iter().map(|(n, x)| (n.clone(), if n == "access-control-allow-headers" { x.to_ascii_lowercase() } else { x.clone() })).collect() };
            let mut a = norm(&got_cors);
            let mut b = norm(cors);
            a.sort();
            b.sort();
            if a != b {
                let missing_methods_star = b.iter().any(|(n, v)| n == "access-control-allow-methods" && v == "*") && !a.iter().any(|(n, _)| n == "access-control-allow-methods");
                fails.push(fail!(
                    if missing_methods_star { "cors:wildcard-methods-missing".to_string() } else { format!("cors:{}", what) },
                    "step {} ({}): CORS headers {:?}, the route is configured for {:?}",
                    i,
                    what,
                    got_cors,
                    cors
                ));
            }
        }
        Expect::Bad400 => {
            if r.status != 400 {
                fails.push(fail!("status:malformed", "step {}: malformed request answered {} instead of 400", i, r.status));
            }
        }
        Expect::Timeout408 => {
            if r.status != 408 {
                fails.push(fail!("status:timeout", "step {}: idle connection answered {} instead of 408", i, r.status));
            }
        }
        Expect::PanicEof => {
            fails.push(fail!("panic-answered", "step {}: a request whose handler panics received a response ({})", i, r.status));
        }
    }
}

fn what_of(st: &Step) -> String {
    match st {
        Step::Idle => "idle".into(),
        Step::Request(r) => {
            if let Some(m) = r.malformed {
                format!("malformed-{:?}", m)
            } else if r.method == "OPTIONS" {
                format!("OPTIONS-{:?}", r.target)
            } else {
                format!("{:?}", r.target)
            }
        }
    }
}

/// Runs the script against a fresh app. `ip` selects the loopback alias of this shard.
/// `has_timeout`: whether the runtime under test supports a connection timeout (the tokio App does not).
pub fn run_script(s: &Script, ip: &str, start: StartFn, has_timeout: bool) -> Vec<Fail> {
    let t0 = Instant::now();
    let r = run_script_inner(s, ip, start, has_timeout);
    if std::env::var("HV_DEBUG").is_ok() && t0.elapsed() > Duration::from_secs(3) {
        eprintln!("SLOW {:?}: {:?} -> {:?}", t0.elapsed(), serde_json::to_string(s).unwrap(), r.iter().map(|f| &f.sig).collect::<Vec<_>>());
    }
    r
}

fn run_script_inner(s0: &Script, ip: &str, start: StartFn, has_timeout: bool) -> Vec<Fail> {
    // idle steps only make sense with a connection timeout, and scripts with a pipelined boundary run without one
    let mut s = s0.clone();
    let has_pipe = s.pipelined.iter().take(s.steps.len().saturating_sub(1)).any(|p| *p);
    if !s.timeout || has_pipe || !has_timeout {
        s.timeout = false;
        s.steps.retain(|x| !matches!(x, Step::Idle));
        if s.steps.is_empty() {
            return Vec::new();
        }
    }
    let s = &s;
    let lenient_from = s.pipelined.iter().take(s.steps.len().saturating_sub(1)).position(|p| *p);
    let use_timeout = s.timeout && lenient_from.is_none();
    let running = match start(s.threads, use_timeout, s.cors_kind, ip) {
        Ok(r) => r,
        Err(e) => return vec![Fail::new("harness-app", e)],
    };
    let addr = running.addr();
    let mut fails = Vec::new();
    let exp = model(&Script { timeout: use_timeout, ..s.clone() });
    let mut rng = Lcg(match s.seg {
        Seg::Random(seed, _) => seed,
        _ => 1,
    });
    let mut client = match Client::connect(addr) {
        Ok(c) => c,
        Err(e) => return vec![Fail::new("harness-connect", e)],
    };
    let long = Duration::from_secs(10);
    let mut pending: Vec<usize> = Vec::new(); // steps sent but not yet read
    let mut closed_at: Option<usize> = None;
    let mut expected_log: Vec<(String, String, String, Vec<u8>)> = Vec::new();
    let mut lenient_log: Vec<(String, String, String, Vec<u8>)> = Vec::new();
    let mut last_read_done = Instant::now();
    'steps: for (i, step) in s.steps.iter().enumerate() {
        let lenient = lenient_from.map_or(false, |l| i > l);
        match step {
            Step::Idle => {
                if !use_timeout {
                    continue;
                }
                std::thread::sleep(Duration::from_millis(TIMEOUT_MS + 600));
            }
            Step::Request(r) => {
                let bytes = render_request(r, i);
                if (closed_at.is_some() && !lenient) || r.malformed.is_some() {
                    // probe on a connection the model says is closed: must not be answered.
                    // malformed requests go out in one piece: the server answers 400 and closes as soon as it sees the
                    // fault, and closing with unread bytes pending makes the kernel reset the connection, which can
                    // destroy the 400 before the client reads it
                    let _ = client.stream.write_all(&bytes);
                } else {
                    client.write_segments(&bytes, &s.seg, &mut rng);
                }
                let routed_logged = r.malformed.is_none() && r.method != "OPTIONS" && r.target != Target::Unrouted;
                if routed_logged {
                    let entry = (r.method.clone(), path_of(r.target).to_string(), format!("n={}", i), r.body.clone().unwrap_or_default());
                    if lenient || closed_at.is_some() {
                        lenient_log.push(entry);
                    } else {
                        expected_log.push(entry);
                    }
                }
            }
        }
        pending.push(i);
        let pipelined_here = s.pipelined.get(i).copied().unwrap_or(false) && i + 1 < s.steps.len();
        if pipelined_here {
            continue;
        }
        // read responses for everything pending
        for j in pending.drain(..).collect::<Vec<_>>() {
            // the response to the request right before a pipelined boundary is exposed to the same reset as the tail
            let lenient_j = lenient_from.map_or(false, |l| j >= l);
            if lenient_j {
                // handled after the loop (the whole tail is read to EOF)
                continue;
            }
            match (&exp[j], closed_at) {
                (None, _) | (_, Some(_)) => {
                    // connection is closed by the model: nothing may come back
                    match client.expect_eof(long) {
                        Ok(extra) if extra.is_empty() => {}
                        Ok(extra) => {
                            fails.push(fail!("answered-after-close", "step {}: the connection should have closed after step {:?}, but {} more bytes arrived: {}", j, closed_at, extra.len(), show(&extra[..extra.len().min(120)])));
                            break 'steps;
                        }
                        Err(e) => {
                            fails.push(fail!("not-closed", "step {}: {} (the model closes the connection after step {:?})", j, e, closed_at));
                            break 'steps;
                        }
                    }
                }
                (Some(e), None) => {
                    let what = what_of(&s.steps[j]);
                    let need_eof = matches!(e, Expect::Bad400 | Expect::Timeout408);
                    let max = if matches!(e, Expect::Timeout408) { Duration::from_millis(TIMEOUT_MS * 20 + 5000) } else { long };
                    let gap = last_read_done.elapsed();
                    let stays_expected = matches!(e, Expect::Ok { stays_open: true, .. });
                    match client.read_response2(max, &mut fails, need_eof, stays_expected) {
                        Err(t) if t.starts_with("NOT-SELF-DELIMITING") => {
                            fails.push(fail!(format!("not-self-delimiting:{}", what), "step {} ({}): {}", j, what, t));
                            break 'steps;
                        }
                        Err(t) => {
                            fails.push(fail!(format!("no-response:{}", what), "step {} ({}): {}", j, what, t));
                            break 'steps;
                        }
                        Ok(None) => {
                            if !matches!(e, Expect::PanicEof) {
                                fails.push(fail!(format!("closed-without-response:{}", what), "step {} ({}): connection closed without a response; expected {:?}", j, what, short(e)));
                                break 'steps;
                            }
                            closed_at = Some(j);
                        }
                        Ok(Some((r, close_delimited))) => {
                            // a 408 where none was expected, while the client itself was slow, is inconclusive
                            if r.status == 408 && !matches!(e, Expect::Timeout408) && use_timeout && gap > Duration::from_millis(TIMEOUT_MS / 2) {
                                fails.push(Fail::new("harness-slow-client", "client was slower than half the connection timeout"));
                                break 'steps;
                            }
                            check_response(j, &what, &r, e, &mut fails);
                            let stays = matches!(e, Expect::Ok { stays_open: true, .. });
                            if stays && close_delimited {
                                fails.push(fail!(format!("not-self-delimiting:{}", what), "step {} ({}): the connection stays open after this response but it has no Content-Length (status {})", j, what, r.status));
                                break 'steps;
                            }
                            if !stays {
                                match client.expect_eof(long) {
                                    Ok(extra) => {
                                        if !(extra.is_empty() || extra == b"\r\n") {
                                            fails.push(fail!("bytes-after-final-response", "step {}: {} unexpected bytes after the last response: {}", j, extra.len(), show(&extra[..extra.len().min(100)])));
                                        } else if extra == b"\r\n" && !close_delimited {
                                            fails.push(fail!("crlf-after-body", "two stray bytes \\r\\n follow a response body on the connection"));
                                        }
                                        closed_at = Some(j);
                                    }
                                    Err(t) => {
                                        fails.push(fail!(format!("kept-open:{}", what), "step {} ({}): {} although the request did not ask for keep-alive / was not well-formed", j, what, t));
                                        break 'steps;
                                    }
                                }
                            }
                            last_read_done = Instant::now();
                        }
                    }
                    if !fails.iter().all(|f| f.sig == "crlf-after-body") {
                        break 'steps;
                    }
                }
            }
        }
    }
    let hard_fail = fails.iter().any(|f| f.sig != "crlf-after-body");
    if !hard_fail {
        if let Some(l) = lenient_from {
            // tail after a pipelined boundary: half-close, read to EOF, every response must be an expected one (in order) or a 400
            let _ = client.stream.shutdown(std::net::Shutdown::Write);
            let mut tail: Vec<RefResponse> = Vec::new();
            let mut truncated_tail = false;
            loop {
                match client.read_response(long, &mut fails, false) {
                    Ok(Some((r, _))) => tail.push(r),
                    Ok(None) => break,
                    Err(t) if t.starts_with("INCOMPLETE-AT-EOF") => {
                        // the server closed with unread pipelined bytes pending: the kernel resets the connection and may cut the last response short
                        truncated_tail = true;
                        break;
                    }
                    Err(t) => {
                        fails.push(fail!("pipelined-garbage", "after a pipelined boundary the server sent something that is not a sequence of HTTP responses: {}", t));
                        break;
                    }
                }
            }
            // expected responses for steps > l (and step l itself if it was still pending)
            let first_unread = l; // step l was sent and not read before the boundary
            let mut k = first_unread;
            let mut lost = truncated_tail;
            for r in &tail {
                if r.status == 400 {
                    lost = true;
                    continue;
                }
                // find the next expected step (>= k) that this response matches exactly
                let mut matched = None;
                for j in k..s.steps.len() {
                    if let Some(e @ Expect::Ok { .. }) = &exp_no_close(s, j) {
                        let mut tmp = Vec::new();
                        check_response(j, "pipelined", r, e, &mut tmp);
                        tmp.retain(|f| !f.sig.starts_with("cors:wildcard"));
                        if tmp.is_empty() {
                            matched = Some(j);
                            break;
                        }
                    }
                }
                match matched {
                    Some(j) => {
                        if j != k {
                            lost = true;
                        }
                        k = j + 1;
                    }
                    None => {
                        fails.push(fail!("pipelined-foreign-response", "after a pipelined boundary the server sent a response ({} , {} body bytes: {}) that is not the answer to any later request in order", r.status, r.body.len(), show(&r.body[..r.body.len().min(80)])));
                        break;
                    }
                }
            }
            let answerable = (first_unread..s.steps.len()).take_while(|j| exp[*j].is_some()).count();
            if tail.iter().filter(|r| r.status != 400).count() < answerable || lost {
                fails.push(fail!("readahead-loss", "bytes sent ahead of a response (pipelined request) were dropped: {} of {} pipelined requests answered", tail.iter().filter(|r| r.status != 400).count(), answerable));
            }
        } else if closed_at.is_none() && exp.iter().all(|e| e.is_some()) {
            // still open by the model: a final probe must be answered on the same socket
            let probe = Req { method: "GET".into(), target: Target::Echo, conn: 1, http10: false, body: None, malformed: None, extra_headers: 0 };
            let n = s.steps.len();
            let bytes = render_request(&probe, n);
            let _ = client.stream.write_all(&bytes);
            expected_log.push(("GET".into(), "/echo".into(), format!("n={}", n), Vec::new()));
            let e = Expect::Ok { status: 200, version: "HTTP/1.1", body: body_for(&probe, n), cors: Vec::new(), stays_open: false };
            match client.read_response(long, &mut fails, false) {
                Ok(Some((r, _))) => check_response(n, "probe", &r, &e, &mut fails),
                Ok(None) => fails.push(fail!("closed-although-keep-alive", "the connection was closed although the last request was well-formed and asked for keep-alive (probe got EOF)")),
                Err(t) => fails.push(fail!("closed-although-keep-alive", "probe on a kept-alive connection: {}", t)),
            }
        }
    }
    client.finish();
    // the handler-side log: strict part exactly, lenient part as a subsequence
    if !fails.iter().any(|f| f.sig != "crlf-after-body" && f.sig != "readahead-loss") {
        std::thread::sleep(Duration::from_millis(2));
        let log = running.log();
        let strict = &log[..log.len().min(expected_log.len())];
        if strict != &expected_log[..] {
            fails.push(fail!("dispatch-log", "handlers were dispatched with {:?} but the client sent {:?}", summarize(&log), summarize(&expected_log)));
        } else {
            let mut it = lenient_log.iter();
            for entry in &log[expected_log.len()..] {
                if !it.any(|e| e == entry) {
                    fails.push(fail!("dispatch-log", "a handler was dispatched with {:?}, which no request on the connection denotes (in order)", summarize(&[entry.clone()])));
                    break;
                }
            }
        }
    }
    // the server must still serve new connections (a panicking handler costs only its own connection)
    if s.steps.iter().any(|x| matches!(x, Step::Request(r) if r.target == Target::Panic)) {
        for k in 0..s.threads + 1 {
            match crate::common::net::exchange(addr, format!("GET /echo?n=after{} HTTP/1.1\r\nHost: x\r\n\r\n", k).as_bytes(), Duration::from_secs(10)) {
                Ok(b) if b.starts_with(b"HTTP/1.1 200") => {}
                Ok(b) => fails.push(fail!("after-panic", "after a handler panic a new connection got {}", show(&b[..b.len().min(80)]))),
                Err(e) => fails.push(fail!("after-panic", "after a handler panic a new connection failed: {}", e)),
            }
        }
    }
    if let Err(e) = running.stop(Duration::from_secs(15)) {
        fails.push(Fail::new("harness-stop", e));
    }
    fails
}

fn exp_no_close(s: &Script, j: usize) -> Option<Expect> {
    // expectation for step j assuming the connection is open (used in the lenient tail)
    match &s.steps[j] {
        Step::Request(r) if r.malformed.is_none() && !(r.target == Target::Panic && r.method != "OPTIONS") => {
            let one = Script { steps: vec![Step::Request(r.clone())], pipelined: vec![], ..s.clone() };
            match model(&one).pop().flatten() {
                Some(Expect::Ok { status: 200, version, cors, stays_open, .. }) => Some(Expect::Ok { status: 200, version, body: body_for(r, j), cors, stays_open }),
                other => other,
            }
        }
        _ => None,
    }
}

fn short(e: &Expect) -> String {
    match e {
        Expect::Ok { status, body, .. } => format!("{} with {} body bytes", status, body.len()),
        other => format!("{:?}", other),
    }
}

fn summarize(l: &[(String, String, String, Vec<u8>)]) -> Vec<String> {
    l.iter().map(|(m, u, q, b)| format!("{} {}?{} [{} bytes]", m, u, q, b.len())).collect()
}

/// N panics, then N simultaneous keep-alive connections on an N-thread pool must all be served.
pub fn pool_recovery(threads: usize, panics: usize, ip: &str, start: StartFn) -> Vec<Fail> {
    let running = match start(threads, false, 0, ip) {
        Ok(r) => r,
        Err(e) => return vec![Fail::new("harness-app", e)],
    };
    let addr = running.addr();
    let mut fails = Vec::new();
    for k in 0..panics {
        match crate::common::net::exchange(addr, format!("GET /panic?n={} HTTP/1.1\r\nHost: x\r\nConnection: keep-alive\r\n\r\n", k).as_bytes(), Duration::from_secs(10)) {
            Ok(b) if b.is_empty() => {}
            Ok(b) => fails.push(fail!("panic-answered", "panicking handler produced bytes: {}", show(&b[..b.len().min(60)]))),
            Err(e) => fails.push(Fail::new("harness-exchange", e)),
        }
    }
    // give the recovery thread a moment, then occupy all N workers at once
    std::thread::sleep(Duration::from_millis(20));
    let mut clients = Vec::new();
    for _ in 0..threads {
        match Client::connect(addr) {
            Ok(c) => clients.push(c),
            Err(e) => fails.push(Fail::new("harness-connect", e)),
        }
    }
    for (k, c) in clients.iter_mut().enumerate() {
        let _ = c.stream.write_all(format!("GET /echo?n=w{} HTTP/1.1\r\nHost: x\r\nConnection: keep-alive\r\n\r\n", k).as_bytes());
    }
    for (k, c) in clients.iter_mut().enumerate() {
        let mut tmp = Vec::new();
        match c.read_response(Duration::from_secs(10), &mut tmp, false) {
            Ok(Some((r, _))) if r.status == 200 => {}
            other => fails.push(fail!(
                "pool-not-recovered",
                "after {} handler panics on a {}-thread pool, simultaneous keep-alive connection #{} was not served ({}): the pool is no longer back to {} usable workers",
                panics,
                threads,
                k,
                match other {
                    Ok(Some((r, _))) => format!("status {}", r.status),
                    Ok(None) => "EOF".into(),
                    Err(e) => e,
                },
                threads
            )),
        }
    }
    for c in clients {
        c.finish();
    }
    if let Err(e) = running.stop(Duration::from_secs(15)) {
        fails.push(Fail::new("harness-stop", e));
    }
    fails
}

/// Reads one Content-Length framed response (headers + body) from `s`; leftover bytes stay in `buf`.
fn read_framed(s: &mut TcpStream, buf: &mut Vec<u8>, max: Duration) -> Result<(u16, Vec<u8>), String> {
    let deadline = Instant::now() + max;
    let mut tmp = vec![0u8; 1 << 16];
    loop {
        while buf.starts_with(b"\r\n") {
            buf.drain(..2); // stray CRLF after the previous body (known finding)
        }
        if let Some(p) = buf.windows(4).position(|w| w == b"\r\n\r\n") {
            let head = String::from_utf8_lossy(&buf[..p]).to_string();
            let status: u16 = head.split(' ').nth(1).and_then(|x| x.parse().ok()).unwrap_or(0);
            let cl: usize = head.lines().filter_map(|l| l.split_once(':')).find(|(n, _)| n.eq_ignore_ascii_case("content-length")).and_then(|(_, v)| v.trim().parse().ok()).unwrap_or(0);
            if buf.len() >= p + 4 + cl {
                let body = buf[p + 4..p + 4 + cl].to_vec();
                buf.drain(..p + 4 + cl);
                return Ok((status, body));
            }
        }
        if Instant::now() >= deadline {
            return Err(format!("no complete response within {:?} ({} bytes received)", max, buf.len()));
        }
        let _ = s.set_read_timeout(Some(Duration::from_millis(200)));
        match s.read(&mut tmp) {
            Ok(0) => return Err(format!("connection closed after {} bytes of a response", buf.len())),
            Ok(n) => buf.extend_from_slice(&tmp[..n]),
            Err(e) if e.kind() == std::io::ErrorKind::WouldBlock || e.kind() == std::io::ErrorKind::TimedOut => {}
            Err(e) => return Err(format!("read error after {} bytes: {}", buf.len(), e)),
        }
    }
}

/// A pause *inside* a request that is longer than the connection timeout: the timeout is about waiting for a request,
/// so the request must still get its one response. `pos`: 0 after the first byte, 1 inside the header section, 2 between
/// head and body, 3 inside the body. `second`: the slow request is the second one of a keep-alive connection.
pub fn slow_request(pos: u8, second: bool, ip: &str, start: StartFn, has_timeout: bool) -> Vec<Fail> {
    let running = match start(2, has_timeout, 0, ip) {
        Ok(r) => r,
        Err(e) => return vec![Fail::new("harness-app", e)],
    };
    let mut fails = Vec::new();
    let mut s = match connect_retry(running.addr(), Duration::from_secs(5)) {
        Ok(s) => s,
        Err(e) => return vec![Fail::new("harness-connect", e.to_string())],
    };
    let _ = s.set_nodelay(true);
    let mut buf = Vec::new();
    if second {
        let _ = s.write_all(b"GET /echo?n=first HTTP/1.1\r\nHost: x\r\nConnection: keep-alive\r\n\r\n");
        if let Err(e) = read_framed(&mut s, &mut buf, Duration::from_secs(10)) {
            let _ = running.stop(Duration::from_secs(15));
            return vec![Fail::new("harness-exchange", e)];
        }
    }
    let body = b"slow-body-0123456789";
    let req = format!("POST /echo?n=slow HTTP/1.1\r\nHost: x\r\nConnection: keep-alive\r\nX-Pad: {}\r\nContent-Length: {}\r\n\r\n", "p".repeat(40), body.len());
    let mut wire = req.clone().into_bytes();
    wire.extend_from_slice(body);
    let cut = match pos % 4 {
        0 => 1,
        1 => req.len() / 2,
        2 => req.len(),
        _ => req.len() + body.len() / 2,
    };
    let _ = s.write_all(&wire[..cut]);
    std::thread::sleep(Duration::from_millis(TIMEOUT_MS + 350));
    let _ = s.write_all(&wire[cut..]);
    match read_framed(&mut s, &mut buf, Duration::from_secs(6)) {
        Ok((200, b)) if b.ends_with(body) => {}
        Ok((st, b)) => fails.push(fail!("slow-request-wrong-response", "a request with a {} ms pause after byte {} (connection timeout {} ms{}) was answered {} {:?}", TIMEOUT_MS + 350, cut, TIMEOUT_MS, if second { ", second request of the connection" } else { "" }, st, show(&b[..b.len().min(60)]))),
        Err(e) => fails.push(fail!(
            "slow-request-not-answered",
            "a well-formed request delivered with a {} ms pause after byte {} of {} ({}connection timeout {} ms: the timeout is about waiting for a request, not about a slow one) got no response: {}",
            TIMEOUT_MS + 350, cut, wire.len(), if second { "second request of a keep-alive connection; " } else { "" }, TIMEOUT_MS, e
        )),
    }
    drop(s);
    if let Err(e) = running.stop(Duration::from_secs(15)) {
        fails.push(Fail::new("harness-stop", e));
    }
    fails
}

/// An 8 MiB response read by a client that starts reading late: body exactly as long as its Content-Length, intact,
/// and the next request on the connection is answered (framing intact).
pub fn huge_response(delay_ms: u64, ip: &str, start: StartFn) -> Vec<Fail> {
    let running = match start(2, false, 0, ip) {
        Ok(r) => r,
        Err(e) => return vec![Fail::new("harness-app", e)],
    };
    let mut fails = Vec::new();
    let mut s = match connect_retry(running.addr(), Duration::from_secs(5)) {
        Ok(s) => s,
        Err(e) => return vec![Fail::new("harness-connect", e.to_string())],
    };
    let mut buf = Vec::new();
    let _ = s.write_all(b"GET /huge HTTP/1.1\r\nHost: x\r\nConnection: keep-alive\r\n\r\n");
    std::thread::sleep(Duration::from_millis(delay_ms));
    let want = huge_body();
    match read_framed(&mut s, &mut buf, Duration::from_secs(20)) {
        Ok((200, b)) if b == *want => {
            let _ = s.write_all(b"GET /echo?n=after-huge HTTP/1.1\r\nHost: x\r\nConnection: close\r\n\r\n");
            match read_framed(&mut s, &mut buf, Duration::from_secs(10)) {
                Ok((200, _)) => {}
                Ok((st, _)) => fails.push(fail!("huge-response-breaks-framing", "the request after an 8 MiB response was answered {}", st)),
                Err(e) => fails.push(fail!("huge-response-breaks-framing", "the request after an 8 MiB response on the same connection was not answered: {}", e)),
            }
        }
        Ok((st, b)) => fails.push(fail!("huge-response-body", "8 MiB response read {} ms late: status {}, {} body bytes, {}", delay_ms, st, b.len(), if b.len() == want.len() { "content differs" } else { "length differs from Content-Length's promise" })),
        Err(e) => fails.push(fail!("huge-response-truncated", "a response with Content-Length {} read by a client that starts reading {} ms late did not arrive completely: {}", want.len(), delay_ms, e)),
    }
    drop(s);
    if let Err(e) = running.stop(Duration::from_secs(15)) {
        fails.push(Fail::new("harness-stop", e));
    }
    fails
}

/// the two sub-checks above for one runtime
pub fn extras(ctx: &Ctx, ip_base: &str, start: StartFn, has_timeout: bool, kind_prefix: &str) {
    let mut jobs: Vec<(u8, u8, bool)> = Vec::new(); // (kind, pos, second)
    if has_timeout {
        for pos in 0..4u8 {
            for second in [false, true] {
                jobs.push((0, pos, second));
            }
        }
    }
    for k in 0..ctx.tier.pick(2u8, 8u8) {
        jobs.push((1, k, false));
    }
    let next = std::sync::atomic::AtomicUsize::new(0);
    let found: Mutex<Vec<(Fail, J)>> = Mutex::new(Vec::new());
    crate::engine::shards(jobs.len().min(10), |sh| loop {
        let i = next.fetch_add(1, std::sync::atomic::Ordering::SeqCst);
        if i >= jobs.len() {
            break;
        }
        let (kind, pos, second) = jobs[i];
        let ip = format!("{}.{}", ip_base, 120 + sh);
        let (f, label, case) = if kind == 0 {
            (slow_request(pos, second, &ip, start, has_timeout), "pause-inside-request-longer-than-the-timeout", json!({"sub": "slow", "pos": pos, "second": second}))
        } else {
            (huge_response(100 + 50 * pos as u64, &ip, start), "8MiB-response-read-late", json!({"sub": "huge", "delay_ms": 100 + 50 * pos as u64}))
        };
        ctx.case(hash_of(&(kind_prefix, kind, pos, second)), true, &[label]);
        ctx.sample(label, || case.clone());
        for x in f {
            if x.sig.starts_with("harness-") {
                ctx.inconclusive(&format!("{}: {}", x.sig, x.detail));
            } else {
                found.lock().unwrap().push((x, case.clone()));
            }
        }
    });
    for (f, c) in found.into_inner().unwrap() {
        if !ctx.tolerate(&f) {
            ctx.violation(f, &format!("{}extra", kind_prefix), c);
        }
    }
}

// ------------------------------------------------------------------------------------------ generator

pub fn arb_req() -> impl Strategy<Value = Req> {
    (
        prop_oneof![4 => Just("GET"), 3 => Just("POST"), 1 => Just("PUT"), 1 => Just("DELETE"), 2 => Just("OPTIONS")],
        prop_oneof![5 => Just(Target::Echo), 1 => Just(Target::Empty), 2 => Just(Target::Cors), 1 => Just(Target::Panic), 1 => Just(Target::Big), 2 => Just(Target::Unrouted)],
        prop_oneof![1 => Just(0u8), 2 => Just(1u8), 6 => 2u8..6],
        prop_oneof![3 => Just(false), 1 => Just(true)],
        proptest::option::weighted(
            0.45,
            prop_oneof![
                1 => Just(Vec::new()),
                4 => proptest::collection::vec(any::<u8>(), 1..60),
                1 => Just(b"GET /echo?n=99 HTTP/1.1\r\nHost: smuggled\r\n\r\n".to_vec()),
                1 => (8000usize..20000).prop_map(|n| (0..n).map(|i| (i % 253) as u8).collect()),
            ]
        ),
        proptest::option::weighted(
            0.12,
            prop_oneof![Just(Malformed::NoVersion), Just(Malformed::UnknownMethod), Just(Malformed::Garbage), Just(Malformed::HeaderNoColon), Just(Malformed::BadLength), Just(Malformed::NegativeLength), Just(Malformed::NonUtf8Header)]
        ),
        0u8..4,
    )
        .prop_map(|(method, target, conn, http10, body, malformed, extra_headers)| Req { method: method.to_string(), target, conn, http10, body: if malformed.is_some() { None } else { body }, malformed, extra_headers })
}

pub fn arb_script() -> impl Strategy<Value = Script> {
    (
        1usize..5,
        prop_oneof![5 => Just(false), 1 => Just(true)],
        0u8..3,
        proptest::collection::vec(prop_oneof![12 => arb_req().prop_map(Step::Request), 1 => Just(Step::Idle)], 1..7),
        proptest::collection::vec(prop_oneof![9 => Just(false), 1 => Just(true)], 6),
        prop_oneof![4 => Just(Seg::PerRequest), 2 => Just(Seg::ByteWise), 3 => (any::<u64>(), prop_oneof![Just(3usize), Just(40), Just(700)]).prop_map(|(s, m)| Seg::Random(s, m))],
    )
        .prop_map(|(threads, timeout, cors_kind, mut steps, pipelined, seg)| {
            if !timeout {
                steps.retain(|s| !matches!(s, Step::Idle));
                if steps.is_empty() {
                    steps.push(Step::Request(Req { method: "GET".into(), target: Target::Echo, conn: 2, http10: false, body: None, malformed: None, extra_headers: 0 }));
                }
            }
            // byte-wise delivery of very large scripts is only a cost: keep bodies small there
            Script { threads, timeout, cors_kind, steps, pipelined, seg }
        })
}

pub fn labels_of(s: &Script) -> (bool, Vec<&'static str>) {
    let mut l = vec!["script"];
    let nreq = s.steps.len();
    if nreq >= 2 {
        l.push(">=2-requests");
    }
    if !matches!(s.seg, Seg::PerRequest) {
        l.push("split-inside-request");
    }
    if s.steps.iter().any(|x| matches!(x, Step::Request(r) if r.malformed.is_some())) {
        l.push("malformed");
    }
    if s.steps.iter().any(|x| matches!(x, Step::Idle)) && s.timeout {
        l.push("idle-timeout");
    }
    if s.steps.iter().any(|x| matches!(x, Step::Request(r) if r.target == Target::Panic && r.malformed.is_none())) {
        l.push("panic");
    }
    if s.pipelined.iter().take(s.steps.len().saturating_sub(1)).any(|p| *p) {
        l.push("pipelined-boundary");
    }
    if s.steps.iter().any(|x| matches!(x, Step::Request(r) if r.method == "OPTIONS")) {
        l.push("options");
    }
    if s.steps.iter().any(|x| matches!(x, Step::Request(r) if r.http10)) {
        l.push("http/1.0");
    }
    if s.steps.iter().any(|x| matches!(x, Step::Request(r) if r.body.as_ref().map_or(false, |b| b.len() > 8000))) {
        l.push("body>8KiB");
    }
    (l.len() > 1, l)
}

#[cfg(not(hvt))]
pub fn run(ctx: &Ctx) {
    ctx.rule("connection scripts of 1..6 steps over methods {GET,POST,PUT,DELETE,OPTIONS} x targets {echo, empty body, CORS-configured, panicking handler, 70 KB body, unrouted} x Connection {absent, close, keep-alive in four letter cases} x HTTP/1.0|1.1 x optional Content-Length body (incl. a body that looks like a request, bodies > 8 KiB) x {well-formed, 7 malformed kinds, idle past the timeout}, pool size 1..4, per-request / byte-wise / random segmentation of the client byte stream, sequential or pipelined boundaries; a reference connection model predicts each response (status, version, Date, Server, CORS, Content-Length framing, body) and where the connection closes; closure and keep-alive are decided by probes, not timeouts. Non-trivial = >=2 requests, a split inside a request, or a malformed / timeout / panic / pipelined element; distinct by script");
    ctx.assume("real App on a loopback alias per shard; the client owns its write schedule, the kernel may coalesce segments (coverage, not soundness); pipelined boundaries are judged leniently (known finding readahead-loss); 400/408 responses are only required to carry their status and to be followed by a close; connection timeout 1 s, idle 1.6 s, a stray 408 is inconclusive when the client itself was slow");
    let cases = ctx.share(ctx.tier.pick(800u32, 20_000u32)).max(16);
    let nshards = 16usize;
    crate::engine::shards(nshards, |i| {
        let ip = format!("127.0.1.{}", 1 + i);
        pt::run(
            ctx,
            "script",
            pt::Opts::new(cases / nshards as u32).salt(ctx.salt_of(100 + i as u64)).shrink_iters(24),
            arb_script(),
            |s| serde_json::to_value(s).unwrap(),
            |s| {
                let (nt, labels) = labels_of(s);
                ctx.case(hash_of(s), nt, &labels);
                ctx.sample(labels.last().unwrap(), || {
                    json!({"threads": s.threads, "timeout": s.timeout, "seg": s.seg, "pipelined": s.pipelined, "requests": s.steps.iter().enumerate().map(|(k, st)| match st { Step::Idle => "<idle past timeout>".to_string(), Step::Request(r) => show(&render_request(r, k)[..render_request(r, k).len().min(160)]) }).collect::<Vec<_>>()})
                });
                let f = run_script(s, &ip, &start_sync, true);
                if let Some(h) = f.iter().find(|x| x.sig.starts_with("harness-")) {
                    ctx.inconclusive(&format!("{}: {}", h.sig, h.detail));
                    return Vec::new();
                }
                f
            },
        );
    });
    // pool recovery scenarios
    let rec = ctx.share(ctx.tier.pick(16u32, 200u32)).max(1) as usize;
    let found: Mutex<Vec<(Fail, J)>> = Mutex::new(Vec::new());
    let next = std::sync::atomic::AtomicUsize::new(0);
    crate::engine::shards(nshards, |i| loop {
        let k = next.fetch_add(1, std::sync::atomic::Ordering::SeqCst);
        if k >= rec {
            break;
        }
        let threads = 1 + k % 4;
        let panics = threads + k % 3;
        ctx.case(hash_of(&("recovery", threads, panics, k)), true, &["pool-recovery"]);
        let f = pool_recovery(threads, panics, &format!("127.0.1.{}", 1 + i), &start_sync);
        for x in f {
            if x.sig.starts_with("harness-") {
                ctx.inconclusive(&x.detail);
            } else {
                found.lock().unwrap().push((x, json!({"threads": threads, "panics": panics})));
            }
        }
    });
    ctx.sample("pool-recovery", || json!({"scenario": "N..N+2 handler panics on an N-thread pool, then N simultaneous keep-alive connections must all be answered"}));
    if ctx.chunk.map_or(true, |(k, _)| k == 0) {
        extras(ctx, "127.0.1", &start_sync, true, "");
    }
    for (f, c) in found.into_inner().unwrap() {
        if !ctx.tolerate(&f) {
            ctx.violation(f, "recovery", c);
        }
    }
}

#[cfg(not(hvt))]
pub fn replay(_ctx: &Ctx, kind: &str, case: &J) -> Vec<Fail> {
    match kind {
        "script" => match serde_json::from_value::<Script>(case.clone()) {
            Ok(s) => run_script(&s, "127.0.1.99", &start_sync, true),
            Err(e) => vec![Fail::new("harness", format!("bad replay case: {}", e))],
        },
        "recovery" => pool_recovery(case["threads"].as_u64().unwrap_or(1) as usize, case["panics"].as_u64().unwrap_or(1) as usize, "127.0.1.99", &start_sync),
        "extra" => {
            if case["sub"] == "slow" {
                slow_request(case["pos"].as_u64().unwrap_or(0) as u8, case["second"].as_bool().unwrap_or(false), "127.0.1.99", &start_sync, true)
            } else {
                huge_response(case["delay_ms"].as_u64().unwrap_or(150), "127.0.1.99", &start_sync)
            }
        }
        _ => vec![Fail::new("harness", format!("unknown replay kind {}", kind))],
    }
}
