//! C20 — a shutdown signal always ends `run`, promptly, and frees the port.
//! Generated traffic states at the instant of the signal; `run` must return, the address must be
//! bindable again, and requests fully sent before the signal must still get complete responses.

use crate::common::http::{parse_response, RespParse};
use crate::common::net::connect_retry;
use crate::engine::{hash_of, pt, Ctx, Fail};
use humphrey::http::Request;
#[cfg(not(hvt))]
use humphrey::http::{Response, StatusCode};
#[cfg(not(hvt))]
use humphrey::stream::Stream;
#[cfg(not(hvt))]
use humphrey::App;
use proptest::prelude::*;
use serde::{Deserialize, Serialize};
use serde_json::{json, Value as J};
use std::io::{Read, Write};
use std::net::{SocketAddr, TcpListener, TcpStream};
use std::sync::{Arc, Condvar, Mutex};
use std::time::{Duration, Instant};

#[derive(Clone, Copy, Debug, Serialize, Deserialize, PartialEq)]
pub enum ConnState {
    JustAccepted,
    IdleKeepAlive,
    HalfSent,
    HandlerShort,
    /// handler blocks on a gate the harness opens after `run` has returned
    HandlerLong,
    /// large response, reader does not read until after the shutdown
    ResponseBeingWritten,
    WebSocketOpen,
}

#[derive(Clone, Copy, Debug, Serialize, Deserialize, PartialEq)]
pub enum When {
    BeforeFirstConnection,
    AfterStatesEstablished,
    /// concurrently with a burst of connects, offset in 100 us units
    DuringBurst(u8),
}

#[derive(Clone, Debug, Serialize, Deserialize)]
pub struct Scenario {
    pub threads: usize,
    pub conns: Vec<ConnState>,
    pub when: When,
    /// 0 = 127.0.0.x, 1 = 0.0.0.0, 2 = [::]
    pub bind: u8,
}

pub struct Gate {
    pub open: Mutex<bool>,
    pub cv: Condvar,
    pub entered: Mutex<usize>,
    /// connection numbers (query `c=<i>`) whose handler has started: evidence that the request was received
    pub started: Mutex<std::collections::BTreeSet<usize>>,
    /// set when the scenario is over: whatever the starter keeps alive for it (the tokio runtime) can go
    pub finished: std::sync::atomic::AtomicBool,
}

/// sets `Gate::finished` when the scenario function returns, on every path
struct FinishOnDrop(Arc<Gate>);
impl Drop for FinishOnDrop {
    fn drop(&mut self) {
        self.0.finished.store(true, std::sync::atomic::Ordering::SeqCst);
    }
}

/// what a runtime-specific starter returns: the channel on which `run`'s result arrives and the shutdown signal
pub struct Started {
    pub done: std::sync::mpsc::Receiver<Result<(), String>>,
    pub signal: Box<dyn FnOnce() + Send>,
}

/// (threads, gate, bind address, send the signal even before run is called) -> Started
pub type StartFn<'a> = &'a (dyn Fn(usize, Arc<Gate>, SocketAddr, bool) -> Started + Sync);

pub fn mark(r: &Request, s: &Arc<Arc<Gate>>) {
    if let Some(n) = r.query.strip_prefix("c=").and_then(|x| x.parse::<usize>().ok()) {
        s.started.lock().unwrap().insert(n);
    }
}

pub const HUGE: usize = 6 << 20;

#[cfg(not(hvt))]
fn build(threads: usize, gate: Arc<Gate>) -> App<Arc<Gate>> {
    App::new_with_config(threads, gate)
        .with_route("/ok", |r: Request, s: Arc<Arc<Gate>>| {
            mark(&r, &s);
            Response::new(StatusCode::OK, "fine")
        })
        .with_route("/short", |r: Request, s: Arc<Arc<Gate>>| {
            mark(&r, &s);
            std::thread::sleep(Duration::from_millis(25));
            Response::new(StatusCode::OK, "short done")
        })
        .with_route("/long", |r: Request, s: Arc<Arc<Gate>>| {
            mark(&r, &s);
            *s.entered.lock().unwrap() += 1;
            let mut g = s.open.lock().unwrap();
            while !*g {
                g = s.cv.wait(g).unwrap();
            }
            Response::new(StatusCode::OK, "long done")
        })
        .with_route("/huge", |r: Request, s: Arc<Arc<Gate>>| {
            mark(&r, &s);
            Response::new(StatusCode::OK, vec![b'h'; HUGE])
        })
        .with_websocket_route("/ws", |_r: Request, mut stream: Stream, _s: Arc<Arc<Gate>>| {
            let _ = stream.write_all(b"HTTP/1.1 101 Switching Protocols\r\nUpgrade: websocket\r\nConnection: Upgrade\r\n\r\n");
            let mut b = [0u8; 64];
            // hold the connection until the peer goes away
            loop {
                match stream.read(&mut b) {
                    Ok(0) | Err(_) => break,
                    Ok(_) => {}
                }
            }
        })
}

fn read_one_response(s: &mut TcpStream, max: Duration) -> Result<(u16, usize), String> {
    let _ = s.set_read_timeout(Some(Duration::from_millis(200)));
    let deadline = Instant::now() + max;
    let mut buf = Vec::new();
    let mut tmp = vec![0u8; 1 << 16];
    loop {
        if let RespParse::Complete(r) = parse_response(&buf, false) {
            return Ok((r.status, r.body.len()));
        }
        match s.read(&mut tmp) {
            Ok(0) => {
                return match parse_response(&buf, true) {
                    RespParse::Complete(r) if r.framing != crate::common::http::Framing::CloseDelimited || buf.is_empty() => Ok((r.status, r.body.len())),
                    _ => Err(format!("connection closed after {} bytes without a complete response", buf.len())),
                }
            }
            Ok(n) => buf.extend_from_slice(&tmp[..n]),
            Err(e) if e.kind() == std::io::ErrorKind::WouldBlock || e.kind() == std::io::ErrorKind::TimedOut => {
                if Instant::now() >= deadline {
                    return Err(format!("no complete response within {:?} ({} bytes so far)", max, buf.len()));
                }
            }
            Err(e) => return Err(format!("read error {} after {} bytes", e, buf.len())),
        }
    }
}

#[cfg(not(hvt))]
pub fn start_sync(threads: usize, gate: Arc<Gate>, bind_addr: SocketAddr, signal_first: bool) -> Started {
    let app = build(threads.max(1), gate);
    let (tx, rx) = std::sync::mpsc::channel();
    let app = app.with_shutdown(rx);
    let (done_tx, done_rx) = std::sync::mpsc::channel();
    if signal_first {
        let _ = tx.send(());
    }
    std::thread::spawn(move || {
        let r = app.run(bind_addr).map_err(|e| e.to_string());
        let _ = done_tx.send(r);
    });
    Started {
        done: done_rx,
        signal: Box::new(move || {
            let _ = tx.send(());
        }),
    }
}

/// Child process `hv worker c20fd <addr>`: with the descriptor limit lowered to 96, idle connections are opened until
/// no descriptor is left (so `accept` is failing with EMFILE when the signal comes), then the signal is sent.
/// Exit code 0: `run` returned within 5 s; 3: it did not; 2: the scenario could not be set up.
#[cfg(not(hvt))]
pub fn fd_worker(args: &[String]) -> i32 {
    let addr: SocketAddr = match args.first().and_then(|a| a.parse().ok()) {
        Some(a) => a,
        None => return 2,
    };
    let lim = libc::rlimit { rlim_cur: 96, rlim_max: 96 };
    if unsafe { libc::setrlimit(libc::RLIMIT_NOFILE, &lim) } != 0 {
        return 2;
    }
    let gate = Arc::new(Gate { open: Mutex::new(true), cv: Condvar::new(), entered: Mutex::new(0), started: Mutex::new(Default::default()), finished: std::sync::atomic::AtomicBool::new(false) });
    let st = start_sync(2, gate, addr, false);
    let t0 = Instant::now();
    loop {
        if TcpStream::connect_timeout(&addr, Duration::from_millis(200)).is_ok() {
            break;
        }
        if t0.elapsed() > Duration::from_secs(5) {
            return 2;
        }
        std::thread::sleep(Duration::from_millis(5));
    }
    let mut conns = Vec::new();
    let mut exhausted = false;
    for _ in 0..400 {
        match TcpStream::connect_timeout(&addr, Duration::from_millis(500)) {
            Ok(s) => conns.push(s),
            Err(_) => {
                exhausted = true;
                break;
            }
        }
    }
    if !exhausted {
        return 2;
    }
    // let the accept loop run into the limit as well
    std::thread::sleep(Duration::from_millis(300));
    (st.signal)();
    let r = match st.done.recv_timeout(Duration::from_secs(5)) {
        Ok(_) => 0,
        Err(_) => 3,
    };
    println!("c20fd: {} idle connections held, run returned: {}", conns.len(), r == 0);
    r
}

/// parent side of the descriptor-exhaustion scenario
#[cfg(not(hvt))]
pub fn fd_exhaustion(k: usize) -> Vec<Fail> {
    let exe = match std::env::current_exe() {
        Ok(e) => e,
        Err(e) => return vec![Fail::new("harness-exe", e.to_string())],
    };
    let ip = format!("127.0.20.{}", 200 + k % 40);
    let port = crate::common::net::free_port(&ip);
    let mut child = match std::process::Command::new(exe).args(["worker", "c20fd", &format!("{}:{}", ip, port)]).stdout(std::process::Stdio::piped()).stderr(std::process::Stdio::null()).spawn() {
        Ok(c) => c,
        Err(e) => return vec![Fail::new("harness-spawn", e.to_string())],
    };
    let t0 = Instant::now();
    loop {
        match child.try_wait() {
            Ok(Some(st)) => {
                return match st.code() {
                    Some(0) => Vec::new(),
                    Some(3) => vec![fail!("run-does-not-return:descriptors-exhausted", "with the descriptor limit reached by idle connections (accept failing with EMFILE at the moment of the signal), run did not return within 5 s of the shutdown signal")],
                    other => vec![Fail::new("harness-fd-scenario", format!("descriptor-exhaustion scenario could not be set up (child exit {:?})", other))],
                };
            }
            Ok(None) => {
                if t0.elapsed() > Duration::from_secs(30) {
                    let _ = child.kill();
                    let _ = child.wait();
                    return vec![Fail::new("harness-fd-scenario", "descriptor-exhaustion child did not finish within 30 s".to_string())];
                }
                std::thread::sleep(Duration::from_millis(20));
            }
            Err(e) => return vec![Fail::new("harness-fd-scenario", e.to_string())],
        }
    }
}

#[cfg(not(hvt))]
pub fn run_scenario(s: &Scenario, shard: usize) -> Vec<Fail> {
    run_scenario2(s, shard, None, &start_sync, 21000)
}

pub fn run_scenario2(s: &Scenario, shard: usize, ctx: Option<&Ctx>, start: StartFn, port_base: u16) -> Vec<Fail> {
    let gate = Arc::new(Gate { open: Mutex::new(false), cv: Condvar::new(), entered: Mutex::new(0), started: Mutex::new(Default::default()), finished: std::sync::atomic::AtomicBool::new(false) });
    let _finish = FinishOnDrop(gate.clone());
    let (bind_ip, connect_ip) = match s.bind % 3 {
        0 => (format!("127.0.20.{}", 1 + shard), format!("127.0.20.{}", 1 + shard)),
        1 => ("0.0.0.0".to_string(), format!("127.0.20.{}", 1 + shard)),
        _ => ("::".to_string(), "::1".to_string()),
    };
    // explicit port from a range private to this shard and below the ephemeral range: wildcard binds share the port
    // space of every loopback alias, so shards must never pick the same number
    static COUNTER: std::sync::atomic::AtomicUsize = std::sync::atomic::AtomicUsize::new(0);
    let port = {
        let mut found = None;
        for _ in 0..300 {
            let k = COUNTER.fetch_add(1, std::sync::atomic::Ordering::SeqCst);
            let p = port_base + (shard % 16) as u16 * 300 + (k % 300) as u16;
            let ok_specific = TcpListener::bind((bind_ip.as_str(), p)).is_ok();
            let ok_wild = TcpListener::bind(("0.0.0.0", p)).is_ok() && TcpListener::bind(("::", p)).is_ok();
            if ok_specific && ok_wild {
                found = Some(p);
                break;
            }
        }
        match found {
            Some(p) => p,
            None => return vec![Fail::new("harness-bind", "no free port in this shard's range")],
        }
    };
    let bind_addr: SocketAddr = format!("{}:{}", if bind_ip.contains(':') { format!("[{}]", bind_ip) } else { bind_ip.clone() }, port).parse().unwrap();
    let connect_addr: SocketAddr = format!("{}:{}", if connect_ip.contains(':') { format!("[{}]", connect_ip) } else { connect_ip.clone() }, port).parse().unwrap();
    let signal_first = matches!(s.when, When::BeforeFirstConnection) && s.conns.is_empty();
    let t_start = Instant::now();
    let Started { done: done_rx, signal } = start(s.threads.max(1), gate.clone(), bind_addr, signal_first);
    let mut signal = Some(signal);
    let mut fails = Vec::new();
    let open_gate = || {
        *gate.open.lock().unwrap() = true;
        gate.cv.notify_all();
    };
    // wait until listening (unless the signal was already sent)
    let mut signalled = matches!(s.when, When::BeforeFirstConnection) && s.conns.is_empty();
    if !signalled {
        let t0 = Instant::now();
        loop {
            if let Ok(r) = done_rx.try_recv() {
                open_gate();
                return vec![Fail::new("harness-run-early", format!("run returned before any signal: {:?}", r))];
            }
            if TcpStream::connect_timeout(&connect_addr, Duration::from_millis(200)).is_ok() {
                break;
            }
            if t0.elapsed() > Duration::from_secs(10) {
                open_gate();
                return vec![Fail::new("harness-listen", "app did not start listening")];
            }
            std::thread::sleep(Duration::from_millis(2));
        }
    }
    // ---- establish the traffic state
    struct Conn {
        state: ConnState,
        sock: TcpStream,
        /// a request was fully sent before the signal and awaits its response
        awaiting: Option<usize>, // expected body length
    }
    let mut conns: Vec<Conn> = Vec::new();
    let long_count = s.conns.iter().filter(|c| **c == ConnState::HandlerLong).count();
    let occupying = s.conns.iter().filter(|c| matches!(c, ConnState::HandlerLong | ConnState::WebSocketOpen | ConnState::IdleKeepAlive | ConnState::JustAccepted | ConnState::HalfSent | ConnState::ResponseBeingWritten)).count();
    let establish = |st: ConnState, idx: usize| -> Result<Conn, String> {
        // connections racing with the signal get a single attempt: the listener may already be gone
        let mut sock = if idx == 9999 { TcpStream::connect_timeout(&connect_addr, Duration::from_millis(300)).map_err(|e| e.to_string())? } else { connect_retry(connect_addr, Duration::from_secs(5)).map_err(|e| e.to_string())? };
        let _ = sock.set_nodelay(true);
        let mut awaiting = None;
        match st {
            ConnState::JustAccepted => {}
            ConnState::IdleKeepAlive => {
                sock.write_all(format!("GET /ok?c={} HTTP/1.1\r\nHost: x\r\nConnection: keep-alive\r\n\r\n", idx).as_bytes()).map_err(|e| e.to_string())?;
                // the response may have to wait for a free worker: do not block on it here
                awaiting = Some(4);
            }
            ConnState::HalfSent => {
                sock.write_all(b"GET /ok HTTP/1.1\r\nHost: x\r\nX-Part").map_err(|e| e.to_string())?;
            }
            ConnState::HandlerShort => {
                sock.write_all(format!("GET /short?c={} HTTP/1.1\r\nHost: x\r\n\r\n", idx).as_bytes()).map_err(|e| e.to_string())?;
                awaiting = Some(10);
            }
            ConnState::HandlerLong => {
                sock.write_all(format!("GET /long?c={} HTTP/1.1\r\nHost: x\r\n\r\n", idx).as_bytes()).map_err(|e| e.to_string())?;
                awaiting = Some(9);
            }
            ConnState::ResponseBeingWritten => {
                sock.write_all(format!("GET /huge?c={} HTTP/1.1\r\nHost: x\r\n\r\n", idx).as_bytes()).map_err(|e| e.to_string())?;
                awaiting = Some(HUGE);
            }
            ConnState::WebSocketOpen => {
                sock.write_all(b"GET /ws HTTP/1.1\r\nHost: x\r\nUpgrade: websocket\r\nSec-WebSocket-Key: abc\r\n\r\n").map_err(|e| e.to_string())?;
            }
        }
        Ok(Conn { state: st, sock, awaiting })
    };
    let burst_at = match s.when {
        When::DuringBurst(_) => s.conns.len() / 2,
        _ => s.conns.len(),
    };
    for (idx, st) in s.conns.iter().enumerate().take(burst_at) {
        match establish(*st, idx) {
            Ok(c) => conns.push(c),
            Err(e) => {
                open_gate();
                return vec![Fail::new("harness-connect", e)];
            }
        }
    }
    // let the server get as far as it can with these
    std::thread::sleep(Duration::from_millis(30));
    // before the signal the server serves normally (only probed when a worker is certainly free)
    if !signalled && occupying < s.threads && !matches!(s.when, When::DuringBurst(_)) {
        match crate::common::net::exchange(connect_addr, b"GET /ok HTTP/1.1\r\nHost: x\r\n\r\n", Duration::from_secs(10)) {
            Ok(b) if b.starts_with(b"HTTP/1.1 200") => {}
            Ok(b) => fails.push(fail!("not-serving-before-signal", "before the signal a probe request got {}", crate::engine::show(&b[..b.len().min(60)]))),
            Err(e) => fails.push(fail!("not-serving-before-signal", "before the signal a probe request failed: {}", e)),
        }
    }
    // ---- the signal (possibly concurrent with a burst of connects)
    let started_before: std::collections::BTreeSet<usize> = gate.started.lock().unwrap().clone();
    let t_signal;
    let mut late: Vec<Conn> = Vec::new();
    match s.when {
        When::DuringBurst(off) => {
            let rest: Vec<ConnState> = s.conns.iter().skip(burst_at).copied().collect();
            let sg = signal.take();
            let sig = std::thread::spawn(move || {
                std::thread::sleep(Duration::from_micros(off as u64 * 100));
                if let Some(f) = sg {
                    f();
                }
                Instant::now()
            });
            for st in rest {
                // connects racing with the signal may be refused or dropped: not an error
                if let Ok(mut c) = establish(st, 9999) {
                    c.awaiting = None;
                    late.push(c);
                }
            }
            t_signal = sig.join().unwrap_or_else(|_| Instant::now());
        }
        _ => {
            if !signalled {
                if let Some(f) = signal.take() {
                    f();
                }
            }
            t_signal = if signalled { t_start } else { Instant::now() };
        }
    }
    signalled = true;
    let _ = signalled;
    // ---- run must return
    let waited = done_rx.recv_timeout(Duration::from_secs(10));
    let returned = match waited {
        Ok(Ok(())) => true,
        Ok(Err(e)) => {
            fails.push(fail!("run-error", "run returned an error after the shutdown signal: {}", e));
            true
        }
        Err(_) => {
            // pinpoint a lost wake-up: does one more connection release it?
            let extra = TcpStream::connect_timeout(&connect_addr, Duration::from_millis(500)).is_ok();
            let after = done_rx.recv_timeout(Duration::from_secs(3)).is_ok();
            fails.push(fail!(
                if after { "run-needs-extra-connection" } else { "run-does-not-return" },
                "`run` did not return within 10 s of the shutdown signal (threads {}, connections {:?}, signal {:?}, bind {}); an extra connection afterwards {} and run then {}",
                s.threads, s.conns, s.when, bind_addr, if extra { "succeeded" } else { "failed" }, if after { "returned" } else { "still did not return" }
            ));
            after
        }
    };
    let took = t_signal.elapsed();
    // ---- the address can be bound again at once
    if returned {
        match TcpListener::bind(bind_addr) {
            Ok(l) => drop(l),
            Err(e) => fails.push(fail!("port-not-freed", "after `run` returned, binding {} again failed: {}", bind_addr, e)),
        }
    }
    // ---- requests received before the signal still get complete responses once their handlers are released
    open_gate();
    let pool_capacity_ok = long_count + s.conns.iter().filter(|c| matches!(c, ConnState::WebSocketOpen | ConnState::JustAccepted | ConnState::HalfSent)).count() <= s.threads.max(1) || true;
    let _ = pool_capacity_ok;
    // connections that hold a worker forever (websocket, silent, half-sent) must be closed by us so that queued ones get their turn
    for c in conns.iter_mut() {
        if matches!(c.state, ConnState::WebSocketOpen | ConnState::JustAccepted | ConnState::HalfSent) {
            let _ = c.sock.shutdown(std::net::Shutdown::Both);
        }
    }
    for (i, c) in conns.iter_mut().enumerate() {
        if let Some(len) = c.awaiting {
            if let Some(c) = ctx {
                c.label(if started_before.contains(&i) { "awaited:handler-had-started(response required)" } else { "awaited:not-yet-dispatched(not required)" }, 1);
            }
            if !started_before.contains(&i) {
                // the handler had not started when the signal was sent: the request was sent but there is no evidence
                // that the server had received it (it may still have been in the listener's backlog, which is reset)
                continue;
            }
            match read_one_response(&mut c.sock, Duration::from_secs(15)) {
                Ok((200, n)) if n == len => {}
                Ok((st, n)) => fails.push(fail!("response-wrong-after-shutdown", "connection {} ({:?}): response {} with {} body bytes, expected 200 with {}", i, c.state, st, n, len)),
                Err(e) => fails.push(fail!(
                    format!("response-lost-after-shutdown:{:?}", c.state),
                    "connection {} ({:?}) had sent its whole request before the shutdown signal but its response was truncated or never came: {} (threads {}, {} connections)",
                    i, c.state, e, s.threads, s.conns.len()
                )),
            }
        }
        let _ = c.sock.shutdown(std::net::Shutdown::Both);
    }
    for c in late.iter_mut() {
        let _ = c.sock.shutdown(std::net::Shutdown::Both);
    }
    let _ = took;
    fails
}

pub fn arb_scenario() -> impl Strategy<Value = Scenario> {
    let st = prop_oneof![
        Just(ConnState::JustAccepted),
        Just(ConnState::IdleKeepAlive),
        Just(ConnState::HalfSent),
        Just(ConnState::HandlerShort),
        Just(ConnState::HandlerLong),
        Just(ConnState::ResponseBeingWritten),
        Just(ConnState::WebSocketOpen),
    ];
    (
        1usize..9,
        proptest::collection::vec(st, 0..17),
        prop_oneof![1 => Just(When::BeforeFirstConnection), 4 => Just(When::AfterStatesEstablished), 3 => any::<u8>().prop_map(|o| When::DuringBurst(o % 51))],
        0u8..3,
    )
        .prop_map(|(threads, mut conns, when, bind)| {
            if matches!(when, When::BeforeFirstConnection) {
                conns.clear();
            }
            // at most two huge responses per scenario (memory / time)
            let mut huge = 0;
            conns.retain(|c| {
                if *c == ConnState::ResponseBeingWritten {
                    huge += 1;
                    huge <= 2
                } else {
                    true
                }
            });
            Scenario { threads, conns, when, bind }
        })
}

#[cfg(not(hvt))]
pub fn run(ctx: &Ctx) {
    ctx.rule("traffic states at the instant of the signal: 0..16 connections each {just accepted, idle keep-alive, half-sent request, short handler, handler blocked on a harness gate, 6 MB response with a reader that does not read, WebSocket open}, pools of 1..8 threads (often fully occupied with queued connections), signal before the first connection (even before run), after the states are established, or concurrently with a burst of connects (offset 0..5 ms); bind 127.0.0.x, 0.0.0.0 and [::] with an explicit free port. Oracle: a probe is served before the signal (when a worker is free), `run` returns Ok within 10 s (else one extra connection is made to pinpoint a lost wake-up), the same address binds again at once, and every request fully sent before the signal gets its complete response after the gate opens. Non-trivial: a connection that is not idle at the signal, a fully occupied pool, or a signal concurrent with connects; distinct by scenario");
    ctx.assume("threaded runtime; timing is sampled, not controlled; bounded time is the property (10 s margin, typical return is milliseconds); connections racing with the signal are not required to be answered");
    let cases = ctx.share(ctx.tier.pick(1920u32, 16000u32)).max(16);
    let nshards = 16;
    crate::engine::shards(nshards, |i| {
        pt::run(
            ctx,
            "scenario",
            pt::Opts::new(cases / nshards as u32).salt(ctx.salt_of(2000 + i as u64)).shrink_iters(24),
            arb_scenario(),
            |s| serde_json::to_value(s).unwrap(),
            |s| {
                let f = run_scenario2(s, i, Some(ctx), &start_sync, 21000);
                if let Some(h) = f.iter().find(|x| x.sig.starts_with("harness-")) {
                    ctx.inconclusive(&format!("{}: {}", h.sig, h.detail));
                    return Vec::new();
                }
                let busy = s.conns.iter().filter(|c| !matches!(c, ConnState::HandlerShort)).count();
                let full = busy >= s.threads;
                let not_idle = s.conns.iter().any(|c| !matches!(c, ConnState::IdleKeepAlive | ConnState::JustAccepted));
                let mut labels = vec!["scenario"];
                if full {
                    labels.push("pool-fully-occupied");
                }
                if not_idle {
                    labels.push("non-idle-connection");
                }
                match s.when {
                    When::DuringBurst(_) => labels.push("signal-during-burst"),
                    When::BeforeFirstConnection => labels.push("signal-before-first-connection"),
                    _ => labels.push("signal-after-states"),
                }
                labels.push(["bind:127.0.0.x", "bind:0.0.0.0", "bind:[::]"][s.bind as usize % 3]);
                ctx.case(hash_of(&format!("{:?}", s)), full || not_idle || matches!(s.when, When::DuringBurst(_)), &labels);
                ctx.sample(labels[labels.len() - 2], || serde_json::to_value(s).unwrap());
                f
            },
        );
    });
    // "no matter how many connections are idle": so many that the process is out of descriptors and accept fails
    for k in 0..if ctx.chunk.map_or(true, |(c, _)| c == 0) { ctx.tier.pick(2usize, 10usize) } else { 0 } {
        ctx.case(hash_of(&("fd-exhaustion", k)), true, &["descriptors-exhausted-at-signal"]);
        for f in fd_exhaustion(k) {
            if f.sig.starts_with("harness-") {
                ctx.inconclusive(&format!("{}: {}", f.sig, f.detail));
            } else if !ctx.tolerate(&f) {
                ctx.violation(f, "fd", json!({"k": k}));
            }
        }
    }
    ctx.sample("descriptors-exhausted-at-signal", || json!({"scenario": "child process with RLIMIT_NOFILE 96: idle connections until none can be opened, then the signal; run must return within 5 s"}));
}

#[cfg(not(hvt))]
pub fn replay(_ctx: &Ctx, kind: &str, case: &J) -> Vec<Fail> {
    if kind == "fd" {
        return fd_exhaustion(case["k"].as_u64().unwrap_or(0) as usize);
    }
    match serde_json::from_value::<Scenario>(case.clone()) {
        Ok(s) => run_scenario(&s, 15),
        Err(e) => vec![Fail::new("harness", format!("bad replay case: {}", e))],
    }
}
