//! C04 — routing: first matching host, then first matching route, else default, else 404.
//! A generated application is started on loopback; each handler answers with its own identity;
//! the reference router (reference glob matcher + the stated rule) predicts who must answer.

use crate::common::glob::glob_match;
use crate::common::net::exchange;
#[cfg(not(hvt))]
use crate::common::net_app::start_app;
use crate::engine::{hash_of, pt, Ctx, Fail};
#[cfg(not(hvt))]
use humphrey::http::{Response, StatusCode};
#[cfg(not(hvt))]
use humphrey::stream::Stream;
#[cfg(not(hvt))]
use humphrey::{App, SubApp};
use proptest::prelude::*;
use serde::{Deserialize, Serialize};
use serde_json::{json, Value as J};
#[cfg(not(hvt))]
use std::io::Write;
use std::time::Duration;

#[derive(Clone, Debug, Serialize, Deserialize)]
pub struct SubSpec {
    pub host: String,
    pub routes: Vec<String>,
    pub ws_routes: Vec<String>,
    /// after all routes are registered, `with_cors_config` is called for these routes (index modulo the number of
    /// routes): configuring a route must not change which route is chosen
    #[serde(default)]
    pub cors_on: Vec<u8>,
}

#[derive(Clone, Debug, Serialize, Deserialize)]
pub struct ReqCase {
    pub host: Option<String>,
    pub path: String,
    pub query: Option<String>,
    pub websocket: bool,
}

#[derive(Clone, Debug, Serialize, Deserialize)]
pub struct Case {
    pub hosts: Vec<SubSpec>,
    pub default: SubSpec,
    pub requests: Vec<ReqCase>,
}

/// reference router: Some((host index or usize::MAX for default, route index)) or None
pub fn reference_route(c: &Case, r: &ReqCase) -> (Option<(usize, usize)>, usize) {
    let pick = |s: &SubSpec| if r.websocket { &s.ws_routes } else { &s.routes }.iter().position(|p| glob_match(p, &r.path));
    let mut candidates = 0;
    if let Some(h) = &r.host {
        let matching: Vec<usize> = c.hosts.iter().enumerate().filter(|(_, s)| glob_match(&s.host, h)).map(|(i, _)| i).collect();
        candidates += matching.len().saturating_sub(1);
        if let Some(&hi) = matching.first() {
            let routes = if r.websocket { &c.hosts[hi].ws_routes } else { &c.hosts[hi].routes };
            candidates += routes.iter().filter(|p| glob_match(p, &r.path)).count().saturating_sub(1);
            if let Some(ri) = pick(&c.hosts[hi]) {
                return (Some((hi, ri)), candidates);
            }
            candidates += 1; // host matched but falls through to the default app
        }
    }
    let d = if r.websocket { &c.default.ws_routes } else { &c.default.routes };
    candidates += d.iter().filter(|p| glob_match(p, &r.path)).count().saturating_sub(1);
    (pick(&c.default).map(|ri| (usize::MAX, ri)), candidates)
}

pub fn ident(hi: usize, ri: usize, ws: bool) -> String {
    format!("{}:{}:{}", if ws { "ws" } else { "http" }, if hi == usize::MAX { "default".to_string() } else { format!("host{}", hi) }, ri)
}

#[cfg(not(hvt))]
fn build_sub(spec: &SubSpec, hi: usize) -> SubApp<()> {
    let mut s: SubApp<()> = SubApp::new();
    for (ri, p) in spec.routes.iter().enumerate() {
        let id = ident(hi, ri, false);
        s = s.with_route(p, move |_req: humphrey::http::Request, _st: std::sync::Arc<()>| Response::new(StatusCode::OK, id.clone()));
    }
    for (ri, p) in spec.ws_routes.iter().enumerate() {
        let id = ident(hi, ri, true);
        s = s.with_websocket_route(p, move |_req: humphrey::http::Request, mut stream: Stream, _st: std::sync::Arc<()>| {
            let _ = stream.write_all(id.as_bytes());
            let _ = stream.shutdown();
        });
    }
    for k in &spec.cors_on {
        if !spec.routes.is_empty() {
            s = s.with_cors_config(&spec.routes[*k as usize % spec.routes.len()], humphrey::http::cors::Cors::wildcard());
        }
    }
    s
}

#[cfg(not(hvt))]
pub fn check(c: &Case, shard: usize, ctx: Option<&Ctx>) -> Vec<Fail> {
    let mut app: App<()> = App::new_with_config(4, ()).with_default_subapp(build_sub(&c.default, usize::MAX));
    for (hi, h) in c.hosts.iter().enumerate() {
        app = app.with_host(&h.host, build_sub(h, hi));
    }
    let running = match start_app(app, &format!("127.0.4.{}", 1 + shard)) {
        Ok(r) => r,
        Err(e) => return vec![Fail::new("harness-app", e)],
    };
    let fails = check_requests(c, running.addr, ctx);
    let _ = running.stop(Duration::from_secs(10));
    fails
}

/// sends the case's requests to a server already running at `addr` and compares with the reference router
pub fn check_requests(c: &Case, addr: std::net::SocketAddr, ctx: Option<&Ctx>) -> Vec<Fail> {
    let mut fails = Vec::new();
    for r in &c.requests {
        let (want, candidates) = reference_route(c, r);
        let target = match &r.query {
            Some(q) => format!("{}?{}", r.path, q),
            None => r.path.clone(),
        };
        let mut req = format!("GET {} HTTP/1.1\r\n", target);
        if let Some(h) = &r.host {
            req.push_str(&format!("Host: {}\r\n", h));
        }
        req.push_str("X-Unrelated: 1\r\nConnection: close\r\n");
        if r.websocket {
            req.push_str("Upgrade: websocket\r\nSec-WebSocket-Key: dGhlIHNhbXBsZSBub25jZQ==\r\n");
        }
        req.push_str("\r\n");
        if let Some(cx) = ctx {
            let nt = candidates > 0;
            let mut labels = vec![if r.websocket { "ws-request" } else { "http-request" }];
            if nt {
                labels.push("order-decides");
            }
            match want {
                None => labels.push("expect:no-route"),
                Some((usize::MAX, _)) => labels.push("expect:default-app"),
                Some(_) => labels.push("expect:host-app"),
            }
            cx.case(hash_of(&(format!("{:?}", c.hosts), format!("{:?}", c.default), &req)), nt, &labels);
            if nt {
                cx.sample(labels.last().unwrap(), || json!({"hosts": c.hosts, "default": c.default, "request": r, "expected": want.map(|(h, i)| ident(h, i, r.websocket))}));
            }
        }
        let bytes = match exchange(addr, req.as_bytes(), Duration::from_secs(10)) {
            Ok(b) => b,
            Err(e) => {
                fails.push(Fail::new("harness-exchange", e));
                break;
            }
        };
        let text = String::from_utf8_lossy(&bytes).to_string();
        let describe = || format!("Host {:?} path {:?} (websocket: {}) with hosts {:?} default {:?}", r.host, target, r.websocket, c.hosts.iter().map(|h| (&h.host, if r.websocket { &h.ws_routes } else { &h.routes })).collect::<Vec<_>>(), if r.websocket { &c.default.ws_routes } else { &c.default.routes });
        if r.websocket {
            let want_id = want.map(|(h, i)| ident(h, i, true));
            match want_id {
                Some(id) => {
                    if text != id {
                        fails.push(fail!("ws-wrong-handler", "WebSocket upgrade was handled by {:?}, the rule selects {:?}: {}", text, id, describe()));
                    }
                }
                None => {
                    if !bytes.is_empty() {
                        fails.push(fail!("ws-unrouted-answered", "WebSocket upgrade without matching route received {:?} instead of a closed connection: {}", text, describe()));
                    }
                }
            }
        } else {
            let status: u16 = text.split(' ').nth(1).and_then(|s| s.parse().ok()).unwrap_or(0);
            let body = text.split("\r\n\r\n").nth(1).unwrap_or("").trim_end_matches("\r\n").to_string();
            match want {
                Some((h, i)) => {
                    let id = ident(h, i, false);
                    if status != 200 || body != id {
                        let kind = if status == 404 { "routed-request-404" } else if h == usize::MAX { "wrong-handler-default" } else { "wrong-handler-host" };
                        fails.push(fail!(kind, "request answered {} {:?}, the rule selects {:?}: {}", status, body, id, describe()));
                    }
                }
                None => {
                    if status != 404 {
                        fails.push(fail!("unrouted-not-404", "request without matching route answered {} {:?} instead of 404: {}", status, body, describe()));
                    }
                }
            }
        }
    }
    if fails.is_empty() {
        fails.extend(check_keepalive(c, addr, ctx));
    }
    fails
}

/// reads one Content-Length framed response from a keep-alive connection: (status, body)
fn read_one_response(s: &mut std::net::TcpStream, buf: &mut Vec<u8>) -> Result<(u16, String), String> {
    use std::io::Read;
    let mut tmp = [0u8; 4096];
    loop {
        // Humphrey appends a stray CRLF to non-empty bodies (known finding of C01/C07): skip it between messages
        while buf.starts_with(b"\r\n") {
            buf.drain(..2);
        }
        if let Some(p) = buf.windows(4).position(|w| w == b"\r\n\r\n") {
            let head = String::from_utf8_lossy(&buf[..p]).to_string();
            let status: u16 = head.split(' ').nth(1).and_then(|x| x.parse().ok()).unwrap_or(0);
            let cl: usize = head.lines().filter_map(|l| l.split_once(':')).find(|(n, _)| n.eq_ignore_ascii_case("content-length")).and_then(|(_, v)| v.trim().parse().ok()).unwrap_or(0);
            if buf.len() >= p + 4 + cl {
                let body = String::from_utf8_lossy(&buf[p + 4..p + 4 + cl]).to_string();
                buf.drain(..p + 4 + cl);
                return Ok((status, body));
            }
        }
        match s.read(&mut tmp) {
            Ok(0) => return Err(format!("connection closed after {} bytes of a response", buf.len())),
            Ok(n) => buf.extend_from_slice(&tmp[..n]),
            Err(e) => return Err(format!("read: {}", e)),
        }
    }
}

/// The same plain requests again, several per keep-alive connection: the choice may depend on the Host header, the path
/// and the registration order only, not on what was asked before on the same connection.
fn check_keepalive(c: &Case, addr: std::net::SocketAddr, ctx: Option<&Ctx>) -> Vec<Fail> {
    use std::io::Write;
    let mut fails = Vec::new();
    let plain: Vec<&ReqCase> = c.requests.iter().filter(|r| !r.websocket).collect();
    let mut k = 0usize;
    let mut group_no = 0usize;
    while k < plain.len() {
        let len = 2 + group_no % 4;
        let group = &plain[k..(k + len).min(plain.len())];
        k += len;
        group_no += 1;
        if group.len() < 2 {
            break;
        }
        let mut stream = match crate::common::net::connect_retry(addr, Duration::from_secs(5)) {
            Ok(s) => s,
            Err(e) => return vec![Fail::new("harness-connect", e.to_string())],
        };
        let _ = stream.set_read_timeout(Some(Duration::from_secs(10)));
        let mut buf = Vec::new();
        let mut prev: Option<&ReqCase> = None;
        for (gi, r) in group.iter().enumerate() {
            let (want, _) = reference_route(c, r);
            let target = match &r.query {
                Some(q) => format!("{}?{}", r.path, q),
                None => r.path.clone(),
            };
            let mut req = format!("GET {} HTTP/1.1\r\n", target);
            if let Some(h) = &r.host {
                req.push_str(&format!("Host: {}\r\n", h));
            }
            req.push_str(if gi + 1 == group.len() { "Connection: close\r\n\r\n" } else { "Connection: keep-alive\r\n\r\n" });
            if let Some(cx) = ctx {
                let differs = prev.map_or(false, |p| p.host != r.host);
                cx.case(hash_of(&(format!("{:?}", c.hosts), format!("{:?}", c.default), "keep-alive", format!("{:?}", prev), &req)), differs, &[if differs { "keep-alive:host-changes" } else { "keep-alive:same-host" }]);
            }
            if stream.write_all(req.as_bytes()).is_err() {
                fails.push(Fail::new("harness-exchange", "write on keep-alive connection failed"));
                return fails;
            }
            let (status, body) = match read_one_response(&mut stream, &mut buf) {
                Ok(x) => x,
                Err(e) => {
                    fails.push(fail!("keepalive-no-response", "request {} of a keep-alive connection (Host {:?} path {:?}) got no complete response: {}", gi + 1, r.host, target, e));
                    return fails;
                }
            };
            let ok = match want {
                Some((h, i)) => status == 200 && body == ident(h, i, false),
                None => status == 404,
            };
            if !ok {
                fails.push(fail!(
                    "keepalive-wrong-handler",
                    "request {} on a keep-alive connection (Host {:?} path {:?}, previous request on the connection: Host {:?} path {:?}) answered {} {:?}, the rule selects {:?}; hosts {:?} default {:?}",
                    gi + 1,
                    r.host,
                    target,
                    prev.map(|p| p.host.clone()),
                    prev.map(|p| p.path.clone()),
                    status,
                    body,
                    want.map(|(h, i)| ident(h, i, false)),
                    c.hosts.iter().map(|h| (&h.host, &h.routes)).collect::<Vec<_>>(),
                    c.default.routes
                ));
                return fails;
            }
            prev = Some(r);
        }
    }
    fails
}

// two non-ASCII segments: matching counts characters, not bytes (seed C04-16: an early length rejection that compares a
// byte length with a character count lets `/é` fall through to a later route)
const SEGS: &[&str] = &["a", "b", "ab", "api", "x", "aa", "é", "日本"];

/// request paths also use segments with a literal `*` (an ordinary character in a request target: only a pattern's `*`
/// can absorb it)
const REQ_SEGS: &[&str] = &["a", "b", "ab", "api", "x", "aa", "*", "a*", "*b", "é", "日本"];

fn arb_req_path() -> impl Strategy<Value = String> {
    proptest::collection::vec((0usize..REQ_SEGS.len()).prop_map(|i| REQ_SEGS[i]), 0..4).prop_map(|v| format!("/{}", v.join("/")))
}

fn arb_path() -> impl Strategy<Value = String> {
    proptest::collection::vec((0usize..SEGS.len()).prop_map(|i| SEGS[i]), 0..4).prop_map(|v| format!("/{}", v.join("/")))
}

fn arb_pattern() -> impl Strategy<Value = String> {
    prop_oneof![
        3 => arb_path(),
        3 => arb_path().prop_map(|p| format!("{}/*", p.trim_end_matches('/'))),
        1 => arb_path().prop_map(|p| format!("*{}", p)),
        1 => (arb_path(), arb_path()).prop_map(|(a, b)| format!("{}*{}", a, b.trim_start_matches('/'))),
        1 => Just("/*".to_string()),
        1 => Just("*".to_string()),
        1 => Just("/*/*".to_string()),
        1 => arb_path().prop_map(|p| format!("{}**", p)),
        1 => Just("/a*a".to_string()),
        1 => Just("/*a/*b".to_string()),
    ]
}

const HOSTS: &[&str] = &["a.com", "x.a.com", "b.org", "a.com:8080", "zzz.net", "aa.com", "a.comm", "x.y.a.com"];

fn arb_host_pattern() -> impl Strategy<Value = String> {
    prop_oneof![
        3 => (0usize..HOSTS.len()).prop_map(|i| HOSTS[i].to_string()),
        2 => Just("*.a.com".to_string()),
        1 => Just("a.*".to_string()),
        1 => Just("*a*".to_string()),
        1 => Just("**.com".to_string()),
        1 => Just("*.com*".to_string()),
        1 => Just("*a.com".to_string()),
    ]
}

fn arb_sub(host: impl Strategy<Value = String>) -> impl Strategy<Value = SubSpec> {
    (host, proptest::collection::vec(arb_pattern(), 0..7), proptest::collection::vec(arb_pattern(), 0..4), prop_oneof![2 => Just(Vec::new()), 1 => proptest::collection::vec(any::<u8>(), 1..3)])
        .prop_map(|(host, routes, ws_routes, cors_on)| SubSpec { host, routes, ws_routes, cors_on })
}

pub fn arb_case() -> impl Strategy<Value = Case> {
    let req = (
        prop_oneof![1 => Just(None), 6 => (0usize..HOSTS.len()).prop_map(|i| Some(HOSTS[i].to_string()))],
        prop_oneof![4 => arb_path(), 1 => arb_req_path()],
        proptest::option::of(prop_oneof![Just("q=1".to_string()), Just("a/b=*".to_string()), Just("x?y".to_string())]),
        prop_oneof![3 => Just(false), 1 => Just(true)],
    )
        .prop_map(|(host, path, query, websocket)| ReqCase { host, path, query, websocket });
    (proptest::collection::vec(arb_sub(arb_host_pattern()), 0..5), arb_sub(Just("*".to_string())), proptest::collection::vec(req, 30)).prop_map(|(hosts, default, requests)| Case { hosts, default, requests })
}

#[cfg(not(hvt))]
pub fn run(ctx: &Ctx) {
    ctx.rule("applications with 0..4 host sub-apps (host patterns literal / *.x / x.* / infix / adjacent stars, never exactly `*`) with 0..6 HTTP routes and 0..3 WebSocket routes each plus a default app, patterns over a tiny segment alphabet so that they overlap and shadow; 30 requests per application over Host {absent, exact, wildcard-matching, with port, non-matching, matching several hosts} x paths x optional query x plain/WebSocket upgrade; every handler answers with its identity; the plain requests are sent once each on a fresh connection and again in groups of 2..5 on keep-alive connections (the choice must not depend on earlier requests of the connection); oracle = reference router (reference glob matcher + first host, first route, else default, else 404 / closed). Non-trivial = more than one candidate host or route matches, or the host matches but falls through to the default app; distinct by (application, request)");
    ctx.assume("requests go over real loopback sockets to a real App (threaded runtime); WebSocket handlers write their identity on the raw stream");
    let cases = ctx.share(ctx.tier.pick(4800u32, 40000u32)).max(16);
    let nshards = 16;
    crate::engine::shards(nshards, |i| {
        pt::run(
            ctx,
            "app",
            pt::Opts::new(cases / nshards as u32).salt(ctx.salt_of(400 + i as u64)).shrink_iters(150),
            arb_case(),
            |c| serde_json::to_value(c).unwrap(),
            |c| {
                let f = check(c, i, Some(ctx));
                if f.iter().any(|x| x.sig.starts_with("harness-")) {
                    ctx.inconclusive(&f[0].detail);
                    return Vec::new();
                }
                f
            },
        );
    });
}

#[cfg(not(hvt))]
pub fn replay(_ctx: &Ctx, _kind: &str, case: &J) -> Vec<Fail> {
    match serde_json::from_value::<Case>(case.clone()) {
        Ok(c) => check(&c, 15, None),
        Err(e) => vec![Fail::new("harness", format!("bad replay case: {}", e))],
    }
}
