//! C16 — file cache returns only the latest bytes for the same key and keeps its limits.
//! Model-based: every step is applied to the real Cache and to a reference map; after every step all
//! keys ever stored are looked up and compared.

use crate::engine::{hash_of, par, pt, Ctx, Fail};
use humphrey::http::mime::MimeType;
use humphrey_server::cache::Cache;
use humphrey_server::config::{CacheConfig, Config, LoggingConfig};
use humphrey_server::logger::LogLevel;
use proptest::prelude::*;
use serde::{Deserialize, Serialize};
use serde_json::{json, Value as J};
use std::collections::BTreeMap;
use std::sync::{Arc, RwLock};

const MIMES: [MimeType; 4] = [MimeType::TextHtml, MimeType::ImagePng, MimeType::ApplicationJson, MimeType::TextPlain];

fn now_s() -> u64 {
    std::time::SystemTime::now().duration_since(std::time::UNIX_EPOCH).unwrap().as_secs()
}

pub fn quiet_config(size: usize, time: usize) -> Config {
    Config {
        cache: CacheConfig { size_limit: size, time_limit: time },
        logging: LoggingConfig { level: LogLevel::Error, console: false, file: None },
        ..Config::default()
    }
}

#[derive(Clone, Debug, Serialize, Deserialize, PartialEq, Eq, Hash)]
pub enum Op {
    Set { key: u8, host: u8, size: usize },
    Get { key: u8, host: u8 },
}

#[derive(Clone, Debug, Serialize, Deserialize)]
pub struct SeqCase {
    pub limit: usize,
    pub time_limit: usize,
    pub ops: Vec<Op>,
}

fn key_name(k: u8) -> String {
    format!("/file{}.bin", k)
}

/// value bytes for the n-th operation: content identifies the op, so stale or foreign data is visible
fn value_for(opno: usize, key: u8, host: u8, size: usize) -> Vec<u8> {
    let tag = [opno as u8, (opno >> 8) as u8, key, host, 0xA5];
    (0..size).map(|i| tag[i % tag.len()] ^ (i / tag.len()) as u8).collect()
}

struct ModelEntry {
    value: Vec<u8>,
    mime: MimeType,
    stored_at: u64,
}

pub struct Stats {
    pub evictions: bool,
    pub overwrites: bool,
}

/// Runs a sequence against the real cache and the model. Returns violations.
pub fn check_seq(c: &SeqCase, stats: &mut Stats) -> Vec<Fail> {
    let cfg = quiet_config(c.limit, c.time_limit);
    let mut cache = Cache::from(&cfg);
    let mut model: BTreeMap<(u8, u8), ModelEntry> = BTreeMap::new();
    let r = crate::engine::catch(move || {
        let mut fails = Vec::new();
        let mut total_stored: usize = 0; // model's view of bytes stored ignoring evictions (to detect eviction pressure)
        let mut ev = false;
        let mut ow = false;
        for (i, op) in c.ops.iter().enumerate() {
            match op {
                Op::Set { key, host, size } => {
                    let v = value_for(i, *key, *host, *size);
                    let mime = MIMES[(i + *key as usize) % MIMES.len()];
                    let t0 = now_s();
                    cache.set(&key_name(*key), *host as usize, v.clone(), mime);
                    if model.contains_key(&(*key, *host)) {
                        ow = true;
                        total_stored -= model[&(*key, *host)].value.len();
                    }
                    total_stored += size;
                    if total_stored > c.limit {
                        ev = true;
                    }
                    model.insert((*key, *host), ModelEntry { value: v.clone(), mime, stored_at: t0 });
                    // immediately retrievable
                    let got = cache.get(&key_name(*key), *host as usize).map(|it| (it.data.clone(), it.mime_type));
                    let t1 = now_s();
                    match got {
                        Some((d, m)) => {
                            if d != v || m.to_string() != mime.to_string() {
                                fails.push(fail!("get-after-set-wrong", "step {}: get right after set({},{},{} bytes) returned different data ({} bytes, {})", i, key, host, size, d.len(), m.to_string()));
                            }
                        }
                        None => {
                            if !(c.time_limit == 0 && t1 != t0) {
                                fails.push(fail!("not-retrievable-after-set", "step {}: item of {} bytes (limit {}) is not retrievable immediately after set({},{})", i, size, c.limit, key, host));
                            }
                        }
                    }
                }
                Op::Get { key, host } => {
                    // covered by the sweep below
                    let _ = (key, host);
                }
            }
            // sweep: every key ever stored
            let mut retrievable = 0usize;
            let now = now_s();
            for ((k, h), e) in model.iter() {
                match cache.get(&key_name(*k), *h as usize) {
                    None => {}
                    Some(it) => {
                        retrievable += it.data.len();
                        if it.data != e.value || it.mime_type.to_string() != e.mime.to_string() {
                            // whose data is it?
                            let foreign = model.iter().any(|((k2, h2), e2)| (k2, h2) != (k, h) && e2.value == it.data && !it.data.is_empty());
                            fails.push(fail!(
                                if foreign { "foreign-entry" } else { "stale-entry" },
                                "step {}: get({},{}) returned {} bytes / {} but the latest set for that key stored {} bytes / {}",
                                i, k, h, it.data.len(), it.mime_type.to_string(), e.value.len(), e.mime.to_string()
                            ));
                        }
                        if now.saturating_sub(e.stored_at) > c.time_limit as u64 + 1 {
                            fails.push(fail!("expired-entry-served", "step {}: get({},{}) returned data stored {} s ago with a time limit of {} s", i, k, h, now - e.stored_at, c.time_limit));
                        }
                    }
                }
            }
            // keys never stored must miss
            for k in 0..3u8 {
                for h in 0..2u8 {
                    if !model.contains_key(&(k, h)) && cache.get(&key_name(k), h as usize).is_some() {
                        fails.push(fail!("phantom-entry", "step {}: get({},{}) hit although nothing was ever stored for it", i, k, h));
                    }
                }
            }
            if retrievable > c.limit {
                fails.push(fail!("size-limit-exceeded", "step {}: retrievable entries total {} bytes, limit {}", i, retrievable, c.limit));
            }
            if !fails.is_empty() {
                break;
            }
        }
        (fails, ev, ow)
    });
    match r {
        Ok((f, ev, ow)) => {
            stats.evictions = ev;
            stats.overwrites = ow;
            f
        }
        Err(p) => vec![fail!("panic", "cache panicked: {}", p)],
    }
}

fn op_from_index(idx: usize, sizes: &[usize; 3]) -> Op {
    // 24 ops: 18 sets (3 keys x 2 hosts x 3 sizes) + 6 gets
    if idx < 18 {
        Op::Set { key: (idx / 6) as u8, host: ((idx / 3) % 2) as u8, size: sizes[idx % 3] }
    } else {
        let j = idx - 18;
        Op::Get { key: (j / 2) as u8, host: (j % 2) as u8 }
    }
}

fn exhaustive(ctx: &Ctx) {
    let max_len = ctx.tier.pick(4usize, 5usize);
    for (limit, sizes, tl) in [(10usize, [0usize, 6, 10], 60usize), (10, [3, 4, 5], 1), (7, [0, 7, 4], 0)] {
        par(ctx, |shard, n, a| {
            for len in 1..=max_len {
                let total = 24usize.pow(len as u32);
                for idx in (0..total).filter(|x| x % n == shard) {
                    let mut ops = Vec::with_capacity(len);
                    let mut x = idx;
                    let mut has_set = false;
                    for _ in 0..len {
                        let o = op_from_index(x % 24, &sizes);
                        has_set |= matches!(o, Op::Set { .. });
                        ops.push(o);
                        x /= 24;
                    }
                    if !has_set {
                        // sequences of lookups only: still run, trivial
                    }
                    let c = SeqCase { limit, time_limit: tl, ops };
                    let mut st = Stats { evictions: false, overwrites: false };
                    let f = check_seq(&c, &mut st);
                    a.add(st.evictions || st.overwrites, f.into_iter().next(), "seq", || serde_json::to_value(&c).unwrap());
                }
            }
        });
    }
    ctx.exhaustive_space(&format!("all set/get sequences of length <={} over 3 keys x 2 hosts x 3 sizes (24 operations per step), for (limit 10, sizes {{0,6,10}}, time 60), (limit 10, sizes {{3,4,5}}, time 1), (limit 7, sizes {{0,7,4}}, time 0)", max_len));
}

pub fn arb_seq() -> impl Strategy<Value = SeqCase> {
    (prop_oneof![Just(0usize), Just(1), Just(100), Just(1000), Just(65536), 2usize..70000], prop_oneof![Just(0usize), Just(1), Just(60)]).prop_flat_map(|(limit, tl)| {
        let op = prop_oneof![
            3 => (0u8..32, 0u8..3, prop_oneof![2 => 0usize..=limit, 1 => Just(limit), 1 => Just((limit / 2 + 1).min(limit)), 1 => Just(0usize)]).prop_map(|(key, host, size)| Op::Set { key, host, size }),
            1 => (0u8..32, 0u8..3).prop_map(|(key, host)| Op::Get { key, host }),
        ];
        proptest::collection::vec(op, 1..120).prop_map(move |ops| SeqCase { limit, time_limit: tl, ops })
    })
}

fn random(ctx: &Ctx) {
    let cases = ctx.tier.pick(3_000u32, 60_000u32);
    crate::engine::shards(8, |i| {
        pt::run(
            ctx,
            "seq",
            pt::Opts::new(cases / 8).salt(1600 + i as u64),
            arb_seq(),
            |c| serde_json::to_value(c).unwrap(),
            |c| {
                let mut st = Stats { evictions: false, overwrites: false };
                let f = check_seq(c, &mut st);
                let mut labels = vec!["random-seq"];
                if st.evictions {
                    labels.push("seq:eviction");
                }
                if st.overwrites {
                    labels.push("seq:overwrite");
                }
                ctx.case(hash_of(&format!("{:?}", c)), st.evictions || st.overwrites, &labels);
                ctx.sample(labels.last().unwrap(), || json!({"limit": c.limit, "time_limit": c.time_limit, "ops": c.ops.iter().take(12).collect::<Vec<_>>(), "n_ops": c.ops.len()}));
                f
            },
        );
    });
    // a few very long sequences (up to 2000 ops over 32 keys)
    let mut rng = crate::engine::Lcg(pt::mix(ctx.seed, 1650));
    for _ in 0..ctx.tier.pick(6, 60) {
        let limit = [1000usize, 65536, 300][(rng.next() % 3) as usize];
        let mut ops = Vec::new();
        for _ in 0..2000 {
            let r = rng.next();
            if r % 4 == 0 {
                ops.push(Op::Get { key: (r >> 8) as u8 % 32, host: (r >> 16) as u8 % 3 });
            } else {
                ops.push(Op::Set { key: (r >> 8) as u8 % 32, host: (r >> 16) as u8 % 3, size: ((r >> 24) as usize) % (limit + 1) });
            }
        }
        let c = SeqCase { limit, time_limit: 60, ops };
        let mut st = Stats { evictions: false, overwrites: false };
        let f = check_seq(&c, &mut st);
        ctx.case(hash_of(&format!("{:?}", c)), true, &["long-seq-2000"]);
        if let Some(fl) = ctx.triage(f) {
            ctx.violation(fl, "seq", serde_json::to_value(&c).unwrap());
        }
    }
}

// ------------------------------------------------------------------------------------------ concurrency

fn concurrent(ctx: &Ctx) {
    // T threads run sequences through one RwLock<Cache>, exactly as the handlers do; operations are
    // numbered while the lock is held, so the log can be replayed sequentially against the model.
    let runs = ctx.tier.pick(50, 1000);
    let mut rng = crate::engine::Lcg(pt::mix(ctx.seed, 1670));
    for run in 0..runs {
        let threads = 1 + (rng.next() % 8) as usize;
        let limit = [64usize, 1000, 10][(rng.next() % 3) as usize];
        let cfg = quiet_config(limit, 60);
        let cache = Arc::new(RwLock::new(Cache::from(&cfg)));
        let seq = Arc::new(std::sync::atomic::AtomicU64::new(0));
        let mut handles = Vec::new();
        for t in 0..threads {
            let cache = cache.clone();
            let seq = seq.clone();
            let seed = rng.next();
            handles.push(std::thread::spawn(move || {
                let mut rng = crate::engine::Lcg(seed);
                let mut log: Vec<(u64, Op, usize, Option<Vec<u8>>)> = Vec::new();
                for n in 0..200usize {
                    let r = rng.next();
                    let key = (r >> 8) as u8 % 4;
                    let host = (r >> 16) as u8 % 2;
                    if r % 3 == 0 {
                        let g = cache.read().unwrap();
                        let s = seq.fetch_add(1, std::sync::atomic::Ordering::SeqCst);
                        let got = g.get(&key_name(key), host as usize).map(|it| it.data.clone());
                        drop(g);
                        log.push((s, Op::Get { key, host }, t * 1000 + n, got));
                    } else {
                        let size = ((r >> 24) as usize) % (limit + 1);
                        let v = value_for(t * 1000 + n, key, host, size);
                        let mut g = cache.write().unwrap();
                        let s = seq.fetch_add(1, std::sync::atomic::Ordering::SeqCst);
                        g.set(&key_name(key), host as usize, v, MimeType::TextPlain);
                        drop(g);
                        log.push((s, Op::Set { key, host, size }, t * 1000 + n, None));
                    }
                }
                log
            }));
        }
        let mut all = Vec::new();
        let mut panicked = false;
        for h in handles {
            match h.join() {
                Ok(l) => all.extend(l),
                Err(_) => panicked = true,
            }
        }
        all.sort_by_key(|e| e.0);
        // replay on the model: a get may return None (evicted) or exactly the latest value for its key
        let mut model: BTreeMap<(u8, u8), Vec<u8>> = BTreeMap::new();
        let mut fails = Vec::new();
        if panicked {
            fails.push(fail!("concurrent-panic", "a thread panicked while using the cache through the RwLock"));
        }
        for (_, op, opno, got) in &all {
            match op {
                Op::Set { key, host, size } => {
                    model.insert((*key, *host), value_for(*opno, *key, *host, *size));
                }
                Op::Get { key, host } => {
                    if let Some(g) = got {
                        match model.get(&(*key, *host)) {
                            Some(v) if v == g => {}
                            other => {
                                fails.push(fail!("concurrent-stale-or-foreign", "concurrent get({},{}) returned {} bytes that are not the latest value stored for that key (latest: {:?} bytes)", key, host, g.len(), other.map(|v| v.len())));
                                break;
                            }
                        }
                    }
                }
            }
        }
        // final sequential invariants (after a panic the lock is poisoned and the cache may be half-updated: the panic itself
        // is the finding, a handler would have died with it)
        let g = cache.read().unwrap_or_else(|e| e.into_inner());
        let mut total = 0;
        for ((k, h), v) in model.iter().filter(|_| !panicked) {
            if let Some(it) = g.get(&key_name(*k), *h as usize) {
                total += it.data.len();
                if &it.data != v {
                    fails.push(fail!("concurrent-final-state", "after the join get({},{}) does not return the latest value", k, h));
                }
            }
        }
        if total > limit {
            fails.push(fail!("size-limit-exceeded", "after the join retrievable entries total {} bytes, limit {}", total, limit));
        }
        ctx.case(hash_of(&(run, threads, limit, all.len())), threads >= 2, &["concurrent-run", if threads >= 2 { "concurrent:>=2-threads" } else { "concurrent:1-thread" }]);
        if run == 0 {
            ctx.sample("concurrent", || json!({"threads": threads, "limit": limit, "ops": all.len()}));
        }
        if let Some(f) = ctx.triage(fails) {
            ctx.violation(f, "concurrent", json!({"note": "concurrent runs are not replayable from a file; re-run the check", "threads": threads, "limit": limit}));
        }
    }
}

fn expiry(ctx: &Ctx) {
    // after time_limit + 1.1 s the entry must be gone
    let results: std::sync::Mutex<Vec<Fail>> = std::sync::Mutex::new(Vec::new());
    std::thread::scope(|s| {
        for tl in [0usize, 1] {
            let results = &results;
            s.spawn(move || {
                let cfg = quiet_config(100, tl);
                let mut cache = Cache::from(&cfg);
                cache.set("/a", 0, b"hello".to_vec(), MimeType::TextPlain);
                std::thread::sleep(std::time::Duration::from_millis(tl as u64 * 1000 + 1100));
                if cache.get("/a", 0).is_some() {
                    results.lock().unwrap().push(fail!("expired-entry-served", "entry still served {} ms after being stored with time limit {} s", tl * 1000 + 1100, tl));
                }
                // storing the *same* bytes again after the entry went stale makes them retrievable again too
                cache.set("/a", 0, b"hello".to_vec(), MimeType::TextPlain);
                let t0 = now_s();
                let g = cache.get("/a", 0).map(|i| i.data.clone());
                if g.as_deref() != Some(b"hello") && !(tl == 0 && now_s() != t0) {
                    results.lock().unwrap().push(fail!("not-retrievable-after-set", "an entry stored again with the same bytes after it had gone stale (time limit {} s) is not retrievable right after the store", tl));
                }
                // a fresh set is retrievable again
                cache.set("/a", 0, b"world".to_vec(), MimeType::TextPlain);
                let t0 = now_s();
                let g = cache.get("/a", 0).map(|i| i.data.clone());
                if g.as_deref() != Some(b"world") && !(tl == 0 && now_s() != t0) {
                    results.lock().unwrap().push(fail!("not-retrievable-after-set", "entry not retrievable after re-set"));
                }
            });
        }
    });
    ctx.bulk_n(2, 2);
    ctx.label("expiry-sleep-cases", 2);
    for f in results.into_inner().unwrap() {
        if !ctx.tolerate(&f) {
            ctx.violation(f, "expiry", json!({}));
        }
    }
}

// ------------------------------------------------------------------------------------------ handler level

fn handler_level(ctx: &Ctx) {
    use humphrey_server::server::server::AppState;
    let runs = ctx.tier.pick(40, 600);
    let mut rng = crate::engine::Lcg(pt::mix(ctx.seed, 1690));
    let base = std::env::temp_dir().join(format!("hv-c16-{}", std::process::id()));
    let _ = std::fs::remove_dir_all(&base);
    for run in 0..runs {
        let dir = base.join(format!("r{}", run));
        std::fs::create_dir_all(dir.join("sub")).unwrap();
        // a second tree with the same relative names, served by a second directory route of the same hosts: the two
        // routes share the cache and must not share entries
        let dir_b = base.join(format!("r{}b", run));
        std::fs::create_dir_all(dir_b.join("sub")).unwrap();
        let names = ["a.txt", "b.html", "sub/c.png", "sub/index.html"];
        let limit = [0usize, 50, 4096][(rng.next() % 3) as usize];
        let tl = [0usize, 60][(rng.next() % 2) as usize];
        let state = Arc::new(AppState::from(quiet_config(limit, tl)));
        // history of contents served per (host, uri) and written per file
        let mut written: BTreeMap<String, Vec<Vec<u8>>> = BTreeMap::new();
        let mut served: BTreeMap<(usize, String), Vec<Vec<u8>>> = BTreeMap::new();
        let mut fails = Vec::new();
        let mut version = 0u32;
        for step in 0..40 {
            let r = rng.next();
            let f = names[(r % 4) as usize];
            let second = (r >> 40) % 3 == 0;
            let key = if second { format!("B:{}", f) } else { f.to_string() };
            if r % 3 == 0 || step < 6 {
                version += 1;
                let len = [(r >> 8) as usize % 40, 60, 5000][((r >> 20) % 3) as usize];
                let content: Vec<u8> = format!("{}#{}#{}|", key, run, version).into_bytes().into_iter().cycle().take(len.max(14)).collect();
                std::fs::write(if second { dir_b.join(f) } else { dir.join(f) }, &content).unwrap();
                written.entry(key.clone()).or_default().push(content);
                continue;
            }
            if !written.contains_key(&key) {
                continue;
            }
            let host = ((r >> 30) % 2) as usize;
            let (uri, resp) = if second {
                // second directory route "/other/*" over the second tree
                let uri = if f == "sub/index.html" && (r >> 33) % 2 == 0 { "/other/sub/".to_string() } else { format!("/other/{}", f) };
                let req = make_request(&uri);
                (uri.clone(), crate::engine::catch(|| humphrey_server::r#static::directory_handler(req, state.clone(), dir_b.to_str().unwrap(), "/other/*", host)))
            } else if (r >> 32) % 2 == 0 {
                // directory route "/static/*"
                let uri = if f == "sub/index.html" && (r >> 33) % 2 == 0 { "/static/sub/".to_string() } else { format!("/static/{}", f) };
                let req = make_request(&uri);
                (uri.clone(), crate::engine::catch(|| humphrey_server::r#static::directory_handler(req, state.clone(), dir.to_str().unwrap(), "/static/*", host)))
            } else {
                let uri = format!("/file-{}", f.replace('/', "_"));
                let req = make_request(&uri);
                let path = dir.join(f);
                (uri.clone(), crate::engine::catch(|| humphrey_server::r#static::file_handler(req, state.clone(), path.to_str().unwrap(), host)))
            };
            let resp = match resp {
                Ok(r) => r,
                Err(p) => {
                    fails.push(fail!("handler-panic", "static handler panicked for {}: {}", uri, p));
                    break;
                }
            };
            if u16::from(resp.status_code) != 200 {
                fails.push(fail!("handler-status", "{} answered {} for an existing file", uri, u16::from(resp.status_code)));
                break;
            }
            let current = written[&key].last().unwrap();
            let earlier = served.get(&(host, uri.clone())).map_or(false, |v| v.contains(&resp.body));
            if &resp.body != current && !earlier {
                let other_file = written.iter().any(|(n, vs)| *n != key && vs.contains(&resp.body));
                fails.push(fail!(
                    if other_file { "handler-foreign-content" } else { "handler-unknown-content" },
                    "{} (host {}) returned {} bytes that are neither the file's current content nor content served before for this (host, uri)",
                    uri, host, resp.body.len()
                ));
                break;
            }
            if &resp.body != current && limit == 0 {
                fails.push(fail!("handler-stale-without-cache", "{} returned old content although the cache is disabled", uri));
                break;
            }
            served.entry((host, uri)).or_default().push(resp.body.clone());
        }
        ctx.case(hash_of(&(run, limit, tl, version)), limit > 0, &["handler-run", if limit > 0 { "handler:cache-on" } else { "handler:cache-off" }]);
        if run == 0 {
            ctx.sample("handler", || json!({"files": names, "cache_limit": limit, "time_limit": tl, "steps": 30}));
        }
        if let Some(f) = ctx.triage(fails) {
            ctx.violation(f, "handler", json!({"note": "handler-level runs are regenerated from the seed; re-run the check", "run": run}));
        }
        let _ = std::fs::remove_dir_all(&dir);
        let _ = std::fs::remove_dir_all(&dir_b);
    }
    let _ = std::fs::remove_dir_all(&base);
}

/// Handler level with a real time limit: a file is served (and cached), the entry goes stale, the file is rewritten with
/// different bytes *of the same length*, and is then requested twice: both answers must be the new bytes (nothing older
/// than the time limit, and the entry that replaces the stale one must hold what was just read).
pub fn handler_expiry(via_directory: bool, same_length: bool, tag: u64, size_class: u8) -> Vec<Fail> {
    use humphrey_server::server::server::AppState;
    let tmp = crate::engine::TmpDir::new("c16x");
    let dir = tmp.0.clone();
    let path = dir.join("f.txt");
    let state = Arc::new(AppState::from(quiet_config(1 << 16, 1)));
    let mut v1 = format!("version-1-{:06}", tag % 1_000_000).into_bytes();
    let mut v2 = if same_length { format!("version-2-{:06}", tag % 1_000_000).into_bytes() } else { format!("version-2-{:06}-longer", tag % 1_000_000).into_bytes() };
    // size classes: 0 = a few bytes; 1 = just over half the cache's size limit (the stale and the fresh version do not fit
    // together); 2 = the fresh version is exactly as large as the limit
    let limit = 1usize << 16;
    let target = match size_class { 1 => limit / 2 + 1, 2 => limit, _ => 0 };
    if target > 0 {
        let pad = |v: &mut Vec<u8>, n: usize| { let k = v.len(); v.extend((k..n).map(|i| b'a' + (i % 23) as u8)); };
        pad(&mut v2, target);
        pad(&mut v1, if same_length { target } else { target - 7 });
    }
    std::fs::write(&path, &v1).unwrap();
    let call = |n: usize| -> Result<Vec<u8>, String> {
        let r = if via_directory {
            crate::engine::catch(|| humphrey_server::r#static::directory_handler(make_request("/d/f.txt"), state.clone(), dir.to_str().unwrap(), "/d/*", 0))
        } else {
            crate::engine::catch(|| humphrey_server::r#static::file_handler(make_request("/f"), state.clone(), path.to_str().unwrap(), 0))
        };
        match r {
            Err(p) => Err(format!("request {} panicked: {}", n, p)),
            Ok(r) if u16::from(r.status_code) != 200 => Err(format!("request {} answered {}", n, u16::from(r.status_code))),
            Ok(r) => Ok(r.body),
        }
    };
    let mut fails = Vec::new();
    let what = if via_directory { "directory route" } else { "file route" };
    match call(1) {
        Ok(b) if b == v1 => {}
        Ok(b) => fails.push(fail!("handler-expiry:first", "{}: first request returned {:?}", what, String::from_utf8_lossy(&b))),
        Err(e) => fails.push(fail!("handler-expiry:error", "{}: {}", what, e)),
    }
    // let the entry go stale (time limit 1 s), then change the file
    std::thread::sleep(std::time::Duration::from_millis(2100));
    std::fs::write(&path, &v2).unwrap();
    for n in 2..=3 {
        match call(n) {
            Ok(b) if b == v2 => {}
            Ok(b) => {
                fails.push(fail!(
                    "handler-serves-data-older-than-the-time-limit",
                    "{} with cache time limit 1 s: the file was rewritten ({} length) 2.1 s after it had been cached, and request {} after the rewrite returned {:?} instead of {:?}",
                    what,
                    if same_length { "same" } else { "different" },
                    n - 1,
                    String::from_utf8_lossy(&b),
                    String::from_utf8_lossy(&v2)
                ));
                break;
            }
            Err(e) => fails.push(fail!("handler-expiry:error", "{}: {}", what, e)),
        }
    }
    fails
}

fn handler_expiry_all(ctx: &Ctx) {
    let jobs: Vec<(bool, bool, u8)> = vec![(false, true, 0), (true, true, 0), (false, false, 0), (true, false, 0), (false, true, 1), (true, false, 1), (true, true, 2), (false, false, 2)];
    let found: std::sync::Mutex<Vec<(Fail, J)>> = std::sync::Mutex::new(Vec::new());
    let next = std::sync::atomic::AtomicUsize::new(0);
    crate::engine::shards(jobs.len(), |_| loop {
        let i = next.fetch_add(1, std::sync::atomic::Ordering::SeqCst);
        if i >= jobs.len() {
            break;
        }
        let (d, same, size_class) = jobs[i];
        ctx.case(hash_of(&("handler-expiry", d, same, size_class)), true, &["handler:stale-entry-then-rewrite", ["handler:stale-entry:small-file", "handler:stale-entry:file-over-half-the-limit", "handler:stale-entry:file-as-large-as-the-limit"][size_class as usize]]);
        for f in handler_expiry(d, same, pt::mix(ctx.seed, 1695 + i as u64), size_class) {
            found.lock().unwrap().push((f, json!({"via_directory": d, "same_length": same, "size_class": size_class})));
        }
    });
    ctx.sample("handler:stale-entry-then-rewrite", || json!({"scenario": "serve + cache, wait past the 1 s time limit, rewrite the file with different bytes of the same length, request twice"}));
    for (f, c) in found.into_inner().unwrap() {
        if !ctx.tolerate(&f) {
            ctx.violation(f, "handler-expiry", c);
        }
    }
}

pub fn make_request(uri: &str) -> humphrey::http::Request {
    use crate::common::http::PlanReader;
    let wire = format!("GET {} HTTP/1.1\r\nHost: localhost\r\n\r\n", uri).into_bytes();
    let mut rd = PlanReader::new(wire, vec![usize::MAX]);
    humphrey::http::Request::from_stream(&mut rd, "127.0.0.1:40000".parse().unwrap()).expect("harness request")
}

pub fn run(ctx: &Ctx) {
    ctx.rule("operation sequences over {set(key,host,size), get(key,host)} applied to the real Cache and to a reference map, with a full sweep over all keys ever stored after every step: exhaustive up to length 4 (quick) / 5 (thorough) over 24 operations for three (limit, sizes, time) settings, random up to 120 ops over 32 keys x 3 hosts with sizes 0..limit and limits 0..64 KiB, 2000-op sequences, 1..8 threads through one RwLock<Cache> with lock-order logging, sleep-based expiry (at cache level, and at handler level: serve, wait past a 1 s time limit, rewrite the file with different bytes of the same length, request twice), and file/directory handlers over files rewritten between requests. Non-trivial = the sequence contains an eviction (stored bytes exceed the limit) or an overwrite of an existing key; distinct by sequence");
    ctx.assume("set sizes never exceed the limit (the only caller checks that first); a miss right after a set is inconclusive only when time_limit = 0 and the wall-clock second changed between the two calls");
    exhaustive(ctx);
    random(ctx);
    concurrent(ctx);
    // the two sleep-based sub-checks run side by side
    std::thread::scope(|sc| {
        sc.spawn(|| expiry(ctx));
        sc.spawn(|| handler_expiry_all(ctx));
    });
    handler_level(ctx);
}

pub fn replay(_ctx: &Ctx, kind: &str, case: &J) -> Vec<Fail> {
    match kind {
        "seq" => match serde_json::from_value::<SeqCase>(case.clone()) {
            Ok(c) => check_seq(&c, &mut Stats { evictions: false, overwrites: false }),
            Err(e) => vec![Fail::new("harness", format!("bad replay case: {}", e))],
        },
        "handler-expiry" => handler_expiry(case["via_directory"].as_bool().unwrap_or(false), case["same_length"].as_bool().unwrap_or(true), 1, case["size_class"].as_u64().unwrap_or(0) as u8),
        _ => vec![],
    }
}
