//! Entry points for the coverage-guided fuzz targets in /verif/fuzz (libFuzzer through cargo-fuzz). Each target
//! puts the property's oracle inside the target: either a differential oracle over the raw bytes (any byte string
//! is in the domain) or the property's proptest generator driven by the fuzzer's bytes (proptest's PassThrough
//! RNG), so that every generated case stays inside the generator's domain and the same oracle as in the
//! structured check applies. Known findings are tolerated in-target and counted, so a campaign goes on past them.

use crate::engine::{catch, Fail, Known};
use proptest::strategy::{Strategy, ValueTree};
use proptest::test_runner::{Config, RngAlgorithm, TestRng, TestRunner};
use std::collections::BTreeMap;
use std::sync::atomic::{AtomicU64, Ordering};
use std::sync::{Mutex, OnceLock};

/// (fuzz target, property id, maximum input length, what the bytes mean)
pub const TARGETS: &[(&str, &str, usize, &str)] = &[
    ("c02_request", "C02", 512, "bytes drive the request generator (proptest PassThrough RNG) and the read-plan seed"),
    ("c03_parsers", "C03", 4096, "byte 0 = parser (request, response, frame, JSON, config), byte 1 = delivery (all at once / byte by byte), rest = input"),
    ("c05_glob", "C05", 64, "byte 0 = split position, rest = pattern ++ text (lossy UTF-8)"),
    ("c07_response", "C07", 768, "bytes drive the response generators (wire side and builder side) and the read-plan seed"),
    ("c10_frames", "C10", 600, "byte 0 = mode: raw bytes decoded under a read plan, or bytes driving the frame generator"),
    ("c13_json", "C13", 1024, "byte 0 = mode: the rest is a JSON text candidate (lossy UTF-8), or drives the value generator + layout"),
    ("c16_cache", "C16", 1024, "bytes drive the cache operation-sequence generator"),
    ("c18_codecs", "C18", 256, "byte 0 = codec (SHA-1, Base64 encode/decode, percent encode/decode, date), rest = input"),
];

pub fn property_of(target: &str) -> Option<&'static str> {
    TARGETS.iter().find(|t| t.0 == target).map(|t| t.1)
}

pub struct FuzzOut {
    pub fails: Vec<Fail>,
    pub nontrivial: bool,
    pub label: &'static str,
}

fn out(fails: Vec<Fail>, nontrivial: bool, label: &'static str) -> FuzzOut {
    FuzzOut { fails, nontrivial, label }
}

/// A value of `strat` drawn with the fuzzer's bytes as the random source (zeros once they run out).
fn draw<S: Strategy>(strat: &S, data: &[u8]) -> Option<S::Value> {
    let rng = TestRng::from_seed(RngAlgorithm::PassThrough, data);
    let mut cfg = Config::default();
    cfg.failure_persistence = None;
    let mut runner = TestRunner::new_with_rng(cfg, rng);
    strat.new_tree(&mut runner).ok().map(|t| t.current())
}

fn seed_of(data: &[u8]) -> u64 {
    let mut b = [0u8; 8];
    for (i, x) in data.iter().rev().take(8).enumerate() {
        b[i] = *x;
    }
    u64::from_le_bytes(b)
}

pub fn fuzz_one(target: &str, data: &[u8]) -> FuzzOut {
    match target {
        "c02_request" => {
            thread_local! { static S: proptest::strategy::BoxedStrategy<crate::common::http::ReqSpec> = crate::common::http::arb_req().boxed(); }
            match S.with(|s| draw(s, data)) {
                None => out(vec![], false, "rejected-by-generator"),
                Some(spec) => {
                    let (nt, labels) = crate::props::c02::nontrivial(&spec);
                    out(crate::props::c02::check(&spec, seed_of(data), None), nt, labels.last().copied().unwrap_or("request"))
                }
            }
        }
        "c03_parsers" => {
            if data.len() < 2 {
                return out(vec![], false, "short");
            }
            use crate::props::targets::*;
            let targets = [T_REQUEST, T_RESPONSE, T_FRAME, T_JSON, T_CONFIG];
            let t = targets[data[0] as usize % targets.len()];
            let mode = data[1] % 2;
            let input = &data[2..];
            let name = TARGET_NAMES[t as usize];
            let (r, peak, single) = crate::engine::worker::measure(|| catch(|| parser_target(t, mode, input)));
            let mut fails = Vec::new();
            match r {
                Err(p) => fails.push(fail!(format!("panic:{}:{}", name, crate::props::c03::norm_msg(&p)), "{} parser panicked ({}) on {}", name, p, crate::engine::show(&input[..input.len().min(300)]))),
                Ok(_) => {
                    let bound = crate::props::c03::mem_bound(input.len());
                    if peak > bound || single > bound {
                        fails.push(fail!(format!("memory:{}", name), "{} parser allocated peak {} bytes (largest single request {}) for a {}-byte input (bound {}): {}", name, peak, single, input.len(), bound, crate::engine::show(&input[..input.len().min(300)])));
                    }
                }
            }
            out(fails, input.len() > 4, name)
        }
        "c05_glob" => {
            if data.is_empty() {
                return out(vec![], false, "short");
            }
            let rest = &data[1..];
            let k = (data[0] as usize).min(rest.len());
            let p = String::from_utf8_lossy(&rest[..k]).into_owned();
            let t = String::from_utf8_lossy(&rest[k..]).into_owned();
            let nt = crate::props::c05::nontrivial(&p, &t);
            out(crate::props::c05::check(&p, &t).into_iter().collect(), nt, if p.contains('*') { "pattern-with-star" } else { "literal-pattern" })
        }
        "c07_response" => {
            if data.is_empty() {
                return out(vec![], false, "short");
            }
            if data[0] & 1 == 0 {
                thread_local! { static S: proptest::strategy::BoxedStrategy<crate::props::c07::RespSpec> = crate::props::c07::arb_resp().boxed(); }
                match S.with(|s| draw(s, &data[1..])) {
                    None => out(vec![], false, "rejected-by-generator"),
                    Some(spec) => out(crate::props::c07::check_wire(&spec, seed_of(data), None), true, "wire"),
                }
            } else {
                thread_local! { static S: proptest::strategy::BoxedStrategy<crate::props::c07::BuildSpec> = crate::props::c07::arb_build().boxed(); }
                match S.with(|s| draw(s, &data[1..])) {
                    None => out(vec![], false, "rejected-by-generator"),
                    Some(spec) => out(crate::props::c07::check_build(&spec), true, "builder"),
                }
            }
        }
        "c10_frames" => {
            if data.is_empty() {
                return out(vec![], false, "short");
            }
            if data[0] & 1 == 0 {
                let bytes = &data[1..];
                let plan = match (data[0] >> 1) % 3 {
                    0 => crate::common::http::Plan::Whole,
                    1 => crate::common::http::Plan::ByteWise,
                    _ => crate::common::http::Plan::Whole,
                };
                out(crate::props::c10::check_decode(bytes, &plan).into_iter().collect(), bytes.len() >= 2, "raw-decode")
            } else {
                thread_local! { static S: proptest::strategy::BoxedStrategy<crate::common::ws::RFrame> = crate::props::c10::arb_frame(70_000).boxed(); }
                match S.with(|s| draw(s, &data[1..])) {
                    None => out(vec![], false, "rejected-by-generator"),
                    Some(f) => out(crate::props::c10::check_frame(&f, seed_of(data), None), true, "generated-frame"),
                }
            }
        }
        "c13_json" => {
            if data.is_empty() {
                return out(vec![], false, "short");
            }
            if data[0] & 1 == 0 {
                let s = String::from_utf8_lossy(&data[1..]).into_owned();
                let valid = crate::common::json::parse(&s, 64).is_some();
                out(crate::props::c13::check_text(&s).into_iter().collect(), valid && s.len() > 2, if valid { "valid-text" } else { "invalid-text" })
            } else {
                thread_local! { static S: proptest::strategy::BoxedStrategy<crate::common::json::JV> = crate::props::c13::arb_value().boxed(); }
                match S.with(|s| draw(s, &data[1..])) {
                    None => out(vec![], false, "rejected-by-generator"),
                    Some(v) => {
                        let indent = match (data[0] >> 1) % 3 {
                            0 => None,
                            1 => Some(2),
                            _ => Some(4),
                        };
                        out(crate::props::c13::check_value(&v, indent).into_iter().collect(), true, "generated-value")
                    }
                }
            }
        }
        "c16_cache" => {
            thread_local! { static S: proptest::strategy::BoxedStrategy<crate::props::c16::SeqCase> = crate::props::c16::arb_seq().boxed(); }
            match S.with(|s| draw(s, data)) {
                None => out(vec![], false, "rejected-by-generator"),
                Some(c) => {
                    let mut st = crate::props::c16::Stats { evictions: false, overwrites: false };
                    let f = crate::props::c16::check_seq(&c, &mut st);
                    out(f, st.evictions || st.overwrites, "sequence")
                }
            }
        }
        "c18_codecs" => {
            if data.is_empty() {
                return out(vec![], false, "short");
            }
            let rest = &data[1..];
            use crate::props::c18::*;
            let (f, label) = match data[0] % 6 {
                0 => (check_sha1(rest), "sha1"),
                1 => (check_b64_encode(rest), "base64-encode"),
                2 => (check_b64_decode(&String::from_utf8_lossy(rest)), "base64-decode"),
                3 => (check_pct_encode(rest), "percent-encode"),
                4 => (check_pct_decode(&String::from_utf8_lossy(rest)), "percent-decode"),
                _ => {
                    let mut b = [0u8; 8];
                    for (i, x) in rest.iter().take(8).enumerate() {
                        b[i] = *x;
                    }
                    // the documented range of DateTime: years 1970..9999
                    let ts = (u64::from_le_bytes(b) % 253_402_300_800) as i64;
                    (check_date(ts), "date")
                }
            };
            out(f.into_iter().collect(), rest.len() > 1, label)
        }
        _ => out(vec![Fail::new("harness", format!("unknown fuzz target {}", target))], false, "unknown"),
    }
}

// ------------------------------------------------------------------------------------------ in-target accounting

static EXECS: AtomicU64 = AtomicU64::new(0);
static NONTRIVIAL: AtomicU64 = AtomicU64::new(0);
static LABELS: Mutex<BTreeMap<&'static str, u64>> = Mutex::new(BTreeMap::new());
static KNOWN_HITS: Mutex<BTreeMap<String, u64>> = Mutex::new(BTreeMap::new());
static KNOWN: OnceLock<Known> = OnceLock::new();
static TARGET: OnceLock<String> = OnceLock::new();

fn dump_stats() {
    let dir = match std::env::var("HV_FUZZ_STATS_DIR") {
        Ok(d) => d,
        Err(_) => return,
    };
    let target = TARGET.get().cloned().unwrap_or_default();
    let labels: BTreeMap<String, u64> = LABELS.lock().map(|l| l.iter().map(|(k, v)| (k.to_string(), *v)).collect()).unwrap_or_default();
    let known = KNOWN_HITS.lock().map(|k| k.clone()).unwrap_or_default();
    let v = serde_json::json!({
        "target": target,
        "execs": EXECS.load(Ordering::SeqCst),
        "nontrivial": NONTRIVIAL.load(Ordering::SeqCst),
        "labels": labels,
        "known_findings_hit": known,
    });
    let _ = std::fs::write(format!("{}/{}.{}.json", dir, target, std::process::id()), v.to_string());
}

extern "C" fn at_exit() {
    dump_stats();
}

/// Called by the libFuzzer targets for every input. Aborts (so that libFuzzer saves the input) on a violation
/// that is not a listed known finding.
pub fn fuzz_entry(target: &'static str, data: &[u8]) {
    if TARGET.set(target.to_string()).is_ok() {
        // libfuzzer-sys installs a hook that aborts on any panic; the oracles catch the panics of the code under test
        std::panic::set_hook(Box::new(|_| {}));
        unsafe {
            libc::atexit(at_exit);
        }
    }
    let known = KNOWN.get_or_init(Known::load);
    let prop = property_of(target).unwrap_or("?");
    let r = match catch(|| fuzz_one(target, data)) {
        Ok(r) => r,
        Err(p) => {
            eprintln!("HARNESS PANIC in fuzz target {}: {}", target, p);
            dump_stats();
            std::process::abort();
        }
    };
    let n = EXECS.fetch_add(1, Ordering::Relaxed) + 1;
    if r.nontrivial {
        NONTRIVIAL.fetch_add(1, Ordering::Relaxed);
    }
    if let Ok(mut l) = LABELS.lock() {
        *l.entry(r.label).or_insert(0) += 1;
    }
    for f in r.fails {
        if known.lookup(prop, &f.sig).is_some() {
            if let Ok(mut k) = KNOWN_HITS.lock() {
                *k.entry(f.sig.clone()).or_insert(0) += 1;
            }
            continue;
        }
        eprintln!("FUZZ-VIOLATION property={} target={} signature={}\n  detail: {}", prop, target, f.sig, f.detail);
        dump_stats();
        std::process::abort();
    }
    if n % 16384 == 0 {
        dump_stats();
    }
}
