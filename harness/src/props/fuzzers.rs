//! Entry points for the coverage-guided fuzz targets in /verif/fuzz (libFuzzer through cargo-fuzz). Each target
//! puts the property's oracle inside the target. The bytes are used in one of three ways: as the raw input of a
//! differential oracle (where any byte string is in the domain: C03, C05, C13 texts, C10 decoding, C18); as a
//! structure hand-decoded inside the domain of the property's proptest generator (frames, JSON values, cache
//! operation sequences); or as a key for that generator plus an explicit read plan (requests and responses, whose
//! generators carry too many implicit constraints to re-implement: the fuzzer then steers the segmentation).
//! Known findings are tolerated in-target and counted, so a campaign goes on past them.

use crate::engine::{catch, Fail, Known};
use proptest::strategy::{Strategy, ValueTree};
use proptest::test_runner::{Config, RngAlgorithm, TestRng, TestRunner};
use std::collections::BTreeMap;
use std::sync::atomic::{AtomicU64, Ordering};
use std::sync::{Mutex, OnceLock};

/// (fuzz target, property id, maximum input length, what the bytes mean, runs per job in the thorough tier)
pub const TARGETS: &[(&str, &str, usize, &str, u64)] = &[
    ("c02_request", "C02", 512, "bytes 0..32 key the request generator (ChaCha), the rest is the read plan (one read size per byte)", 60000),
    ("c03_parsers", "C03", 4096, "byte 0 = parser (request, response, frame, JSON, config), byte 1 = delivery (all at once / byte by byte), rest = input", 600000),
    ("c05_glob", "C05", 64, "byte 0 = split position, rest = pattern ++ text (lossy UTF-8)", 1500000),
    ("c07_response", "C07", 768, "byte 0 = side; wire side: bytes 1..33 key the response generator, the rest is the read plan; builder side: the bytes key the builder-spec generator", 60000),
    ("c10_frames", "C10", 600, "byte 0 = mode: raw bytes decoded under a read plan, or read plan + a frame decoded from the bytes (flags, opcode, mask, boundary lengths, payload)", 300000),
    ("c13_json", "C13", 1024, "byte 0 = mode: the rest is a JSON text candidate (lossy UTF-8), or a JSON value decoded from the bytes (serialise / parse round trip)", 400000),
    ("c16_cache", "C16", 1024, "cache size limit, time limit and an operation sequence (set/get, key, host, size) decoded from the bytes", 150000),
    ("c18_codecs", "C18", 256, "byte 0 = codec (SHA-1, Base64 encode/decode, percent encode/decode, date), rest = input", 1000000),
];

pub fn property_of(target: &str) -> Option<&'static str> {
    TARGETS.iter().find(|t| t.0 == target).map(|t| t.1)
}

pub struct FuzzOut {
    pub fails: Vec<Fail>,
    pub nontrivial: bool,
    pub label: &'static str,
}

fn out(fails: Vec<Fail>, nontrivial: bool, label: &'static str) -> FuzzOut {
    FuzzOut { fails, nontrivial, label }
}

/// A value of `strat` drawn from a ChaCha stream keyed by the first 32 bytes of `key` (zero padded). proptest's
/// PassThrough RNG cannot be used: it halves the remaining bytes at every fork of the RNG, answers zeros once they
/// run out, and rand 0.9's uniform integer sampler rejects a constant zero forever.
fn draw<S: Strategy>(strat: &S, key: &[u8]) -> Option<S::Value> {
    let mut seed = [0u8; 32];
    for (i, b) in key.iter().take(32).enumerate() {
        seed[i] = *b;
    }
    let rng = TestRng::from_seed(RngAlgorithm::ChaCha, &seed);
    let mut cfg = Config::default();
    cfg.failure_persistence = None;
    let mut runner = TestRunner::new_with_rng(cfg, rng);
    strat.new_tree(&mut runner).ok().map(|t| t.current())
}

/// Byte cursor for hand-decoded structures; answers zeros once the input runs out.
struct Cur<'a> {
    d: &'a [u8],
    p: usize,
}

impl<'a> Cur<'a> {
    fn new(d: &'a [u8]) -> Cur<'a> {
        Cur { d, p: 0 }
    }
    fn u8(&mut self) -> u8 {
        let b = self.d.get(self.p).copied().unwrap_or(0);
        self.p += 1;
        b
    }
    fn u16(&mut self) -> u16 {
        u16::from_le_bytes([self.u8(), self.u8()])
    }
    fn u32(&mut self) -> u32 {
        u32::from_le_bytes([self.u8(), self.u8(), self.u8(), self.u8()])
    }
    fn u64(&mut self) -> u64 {
        (self.u32() as u64) | ((self.u32() as u64) << 32)
    }
    fn left(&self) -> usize {
        self.d.len().saturating_sub(self.p)
    }
    fn rest(&mut self) -> &'a [u8] {
        let r = &self.d[self.p.min(self.d.len())..];
        self.p = self.d.len();
        r
    }
}

/// The read plan encoded by the tail of a fuzz input: one read size per byte (1..=64, or a large read for 0xFF).
fn plans_from(bytes: &[u8]) -> Vec<crate::common::http::Plan> {
    use crate::common::http::Plan;
    let sizes: Vec<usize> = bytes.iter().take(400).map(|b| if *b == 0xFF { 5000 } else { 1 + (*b as usize % 64) }).collect();
    vec![Plan::Whole, if sizes.is_empty() { Plan::ByteWise } else { Plan::Sizes(sizes) }]
}

fn with_plans<R>(plans: Vec<crate::common::http::Plan>, f: impl FnOnce() -> R) -> R {
    crate::common::http::PLAN_OVERRIDE.with(|p| *p.borrow_mut() = Some(plans));
    let r = f();
    crate::common::http::PLAN_OVERRIDE.with(|p| *p.borrow_mut() = None);
    r
}

const STR_PALETTE: &[char] = &['a', 'b', 'Z', '0', ' ', '_', '-', '"', '\\', '/', '\u{8}', '\u{c}', '\n', '\r', '\t', '\u{0}', '\u{1f}', '\u{7f}', 'é', '😀', '\u{ffff}', '\u{10ffff}', '\u{d7ff}', '\u{e000}', '\u{2028}', '{', '}', '[', ']', ',', ':', 'u'];

fn dec_string(c: &mut Cur) -> String {
    let n = (c.u8() % 9) as usize;
    let mut s = String::new();
    for _ in 0..n {
        let b = c.u8();
        if b < 0xE0 {
            s.push(STR_PALETTE[b as usize % STR_PALETTE.len()]);
        } else {
            // any scalar value
            let v = c.u32() % 0x110000;
            s.push(char::from_u32(v).unwrap_or('\u{fffd}'));
        }
    }
    s
}

const NUMS: &[f64] = &[0.0, -0.0, f64::MAX, f64::MIN, f64::MIN_POSITIVE, 5e-324, 9007199254740993.0, -9007199254740992.0, 1e21, 1e-7, 0.1, 1.5e300, 1e15, 123456789.0, -1.0];

fn dec_number(c: &mut Cur) -> f64 {
    match c.u8() % 5 {
        0 => (c.u16() as i64 - 1000) as f64,
        1 => {
            let f = f64::from_bits(c.u64());
            if f.is_finite() {
                f
            } else {
                1.0
            }
        }
        2 => NUMS[c.u8() as usize % NUMS.len()],
        3 => (c.u64() as i64) as f64,
        _ => f64::from_bits(c.u64() % (1u64 << 52)),
    }
}

/// Same domain as c13::arb_value: any finite number, any scalar values in strings, duplicate keys allowed, bounded depth.
fn dec_value(c: &mut Cur, depth: usize, budget: &mut usize) -> crate::common::json::JV {
    use crate::common::json::JV;
    *budget = budget.saturating_sub(1);
    let leaf_only = depth >= 5 || *budget == 0 || c.left() == 0;
    match c.u8() % if leaf_only { 6 } else { 8 } {
        0 => JV::Null,
        1 => JV::Bool(c.u8() & 1 == 1),
        2 | 3 => JV::Num(dec_number(c)),
        4 | 5 => JV::Str(dec_string(c)),
        6 => {
            let n = (c.u8() % 6) as usize;
            JV::Arr((0..n).map(|_| dec_value(c, depth + 1, budget)).collect())
        }
        _ => {
            let n = (c.u8() % 6) as usize;
            JV::Obj((0..n).map(|_| (dec_string(c), dec_value(c, depth + 1, budget))).collect())
        }
    }
}

/// Same domain as c10::arb_frame.
fn dec_frame(c: &mut Cur) -> crate::common::ws::RFrame {
    let b0 = c.u8();
    let b1 = c.u8();
    let mask = if b1 & 1 == 1 { Some([c.u8(), c.u8(), c.u8(), c.u8()]) } else { None };
    const LENS: [usize; 11] = [0, 1, 124, 125, 126, 127, 128, 65534, 65535, 65536, 65537];
    let len = match (b1 >> 1) % 4 {
        0 => LENS[c.u8() as usize % LENS.len()],
        1 | 2 => c.u16() as usize % 300,
        _ => c.u32() as usize % 70_000,
    };
    // payload: the remaining input bytes repeated (so that the fuzzer controls the payload), or zeros
    let rest = c.rest();
    let payload: Vec<u8> = if rest.is_empty() { vec![0; len] } else { rest.iter().copied().cycle().take(len).collect() };
    crate::common::ws::RFrame { fin: b0 & 1 == 1, rsv: [b0 & 2 != 0, b0 & 4 != 0, b0 & 8 != 0], opcode: crate::common::ws::OPCODES[(b0 >> 4) as usize % 6], mask, payload }
}

/// Same domain as c16::arb_seq.
fn dec_seq(c: &mut Cur) -> crate::props::c16::SeqCase {
    use crate::props::c16::{Op, SeqCase};
    let limit = match c.u8() % 6 {
        0 => 0,
        1 => 1,
        2 => 100,
        3 => 1000,
        4 => 65536,
        _ => 2 + c.u16() as usize % 69_998,
    };
    let time_limit = [0usize, 1, 60][c.u8() as usize % 3];
    let n = 1 + c.u8() as usize % 119;
    let mut ops = Vec::new();
    for _ in 0..n {
        let b = c.u8();
        let key = c.u8() % 32;
        let host = (b >> 2) % 3;
        if b & 3 == 3 {
            ops.push(Op::Get { key, host });
        } else {
            let size = match (b >> 4) % 5 {
                0 | 1 => c.u32() as usize % (limit + 1),
                2 => limit,
                3 => (limit / 2 + 1).min(limit),
                _ => 0,
            };
            ops.push(Op::Set { key, host, size });
        }
        if c.left() == 0 {
            break;
        }
    }
    SeqCase { limit, time_limit, ops }
}

pub fn fuzz_one(target: &str, data: &[u8]) -> FuzzOut {
    match target {
        "c02_request" => {
            thread_local! { static S: proptest::strategy::BoxedStrategy<crate::common::http::ReqSpec> = crate::common::http::arb_req().boxed(); }
            // bytes 0..32 key the request generator, the rest is the read plan
            let (key, plan) = data.split_at(data.len().min(32));
            match S.with(|s| draw(s, key)) {
                None => out(vec![], false, "rejected-by-generator"),
                Some(spec) => {
                    let (nt, labels) = crate::props::c02::nontrivial(&spec);
                    let f = with_plans(plans_from(plan), || crate::props::c02::check(&spec, 0, None));
                    out(f, nt || !plan.is_empty(), labels.last().copied().unwrap_or("request"))
                }
            }
        }
        "c03_parsers" => {
            if data.len() < 2 {
                return out(vec![], false, "short");
            }
            use crate::props::targets::*;
            let targets = [T_REQUEST, T_RESPONSE, T_FRAME, T_JSON, T_CONFIG];
            let t = targets[data[0] as usize % targets.len()];
            let mode = data[1] % 2;
            let input = &data[2..];
            let name = TARGET_NAMES[t as usize];
            let (r, peak, single) = crate::engine::worker::measure(|| catch(|| parser_target(t, mode, input)));
            let mut fails = Vec::new();
            match r {
                Err(p) => fails.push(fail!(format!("panic:{}:{}", name, crate::props::c03::norm_msg(&p)), "{} parser panicked ({}) on {}", name, p, crate::engine::show(&input[..input.len().min(300)]))),
                Ok(_) => {
                    let bound = crate::props::c03::mem_bound(input.len());
                    if peak > bound || single > bound {
                        let known_class = t == T_CONFIG && single <= bound && peak <= bound + crate::props::c03::config_route_allowance(input);
                        fails.push(fail!(if known_class { "memory:config:route-patterns-x-settings".to_string() } else { format!("memory:{}", name) }, "{} parser allocated peak {} bytes (largest single request {}) for a {}-byte input (bound {}): {}", name, peak, single, input.len(), bound, crate::engine::show(&input[..input.len().min(300)])));
                    }
                }
            }
            out(fails, input.len() > 4, name)
        }
        "c05_glob" => {
            if data.is_empty() {
                return out(vec![], false, "short");
            }
            let rest = &data[1..];
            let k = (data[0] as usize).min(rest.len());
            let p = String::from_utf8_lossy(&rest[..k]).into_owned();
            let t = String::from_utf8_lossy(&rest[k..]).into_owned();
            let nt = crate::props::c05::nontrivial(&p, &t);
            out(crate::props::c05::check(&p, &t).into_iter().collect(), nt, if p.contains('*') { "pattern-with-star" } else { "literal-pattern" })
        }
        "c07_response" => {
            if data.is_empty() {
                return out(vec![], false, "short");
            }
            if data[0] & 1 == 0 {
                thread_local! { static S: proptest::strategy::BoxedStrategy<crate::props::c07::RespSpec> = crate::props::c07::arb_resp().boxed(); }
                let d = &data[1..];
                let (key, plan) = d.split_at(d.len().min(32));
                match S.with(|s| draw(s, key)) {
                    None => out(vec![], false, "rejected-by-generator"),
                    Some(spec) => out(with_plans(plans_from(plan), || crate::props::c07::check_wire(&spec, 0, None)), true, "wire"),
                }
            } else {
                thread_local! { static S: proptest::strategy::BoxedStrategy<crate::props::c07::BuildSpec> = crate::props::c07::arb_build().boxed(); }
                match S.with(|s| draw(s, &data[1..])) {
                    None => out(vec![], false, "rejected-by-generator"),
                    Some(spec) => out(crate::props::c07::check_build(&spec), true, "builder"),
                }
            }
        }
        "c10_frames" => {
            if data.is_empty() {
                return out(vec![], false, "short");
            }
            if data[0] & 1 == 0 {
                let bytes = &data[1..];
                let plan = match (data[0] >> 1) % 3 {
                    0 => crate::common::http::Plan::Whole,
                    1 => crate::common::http::Plan::ByteWise,
                    _ => crate::common::http::Plan::Whole,
                };
                out(crate::props::c10::check_decode(bytes, &plan).into_iter().collect(), bytes.len() >= 2, "raw-decode")
            } else {
                // bytes 1..17: read plan; then the frame
                let d = &data[1..];
                let (plan, fr) = d.split_at(d.len().min(16));
                let f = dec_frame(&mut Cur::new(fr));
                out(with_plans(plans_from(plan), || crate::props::c10::check_frame(&f, 0, None)), true, "decoded-frame")
            }
        }
        "c13_json" => {
            if data.is_empty() {
                return out(vec![], false, "short");
            }
            if data[0] & 1 == 0 {
                let s = String::from_utf8_lossy(&data[1..]).into_owned();
                let valid = crate::common::json::parse(&s, 64).is_some();
                out(crate::props::c13::check_text(&s).into_iter().collect(), valid && s.len() > 2, if valid { "valid-text" } else { "invalid-text" })
            } else {
                let mut budget = 48usize;
                let v = dec_value(&mut Cur::new(&data[1..]), 0, &mut budget);
                let indent = match (data[0] >> 1) % 3 {
                    0 => None,
                    1 => Some(2),
                    _ => Some(4),
                };
                out(crate::props::c13::check_value(&v, indent).into_iter().collect(), true, "decoded-value")
            }
        }
        "c16_cache" => {
            let c = dec_seq(&mut Cur::new(data));
            let mut st = crate::props::c16::Stats { evictions: false, overwrites: false };
            let f = crate::props::c16::check_seq(&c, &mut st);
            out(f, st.evictions || st.overwrites, "sequence")
        }
        "c18_codecs" => {
            if data.is_empty() {
                return out(vec![], false, "short");
            }
            let rest = &data[1..];
            use crate::props::c18::*;
            let (f, label) = match data[0] % 6 {
                0 => (check_sha1(rest), "sha1"),
                1 => (check_b64_encode(rest), "base64-encode"),
                2 => (check_b64_decode(&String::from_utf8_lossy(rest)), "base64-decode"),
                3 => (check_pct_encode(rest), "percent-encode"),
                4 => (check_pct_decode(&String::from_utf8_lossy(rest)), "percent-decode"),
                _ => {
                    let mut b = [0u8; 8];
                    for (i, x) in rest.iter().take(8).enumerate() {
                        b[i] = *x;
                    }
                    // the documented range of DateTime: years 1970..9999
                    let ts = (u64::from_le_bytes(b) % 253_402_300_800) as i64;
                    (check_date(ts), "date")
                }
            };
            out(f.into_iter().collect(), rest.len() > 1, label)
        }
        _ => out(vec![Fail::new("harness", format!("unknown fuzz target {}", target))], false, "unknown"),
    }
}

// ------------------------------------------------------------------------------------------ corpus replay (quick tier)

/// Re-evaluates every committed corpus input of the property's fuzz targets with the in-target oracle, inside `hv`
/// (no libFuzzer, no nightly toolchain): the seconds-long replay tier of the fuzzing campaigns.
pub fn replay_corpus(ctx: &crate::engine::Ctx) {
    for t in TARGETS.iter().filter(|t| t.1 == ctx.id) {
        let dir = format!("{}/corpus/fuzz/{}", crate::engine::VERIF_DIR, t.0);
        let mut files: Vec<std::path::PathBuf> = match std::fs::read_dir(&dir) {
            Ok(rd) => rd.filter_map(|e| e.ok().map(|e| e.path())).filter(|p| p.is_file()).collect(),
            Err(_) => continue,
        };
        files.sort();
        let next = std::sync::atomic::AtomicUsize::new(0);
        let target = t.0;
        // c03_parsers measures allocations with process-wide counters: one case at a time
        crate::engine::shards(if target == "c03_parsers" { 1 } else { 8 }, |_| loop {
            let i = next.fetch_add(1, Ordering::SeqCst);
            if i >= files.len() || ctx.has_failed() {
                break;
            }
            let data = match std::fs::read(&files[i]) {
                Ok(d) => d,
                Err(_) => continue,
            };
            let r = match catch(|| fuzz_one(target, &data)) {
                Ok(r) => r,
                Err(p) => {
                    ctx.inconclusive(&format!("fuzz corpus replay of {} panicked in the harness: {}", files[i].display(), p));
                    continue;
                }
            };
            let label = format!("fuzz-corpus:{}:{}", target, r.label);
            ctx.case(crate::engine::hash_of(&(target, &data)), r.nontrivial, &[label.as_str()]);
            if let Some(f) = ctx.triage(r.fails) {
                let path = format!("{}/replay/{}-fuzz-{}-crash-{:016x}", crate::engine::VERIF_DIR, ctx.id, target, crate::engine::hash_of(&data));
                let _ = std::fs::create_dir_all(format!("{}/replay", crate::engine::VERIF_DIR));
                let _ = std::fs::write(&path, &data);
                ctx.violation_file(f, path);
            }
        });
        ctx.sample(&format!("fuzz-corpus:{}", target), || serde_json::json!({"target": target, "corpus_files": files.len(), "input": t.3}));
    }
}

// ------------------------------------------------------------------------------------------ in-target accounting

static EXECS: AtomicU64 = AtomicU64::new(0);
static NONTRIVIAL: AtomicU64 = AtomicU64::new(0);
static LABELS: Mutex<BTreeMap<&'static str, u64>> = Mutex::new(BTreeMap::new());
static KNOWN_HITS: Mutex<BTreeMap<String, u64>> = Mutex::new(BTreeMap::new());
static KNOWN: OnceLock<Known> = OnceLock::new();
static TARGET: OnceLock<String> = OnceLock::new();

fn dump_stats() {
    let dir = match std::env::var("HV_FUZZ_STATS_DIR") {
        Ok(d) => d,
        Err(_) => return,
    };
    let target = TARGET.get().cloned().unwrap_or_default();
    let labels: BTreeMap<String, u64> = LABELS.lock().map(|l| l.iter().map(|(k, v)| (k.to_string(), *v)).collect()).unwrap_or_default();
    let known = KNOWN_HITS.lock().map(|k| k.clone()).unwrap_or_default();
    let v = serde_json::json!({
        "target": target,
        "execs": EXECS.load(Ordering::SeqCst),
        "nontrivial": NONTRIVIAL.load(Ordering::SeqCst),
        "labels": labels,
        "known_findings_hit": known,
    });
    let _ = std::fs::write(format!("{}/{}.{}.json", dir, target, std::process::id()), v.to_string());
}

extern "C" fn at_exit() {
    dump_stats();
}

/// Called by the libFuzzer targets for every input. Aborts (so that libFuzzer saves the input) on a violation
/// that is not a listed known finding.
pub fn fuzz_entry(target: &'static str, data: &[u8]) {
    if TARGET.set(target.to_string()).is_ok() {
        // libfuzzer-sys installs a hook that aborts on any panic; the oracles catch the panics of the code under test
        std::panic::set_hook(Box::new(|_| {}));
        unsafe {
            libc::atexit(at_exit);
        }
    }
    let known = KNOWN.get_or_init(Known::load);
    let prop = property_of(target).unwrap_or("?");
    let r = match catch(|| fuzz_one(target, data)) {
        Ok(r) => r,
        Err(p) => {
            eprintln!("HARNESS PANIC in fuzz target {}: {}", target, p);
            dump_stats();
            std::process::abort();
        }
    };
    let n = EXECS.fetch_add(1, Ordering::Relaxed) + 1;
    if r.nontrivial {
        NONTRIVIAL.fetch_add(1, Ordering::Relaxed);
    }
    if let Ok(mut l) = LABELS.lock() {
        *l.entry(r.label).or_insert(0) += 1;
    }
    for f in r.fails {
        if known.lookup(prop, &f.sig).is_some() {
            if let Ok(mut k) = KNOWN_HITS.lock() {
                *k.entry(f.sig.clone()).or_insert(0) += 1;
            }
            continue;
        }
        eprintln!("FUZZ-VIOLATION property={} target={} signature={}\n  detail: {}", prop, target, f.sig, f.detail);
        dump_stats();
        std::process::abort();
    }
    if n % 16384 == 0 {
        dump_stats();
    }
}
