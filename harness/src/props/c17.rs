//! C17 — passwords and session tokens authenticate exactly their owner, only while valid.
//! Model-based: operation sequences against AuthProvider<Vec<User>> and a reference model; the auth
//! route is exercised through a real App on loopback.

use crate::common::net::exchange;
use crate::common::net_app::start_app;
use crate::engine::{hash_of, pt, Ctx, Fail};
use humphrey::http::{Response, StatusCode};
use humphrey_auth::app::{AuthApp, AuthState};
use humphrey_auth::config::AuthConfig;
use humphrey_auth::error::AuthError;
use humphrey_auth::user::User;
use humphrey_auth::AuthProvider;
use proptest::prelude::*;
use serde::{Deserialize, Serialize};
use serde_json::{json, Value as J};
use std::sync::{Arc, Mutex, MutexGuard};
use std::time::Duration;

#[derive(Clone, Debug, Serialize, Deserialize, PartialEq)]
pub enum Op {
    CreateUser(u8),
    RemoveUser(u8),
    /// (user slot, 0 right / 1 wrong / 2 another user's password / 3 unknown uid)
    Verify(u8, u8),
    /// (user slot, 0 default lifetime / 1 lifetime 0 / 2 lifetime 3600)
    CreateSession(u8, u8),
    Refresh(u8),
    Invalidate(u8),
    InvalidateUser(u8),
    GetUid(u8),
    Exists(u8),
    /// auth-route request: token slot, or 250 = no cookie, 251 = garbage cookie
    Route(u8),
}

#[derive(Clone, Debug, Serialize, Deserialize)]
pub struct Case {
    pub pepper: bool,
    pub zero_refresh: bool,
    pub ops: Vec<Op>,
}

struct State {
    provider: Mutex<AuthProvider<Vec<User>>>,
}

impl AuthState<Vec<User>> for State {
    fn auth_provider(&self) -> MutexGuard<AuthProvider<Vec<User>>> {
        self.provider.lock().unwrap()
    }
}

struct MUser {
    uid: String,
    password: String,
    /// (token, live)
    session: Option<(String, bool)>,
    removed: bool,
}

const N_PASSWORDS: usize = 9;

/// Passwords 5..7 are long (1100 bytes, beyond any plausible prefix an implementation might hash instead of the whole
/// input): 5 and 6 differ only in their last character, 7 differs from 5 only in its first character.
fn password(i: usize) -> String {
    let long = |first: char, last: char| -> String { std::iter::once(first).chain(std::iter::repeat('x').take(1098)).chain(std::iter::once(last)).collect() };
    match i % N_PASSWORDS {
        0 => "hunter2".into(),
        1 => "correct horse battery staple".into(),
        2 => String::new(),
        3 => "pässwörd-😀".into(),
        4 => "hunter3".into(),
        5 => long('x', 'A'),
        6 => long('x', 'B'),
        7 => long('y', 'A'),
        _ => "hun\0ter2".into(),
    }
}

/// A password that is not `pw` but close to it (the ways an implementation could confuse two passwords: a shared prefix,
/// a truncation, letter case, padding, a terminator).
fn near_miss(pw: &str, variant: u8) -> String {
    let chars: Vec<char> = pw.chars().collect();
    let out: String = match variant % 8 {
        0 => format!("{}x", pw),
        1 => chars[..chars.len().saturating_sub(1)].iter().collect(),
        2 => {
            let mut done = false;
            chars.iter().map(|c| if !done && c.is_ascii_alphabetic() { done = true; if c.is_ascii_lowercase() { c.to_ascii_uppercase() } else { c.to_ascii_lowercase() } } else { *c }).collect()
        }
        3 => {
            let mut v = chars.clone();
            if let Some(l) = v.last_mut() { *l = if *l == 'q' { 'r' } else { 'q' }; }
            v.into_iter().collect()
        }
        4 => format!("{}\0", pw),
        5 => if chars.len() > 600 { chars[..128].iter().collect() } else if chars.len() > 16 { chars[..16].iter().collect() } else { format!("{} ", pw) },
        6 => format!("{}{}", pw, pw),
        _ => format!(" {}", pw),
    };
    if out == pw { format!("{}x", pw) } else { out }
}


pub fn check(c: &Case, shard: usize, stats: &mut (bool, bool)) -> Vec<Fail> {
    let mut config = AuthConfig::default();
    if c.pepper {
        config = config.with_pepper("pepper-and-salt");
    }
    if c.zero_refresh {
        config = config.with_default_refresh_lifetime(0);
    }
    let provider = AuthProvider::new(Vec::<User>::new()).with_config(config);
    let state = State { provider: Mutex::new(provider) };
    let needs_app = c.ops.iter().any(|o| matches!(o, Op::Route(_)));
    let app = humphrey::App::new_with_config(2, state);
    let st = app.get_state();
    let running = if needs_app {
        let app = app.with_auth_route("/auth", |_req, _state: Arc<State>, uid: String| Response::new(StatusCode::OK, uid));
        match start_app(app, &format!("127.0.17.{}", 1 + shard)) {
            Ok(r) => Some(r),
            Err(e) => return vec![Fail::new("harness-app", e)],
        }
    } else {
        None
    };
    let mut users: Vec<MUser> = Vec::new();
    let mut tokens: Vec<String> = Vec::new(); // every token ever issued
    let mut fails: Vec<Fail> = Vec::new();
    let slot = |n: u8, len: usize| if len == 0 { None } else { Some(n as usize % len) };
    for (i, op) in c.ops.iter().enumerate() {
        let mut p = st.provider.lock().unwrap();
        match op {
            Op::CreateUser(pw) => {
                if users.iter().filter(|u| !u.removed).count() >= 5 {
                    continue;
                }
                let password = password(*pw as usize);
                let password = password.as_str();
                match p.create_user(password) {
                    Ok(uid) => {
                        if users.iter().any(|u| u.uid == uid) {
                            fails.push(fail!("duplicate-uid", "step {}: create_user returned an uid already in use", i));
                        }
                        users.push(MUser { uid, password: password.to_string(), session: None, removed: false });
                    }
                    Err(e) => fails.push(fail!("create-user-failed", "step {}: create_user failed: {:?}", i, e)),
                }
            }
            Op::RemoveUser(u) => {
                if let Some(k) = slot(*u, users.len()) {
                    let want_ok = !users[k].removed;
                    let got = p.remove_user(&users[k].uid);
                    if got.is_ok() != want_ok {
                        fails.push(fail!("remove-user", "step {}: remove_user returned {:?} for a user that {}", i, got, if want_ok { "exists" } else { "was already removed" }));
                    }
                    users[k].removed = true;
                    users[k].session = None;
                }
            }
            Op::Verify(u, kind) => {
                if let Some(k) = slot(*u, users.len()) {
                    let (uid, pw, want): (String, String, bool) = match kind % 4 {
                        0 => (users[k].uid.clone(), users[k].password.clone(), !users[k].removed),
                        1 => (users[k].uid.clone(), near_miss(&users[k].password, kind / 4), false),
                        2 => {
                            let other = &users[(k + 1) % users.len()];
                            (users[k].uid.clone(), other.password.clone(), !users[k].removed && other.password == users[k].password)
                        }
                        // an unknown uid verifies with nothing: some user's password, the empty password, a short one
                        _ => (
                            "00000000-0000-4000-8000-000000000000".to_string(),
                            match (kind / 4) % 3 { 0 => users[k].password.clone(), 1 => String::new(), _ => "x".to_string() },
                            false,
                        ),
                    };
                    let got = p.verify(&uid, &pw);
                    if got != want {
                        fails.push(fail!(
                            if got { "password-accepted-wrongly" } else { "password-rejected-wrongly" },
                            "step {}: verify(kind {}) = {} but the model says {}",
                            i, kind % 4, got, want
                        ));
                    }
                }
            }
            Op::CreateSession(u, kind) => {
                if let Some(k) = slot(*u, users.len()) {
                    let got = match kind % 3 {
                        0 => p.create_session(&users[k].uid),
                        1 => p.create_session_with_lifetime(&users[k].uid, 0),
                        _ => p.create_session_with_lifetime(&users[k].uid, 3600),
                    };
                    let live_now = kind % 3 != 1;
                    let want: Result<(), AuthError> = if users[k].removed {
                        Err(AuthError::UserNotFound)
                    } else if users[k].session.as_ref().map_or(false, |s| s.1) {
                        Err(AuthError::SessionAlreadyExists)
                    } else {
                        Ok(())
                    };
                    match (&got, &want) {
                        (Ok(tok), Ok(())) => {
                            if tok.len() != 64 || !tok.bytes().all(|b| b.is_ascii_digit() || (b'a'..=b'f').contains(&b)) {
                                fails.push(fail!("token-format", "step {}: token {:?} is not 64 lower-case hex digits", i, tok));
                            }
                            if tokens.contains(tok) {
                                fails.push(fail!("token-repeated", "step {}: token {:?} was issued before", i, tok));
                            }
                            tokens.push(tok.clone());
                            users[k].session = Some((tok.clone(), live_now));
                            stats.1 |= users.iter().filter(|u| u.session.is_some()).count() >= 2;
                        }
                        (Err(e), Err(w)) if e == w => {}
                        _ => fails.push(fail!("create-session", "step {}: create_session(kind {}) returned {:?}, model says {:?}", i, kind % 3, got.as_ref().map(|_| "token"), want)),
                    }
                }
            }
            Op::Refresh(t) => {
                let (tok, owner) = pick_token(*t, &tokens, &users);
                let live_owner = owner.filter(|k| users[*k].session.as_ref().map_or(false, |s| s.0 == tok && s.1));
                let got = p.refresh_session(&tok);
                if owner.map_or(true, |k| users[k].session.as_ref().map_or(true, |s| s.0 != tok || !s.1)) && !tokens.is_empty() {
                    stats.0 = true; // a stale / unknown token was used
                }
                match (got.is_ok(), live_owner) {
                    (true, Some(k)) => {
                        if c.zero_refresh {
                            users[k].session = Some((tok.clone(), false));
                        }
                    }
                    (false, None) => {}
                    (true, None) => {
                        let expired = owner.map_or(false, |k| users[k].session.as_ref().map_or(false, |s| s.0 == tok && !s.1));
                        fails.push(fail!(
                            if expired { "refresh-revives-expired-token" } else { "refresh-accepts-dead-token" },
                            "step {}: refresh_session accepted a token that is {}",
                            i,
                            if expired { "expired" } else { "unknown, invalidated or of a removed user" }
                        ));
                        // keep the model in step with what the implementation now believes, to avoid cascades
                        if let Some(k) = owner {
                            if expired && !c.zero_refresh {
                                users[k].session = Some((tok.clone(), true));
                            }
                        }
                    }
                    (false, Some(_)) => fails.push(fail!("refresh-rejects-live-token", "step {}: refresh_session rejected a live token: {:?}", i, got)),
                }
            }
            Op::Invalidate(t) => {
                let (tok, owner) = pick_token(*t, &tokens, &users);
                p.invalidate_session(&tok);
                if let Some(k) = owner {
                    if users[k].session.as_ref().map_or(false, |s| s.0 == tok) {
                        users[k].session = None;
                    }
                }
            }
            Op::InvalidateUser(u) => {
                if let Some(k) = slot(*u, users.len()) {
                    p.invalidate_user_session(&users[k].uid);
                    if !users[k].removed {
                        users[k].session = None;
                    }
                }
            }
            Op::GetUid(t) => {
                let (tok, _) = pick_token(*t, &tokens, &users);
                check_token(&p, &tok, &users, i, &mut fails, stats);
            }
            Op::Exists(u) => {
                if let Some(k) = slot(*u, users.len()) {
                    let got = p.exists(&users[k].uid);
                    if got == users[k].removed {
                        fails.push(fail!("exists", "step {}: exists() = {} for a user that {}", i, got, if users[k].removed { "was removed" } else { "exists" }));
                    }
                }
            }
            Op::Route(t) => {
                drop(p);
                let (cookie, want_uid): (Option<String>, Option<String>) = match *t {
                    250 => (None, None),
                    251 => (Some("deadbeef".repeat(8)), None),
                    n => {
                        let (tok, owner) = pick_token(n, &tokens, &users);
                        let uid = owner.filter(|k| users[*k].session.as_ref().map_or(false, |s| s.0 == tok && s.1)).map(|k| users[k].uid.clone());
                        (Some(tok), uid)
                    }
                };
                let req = match &cookie {
                    Some(c) => format!("GET /auth HTTP/1.1\r\nHost: x\r\nCookie: theme=dark; HumphreyToken={}\r\n\r\n", c),
                    None => "GET /auth HTTP/1.1\r\nHost: x\r\n\r\n".to_string(),
                };
                let addr = running.as_ref().unwrap().addr;
                match exchange(addr, req.as_bytes(), Duration::from_secs(10)) {
                    Err(e) => fails.push(Fail::new("harness-exchange", e)),
                    Ok(bytes) => {
                        let text = String::from_utf8_lossy(&bytes).to_string();
                        let status: u16 = text.split(' ').nth(1).and_then(|s| s.parse().ok()).unwrap_or(0);
                        match &want_uid {
                            Some(uid) => {
                                if status != 200 || !text.contains(uid.as_str()) {
                                    fails.push(fail!("route-rejects-live-token", "step {}: auth route answered {} for a live token", i, status));
                                }
                            }
                            None => {
                                if status != 401 {
                                    fails.push(fail!("route-accepts-dead-token", "step {}: auth route answered {} for {}", i, status, if cookie.is_some() { "a token that is not live" } else { "a request without cookie" }));
                                }
                            }
                        }
                    }
                }
                continue;
            }
        }
        // after every step: every token ever issued maps to its owner iff live; at most one live token per user
        for tok in &tokens {
            check_token(&p, tok, &users, i, &mut fails, &mut (false, false));
        }
        if !fails.is_empty() {
            break;
        }
    }
    if let Some(r) = running {
        let _ = r.stop(Duration::from_secs(10));
    }
    fails
}

fn pick_token(n: u8, tokens: &[String], users: &[MUser]) -> (String, Option<usize>) {
    if tokens.is_empty() || n >= 240 {
        return ("f".repeat(64), None);
    }
    // near misses of an issued token are unknown tokens: a prefix, the empty string, an extension, another letter case
    if n >= 200 {
        let base = &tokens[n as usize % tokens.len()];
        let t = match n % 5 {
            0 => base[..32].to_string(),
            1 => String::new(),
            2 => format!("{}0", base),
            3 => base[..63].to_string(),
            _ => base.to_ascii_uppercase(),
        };
        if !tokens.contains(&t) {
            return (t, None);
        }
    }
    let tok = tokens[n as usize % tokens.len()].clone();
    // owner = the (non-removed) user whose current session carries this token
    let owner = users.iter().position(|u| !u.removed && u.session.as_ref().map_or(false, |s| s.0 == tok));
    (tok, owner)
}

fn check_token(p: &AuthProvider<Vec<User>>, tok: &str, users: &[MUser], step: usize, fails: &mut Vec<Fail>, stats: &mut (bool, bool)) {
    let want = users.iter().find(|u| !u.removed && u.session.as_ref().map_or(false, |s| s.0 == tok && s.1)).map(|u| u.uid.clone());
    if want.is_none() {
        stats.0 = true;
    }
    match (p.get_uid_by_token(tok), want) {
        (Ok(g), Some(w)) if g == w => {}
        (Err(AuthError::InvalidToken), None) => {}
        (Ok(g), Some(w)) => fails.push(fail!("token-wrong-owner", "step {}: token authenticates {} instead of its owner {}", step, g, w)),
        (Ok(g), None) => fails.push(fail!("dead-token-authenticates", "step {}: a token that is expired, invalidated, replaced or whose user was removed still authenticates {}", step, g)),
        (Err(e), Some(_)) => fails.push(fail!("live-token-rejected", "step {}: live token rejected: {:?}", step, e)),
        (Err(e), None) => fails.push(fail!("token-error-kind", "step {}: dead token rejected with {:?} instead of InvalidToken", step, e)),
    }
}

fn arb_op() -> impl Strategy<Value = Op> {
    prop_oneof![
        3 => any::<u8>().prop_map(Op::CreateUser),
        1 => any::<u8>().prop_map(Op::RemoveUser),
        2 => (any::<u8>(), 0u8..32).prop_map(|(a, b)| Op::Verify(a, b)),
        5 => (any::<u8>(), 0u8..3).prop_map(|(a, b)| Op::CreateSession(a, b)),
        4 => any::<u8>().prop_map(Op::Refresh),
        2 => any::<u8>().prop_map(Op::Invalidate),
        1 => any::<u8>().prop_map(Op::InvalidateUser),
        2 => any::<u8>().prop_map(Op::GetUid),
        1 => any::<u8>().prop_map(Op::Exists),
        2 => prop_oneof![4 => (0u8..240), 1 => Just(250u8), 1 => Just(251u8)].prop_map(Op::Route),
    ]
}

pub fn run(ctx: &Ctx) {
    ctx.rule("operation sequences (<=60 ops, <=5 users) over create/remove user, verify (right / wrong / another user's password / unknown uid), create_session (default / lifetime 0 = already expired / 3600), refresh, invalidate, invalidate_user_session, get_uid_by_token, exists and requests to a with_auth_route route on a real App (no cookie / garbage / any token ever issued), with and without pepper, default and zero refresh lifetime; after every step every token ever issued is looked up and compared with a reference model. Non-trivial: a stale (expired / invalidated / replaced / removed-user) token is used after it died, or >=2 users hold sessions; distinct by sequence");
    ctx.assume("only lifetimes 0 and >=3600 s are used, so expectations never depend on the clock; Argon2 with default parameters");
    let cases = ctx.share(ctx.tier.pick(1600u32, 32000u32)).max(16);
    let nshards = 16;
    crate::engine::shards(nshards, |i| {
        pt::run(
            ctx,
            "seq",
            pt::Opts::new(cases / nshards as u32).salt(ctx.salt_of(1700 + i as u64)).shrink_iters(300),
            (any::<bool>(), any::<bool>(), proptest::collection::vec(arb_op(), 1..60)).prop_map(|(pepper, zero_refresh, ops)| Case { pepper, zero_refresh, ops }),
            |c| serde_json::to_value(c).unwrap(),
            |c| {
                let mut stats = (false, false);
                let f = check(c, i, &mut stats);
                if f.iter().any(|x| x.sig.starts_with("harness-")) {
                    ctx.inconclusive(&f[0].detail);
                    return Vec::new();
                }
                let mut labels = vec!["seq"];
                if stats.0 {
                    labels.push("seq:stale-token-used");
                }
                if stats.1 {
                    labels.push("seq:>=2-users-with-sessions");
                }
                if c.ops.iter().any(|o| matches!(o, Op::Route(_))) {
                    labels.push("seq:auth-route");
                }
                ctx.case(hash_of(&format!("{:?}", c)), stats.0 || stats.1, &labels);
                ctx.sample(labels.last().unwrap(), || json!({"pepper": c.pepper, "zero_refresh": c.zero_refresh, "ops": c.ops.iter().take(15).collect::<Vec<_>>(), "n_ops": c.ops.len()}));
                f
            },
        );
    });
}

pub fn replay(_ctx: &Ctx, _kind: &str, case: &J) -> Vec<Fail> {
    match serde_json::from_value::<Case>(case.clone()) {
        Ok(c) => check(&c, 15, &mut (false, false)),
        Err(e) => vec![Fail::new("harness", format!("bad replay case: {}", e))],
    }
}
