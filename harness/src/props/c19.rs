//! C19 — a blacklisted address never receives content.
//! Level 1: the server's route handlers called in-process with requests whose address fields come from
//! the real parser. Level 2: the real `humphrey` binary started from a generated configuration file,
//! with loopback clients bound to chosen source addresses.

use crate::common::http::PlanReader;
use crate::engine::{catch, hash_of, pt, show, Ctx, Fail, Lcg};
use crate::props::c15::TmpDir;
use humphrey::http::Request;
use humphrey_server::config::{BlacklistConfig, BlacklistMode, Config, LoadBalancerMode};
use humphrey_server::proxy::{EqMutex, LoadBalancer};
use humphrey_server::server::server::AppState;
use serde_json::{json, Value as J};
use std::io::{Read, Write};
use std::net::{IpAddr, SocketAddr, TcpListener, TcpStream};
use std::sync::atomic::{AtomicBool, Ordering};
use std::sync::Arc;
use std::time::{Duration, Instant};

const MARKER: &[u8] = b"SECRET-CONTENT-MARKER-7f3a";

/// header field names are case-insensitive: the forwarded-for header is spelt in several ways
const XFF_NAMES: [&str; 4] = ["X-Forwarded-For", "x-forwarded-for", "X-FORWARDED-FOR", "X-forwarded-For"];

fn make_request(uri: &str, peer: SocketAddr, xff: &Option<String>, extra: bool) -> Request {
    let mut wire = format!("GET {} HTTP/1.1\r\nHost: localhost\r\n", uri);
    if let Some(x) = xff {
        wire.push_str(&format!("{}: {}\r\n", XFF_NAMES[(x.len() + uri.len()) % 4], x));
    }
    if extra {
        wire.push_str("Forwarded: for=10.9.8.7\r\nVia: 1.1 example\r\nX-Real-IP: 10.9.8.7\r\n");
    }
    wire.push_str("\r\n");
    let mut rd = PlanReader::new(wire.into_bytes(), vec![usize::MAX]);
    Request::from_stream(&mut rd, peer).expect("harness request")
}

/// a tiny upstream that answers every connection with the marker
pub struct MarkerUpstream {
    pub addr: SocketAddr,
    stop: Arc<AtomicBool>,
    handle: Option<std::thread::JoinHandle<()>>,
}

impl MarkerUpstream {
    pub fn start(ip: &str) -> MarkerUpstream {
        let l = TcpListener::bind((ip, 0)).expect("bind upstream");
        let addr = l.local_addr().unwrap();
        l.set_nonblocking(true).unwrap();
        let stop = Arc::new(AtomicBool::new(false));
        let s2 = stop.clone();
        let handle = std::thread::spawn(move || {
            while !s2.load(Ordering::SeqCst) {
                match l.accept() {
                    Ok((mut s, _)) => {
                        let _ = s.set_nonblocking(false);
                        let _ = crate::common::net::read_request(&mut s, Duration::from_secs(5));
                        let body = MARKER;
                        let resp = format!("HTTP/1.1 200 OK\r\nContent-Type: text/plain\r\nContent-Length: {}\r\n\r\n", body.len());
                        let mut b = resp.into_bytes();
                        b.extend_from_slice(body);
                        crate::common::net::write_all_close(s, &b);
                    }
                    Err(_) => std::thread::sleep(Duration::from_micros(300)),
                }
            }
        });
        MarkerUpstream { addr, stop, handle: Some(handle) }
    }
}

impl Drop for MarkerUpstream {
    fn drop(&mut self) {
        self.stop.store(true, Ordering::SeqCst);
        if let Some(h) = self.handle.take() {
            let _ = h.join();
        }
    }
}

fn ip_pool() -> Vec<IpAddr> {
    ["127.0.0.1", "127.0.0.2", "127.1.2.3", "127.255.255.254", "10.0.0.1", "192.168.1.77", "::1", "2001:db8::1", "203.0.113.9", "127.0.0.10"].iter().map(|s| s.parse().unwrap()).collect()
}

#[derive(Clone, Debug)]
struct InCase {
    list: Vec<IpAddr>,
    forbidden_mode: bool,
    cache: bool,
    peer: SocketAddr,
    xff: Option<String>,
    xff_addrs: Vec<IpAddr>,
    route: u8, // 0 file 1 directory 2 redirect 3 proxy
    extra_headers: bool,
    repeat: bool,
}

fn gen_incase(rng: &mut Lcg) -> InCase {
    let pool = ip_pool();
    let pick = |rng: &mut Lcg| pool[(rng.next() % pool.len() as u64) as usize];
    let nlist = (rng.next() % 4) as usize;
    let list: Vec<IpAddr> = (0..nlist).map(|_| pick(rng)).collect();
    let peer_ip = pick(rng);
    let peer = SocketAddr::new(peer_ip, 1024 + (rng.next() % 60000) as u16);
    let (xff, xff_addrs) = if rng.next() % 2 == 0 {
        (None, vec![])
    } else {
        let n = 1 + (rng.next() % 3) as usize;
        let addrs: Vec<IpAddr> = (0..n).map(|_| pick(rng)).collect();
        let sep = if rng.next() % 2 == 0 { "," } else { ", " };
        (Some(addrs.iter().map(|a| a.to_string()).collect::<Vec<_>>().join(sep)), addrs)
    };
    InCase { list, forbidden_mode: rng.next() % 2 == 0, cache: rng.next() % 2 == 0, peer, xff, xff_addrs, route: (rng.next() % 4) as u8, extra_headers: rng.next() % 3 == 0, repeat: rng.next() % 2 == 0 }
}

fn in_process(ctx: &Ctx) {
    let n = ctx.tier.pick(60_000u64, 2_000_000u64);
    let tmp = TmpDir::new("c19");
    std::fs::create_dir_all(tmp.0.join("www")).unwrap();
    let mut content = MARKER.to_vec();
    content.extend_from_slice(b" file body");
    std::fs::write(tmp.0.join("www/secret.txt"), &content).unwrap();
    std::fs::write(tmp.0.join("www/index.html"), &content).unwrap();
    let dir = tmp.0.join("www").display().to_string();
    let file = tmp.0.join("www/secret.txt").display().to_string();
    let next = std::sync::atomic::AtomicU64::new(0);
    let found: std::sync::Mutex<Vec<(Fail, J)>> = std::sync::Mutex::new(Vec::new());
    crate::engine::shards(16, |sh| {
        let upstream = MarkerUpstream::start(&format!("127.0.19.{}", 1 + sh));
        loop {
            let i = next.fetch_add(1, Ordering::SeqCst);
            if i >= n {
                break;
            }
            let mut rng = Lcg(pt::mix(ctx.seed, 1900 + i));
            let c = gen_incase(&mut rng);
            let mut cfg: Config = crate::props::c16::quiet_config(if c.cache { 1 << 20 } else { 0 }, 60);
            cfg.blacklist = BlacklistConfig { list: c.list.clone(), mode: if c.forbidden_mode { BlacklistMode::Forbidden } else { BlacklistMode::Block } };
            let state = Arc::new(AppState::from(cfg));
            let lb = EqMutex::new(LoadBalancer { targets: vec![upstream.addr.to_string()], mode: LoadBalancerMode::RoundRobin, index: 0, lcg: humphrey_server::rand::Lcg::new() });
            let uri = match c.route {
                0 => "/file",
                1 => "/static/secret.txt",
                2 => "/old",
                _ => "/api/data",
            };
            let call = |req: Request| match c.route {
                0 => catch(|| humphrey_server::r#static::file_handler(req, state.clone(), &file, 0)),
                1 => catch(|| humphrey_server::r#static::directory_handler(req, state.clone(), &dir, "/static/*", 0)),
                2 => catch(|| humphrey_server::r#static::redirect_handler(req, state.clone(), "/new-location")),
                _ => catch(|| humphrey_server::proxy::proxy_handler(req, state.clone(), &lb, "/api/*")),
            };
            let peer_listed = c.list.contains(&c.peer.ip());
            let origin_listed = c.xff_addrs.last().map_or(false, |a| c.list.contains(a));
            let fwd_listed = c.xff_addrs.iter().any(|a| c.list.contains(a));
            let must_403 = peer_listed || origin_listed;
            // only an intermediate forwarded address is listed: the statement speaks of the client's own address and the
            // address the request is forwarded on behalf of; either outcome is accepted here
            let either = !must_403 && fwd_listed;
            if c.repeat && (c.route == 0 || c.route == 1) {
                // warm the cache from an address that is certainly unlisted
                let warm = make_request(uri, "198.51.100.1:5000".parse().unwrap(), &None, false);
                let _ = call(warm);
            }
            let req = make_request(uri, c.peer, &c.xff, c.extra_headers);
            let nt = c.xff.is_some() || (c.repeat && c.cache) || c.peer.is_ipv6();
            let mut labels = vec!["in-process", ["route:file", "route:directory", "route:redirect", "route:proxy"][c.route as usize]];
            if either {
                labels.push("listed-intermediate-only(either)");
            } else if must_403 {
                labels.push(if peer_listed { "listed-peer" } else { "listed-forwarded-address" });
            } else {
                labels.push("all-unlisted");
            }
            if peer_listed && c.xff.is_some() && !c.xff_addrs.iter().any(|a| c.list.contains(a)) {
                labels.push("listed-peer-sends-unlisted-xff");
            }
            ctx.case(hash_of(&format!("{:?}", c)), nt, &labels);
            ctx.sample(labels.last().unwrap(), || json!({"blacklist": c.list.iter().map(|a| a.to_string()).collect::<Vec<_>>(), "peer": c.peer.to_string(), "x_forwarded_for": c.xff, "route": uri, "cache": c.cache, "expect": if must_403 { "403, no content" } else { "served" }}));
            let f = match call(req) {
                Err(p) => Some(fail!("handler-panic", "handler for {} panicked: {}", uri, p)),
                Ok(r) => {
                    let status = u16::from(r.status_code);
                    let has_marker = r.body.windows(MARKER.len()).any(|w| w == MARKER);
                    let has_location = r.headers.get("Location").is_some();
                    if either {
                        None
                    } else if must_403 {
                        if status != 403 || has_marker || has_location {
                            let kind = if peer_listed && c.xff.is_some() { "listed-peer-with-xff-served" } else if peer_listed { "listed-peer-served" } else if c.xff_addrs.last().map_or(false, |a| c.list.contains(a)) { "listed-origin-served" } else { "listed-intermediate-forwarded-address-served" };
                            Some(fail!(
                                kind,
                                "blacklist {:?}; peer {} X-Forwarded-For {:?}: {} answered {}{} instead of 403",
                                c.list, c.peer, c.xff, uri, status, if has_marker { " with the protected content" } else if has_location { " with the redirect target" } else { "" }
                            ))
                        } else {
                            None
                        }
                    } else {
                        let ok = match c.route {
                            2 => status == 301 && has_location,
                            _ => status == 200 && has_marker,
                        };
                        if !ok {
                            Some(fail!("unlisted-not-served", "blacklist {:?}; peer {} X-Forwarded-For {:?} (all unlisted): {} answered {} instead of being served normally", c.list, c.peer, c.xff, uri, status))
                        } else {
                            None
                        }
                    }
                }
            };
            if let Some(f) = f {
                let mut g = found.lock().unwrap();
                if !g.iter().any(|(x, _)| x.sig == f.sig) {
                    g.push((f, json!({"seed_index": i.to_string()})));
                }
            }
        }
    });
    for (f, c) in found.into_inner().unwrap() {
        if !ctx.tolerate(&f) {
            ctx.violation(f, "in-process", c);
        }
    }
}

// ------------------------------------------------------------------------------------------ real binary

pub fn build_server_binary() -> Result<String, String> {
    let out = std::process::Command::new("cargo")
        .args(["build", "--manifest-path", "/repo/Cargo.toml", "-p", "humphrey_server", "--release", "--offline", "--target-dir", "/verif/target/server"])
        .env("CARGO_NET_OFFLINE", "true")
        .env_remove("RUSTFLAGS")
        .output()
        .map_err(|e| e.to_string())?;
    if !out.status.success() {
        return Err(format!("cargo build of humphrey_server failed: {}", String::from_utf8_lossy(&out.stderr).chars().rev().take(400).collect::<String>().chars().rev().collect::<String>()));
    }
    Ok("/verif/target/server/release/humphrey".to_string())
}

struct Server {
    child: std::process::Child,
    addr: SocketAddr,
}

impl Drop for Server {
    fn drop(&mut self) {
        let _ = self.child.kill();
        let _ = self.child.wait();
    }
}

fn request_from(src: IpAddr, dst: SocketAddr, bytes: &[u8]) -> Result<Vec<u8>, String> {
    // bind the client socket to the chosen source address
    let sock = unsafe {
        let fam = if src.is_ipv4() { libc::AF_INET } else { libc::AF_INET6 };
        let fd = libc::socket(fam, libc::SOCK_STREAM, 0);
        if fd < 0 {
            return Err("socket() failed".into());
        }
        let one: libc::c_int = 1;
        libc::setsockopt(fd, libc::SOL_SOCKET, libc::SO_REUSEADDR, &one as *const _ as *const libc::c_void, 4);
        use std::os::unix::io::FromRawFd;
        let rc = match SocketAddr::new(src, 0) {
            SocketAddr::V4(a) => {
                let sa = libc::sockaddr_in { sin_family: libc::AF_INET as u16, sin_port: 0, sin_addr: libc::in_addr { s_addr: u32::from_ne_bytes(a.ip().octets()) }, sin_zero: [0; 8] };
                libc::bind(fd, &sa as *const _ as *const libc::sockaddr, std::mem::size_of::<libc::sockaddr_in>() as u32)
            }
            SocketAddr::V6(a) => {
                let mut sa: libc::sockaddr_in6 = std::mem::zeroed();
                sa.sin6_family = libc::AF_INET6 as u16;
                sa.sin6_addr.s6_addr = a.ip().octets();
                libc::bind(fd, &sa as *const _ as *const libc::sockaddr, std::mem::size_of::<libc::sockaddr_in6>() as u32)
            }
        };
        if rc != 0 {
            libc::close(fd);
            return Err(format!("bind to source {} failed", src));
        }
        let (ptr, len): (*const libc::sockaddr, u32);
        let sa4;
        let sa6;
        match dst {
            SocketAddr::V4(a) => {
                sa4 = libc::sockaddr_in { sin_family: libc::AF_INET as u16, sin_port: a.port().to_be(), sin_addr: libc::in_addr { s_addr: u32::from_ne_bytes(a.ip().octets()) }, sin_zero: [0; 8] };
                ptr = &sa4 as *const _ as *const libc::sockaddr;
                len = std::mem::size_of::<libc::sockaddr_in>() as u32;
            }
            SocketAddr::V6(a) => {
                let mut s: libc::sockaddr_in6 = std::mem::zeroed();
                s.sin6_family = libc::AF_INET6 as u16;
                s.sin6_port = a.port().to_be();
                s.sin6_addr.s6_addr = a.ip().octets();
                sa6 = s;
                ptr = &sa6 as *const _ as *const libc::sockaddr;
                len = std::mem::size_of::<libc::sockaddr_in6>() as u32;
            }
        }
        if libc::connect(fd, ptr, len) != 0 {
            libc::close(fd);
            let e = std::io::Error::last_os_error();
            return Err(format!("connect {} -> {} failed: {}", src, dst, e));
        }
        TcpStream::from_raw_fd(fd)
    };
    let mut sock = sock;
    let _ = sock.set_nodelay(true);
    let _ = sock.write_all(bytes);
    let _ = sock.set_read_timeout(Some(Duration::from_secs(8)));
    let mut out = Vec::new();
    let mut tmp = [0u8; 16384];
    loop {
        match sock.read(&mut tmp) {
            Ok(0) => return Ok(out),
            Ok(n) => out.extend_from_slice(&tmp[..n]),
            Err(e) if e.kind() == std::io::ErrorKind::ConnectionReset => return Ok(out),
            Err(e) => return Err(format!("read: {}", e)),
        }
    }
}

fn end_to_end(ctx: &Ctx) {
    let bin = match build_server_binary() {
        Ok(b) => b,
        Err(e) => {
            ctx.inconclusive(&format!("end-to-end level skipped: {}", e));
            ctx.assume("end-to-end level NOT run: the humphrey server binary could not be built");
            return;
        }
    };
    let servers = ctx.tier.pick(144u64, 3000u64);
    let next = std::sync::atomic::AtomicU64::new(0);
    let found: std::sync::Mutex<Vec<(Fail, J)>> = std::sync::Mutex::new(Vec::new());
    crate::engine::shards(12, |sh| {
        let upstream = MarkerUpstream::start(&format!("127.0.19.{}", 100 + sh));
        loop {
            let k = next.fetch_add(1, Ordering::SeqCst);
            if k >= servers {
                break;
            }
            let mut rng = Lcg(pt::mix(ctx.seed, 1950 + k));
            let tmp = TmpDir::new("c19e");
            std::fs::create_dir_all(tmp.0.join("www")).unwrap();
            let mut content = MARKER.to_vec();
            content.extend_from_slice(b" e2e");
            std::fs::write(tmp.0.join("www/secret.txt"), &content).unwrap();
            let v6 = rng.next() % 4 == 0;
            let forbidden = rng.next() % 2 == 0;
            let cache = rng.next() % 2 == 0;
            let sources: Vec<IpAddr> = if v6 { vec!["::1".parse().unwrap()] } else { vec!["127.0.0.1".parse().unwrap(), format!("127.0.{}.{}", 50 + sh, 1 + rng.next() % 200).parse().unwrap(), format!("127.{}.7.9", 1 + rng.next() % 200).parse().unwrap()] };
            // list: a subset of the sources plus foreign entries of both families
            let mut list: Vec<IpAddr> = vec!["10.66.66.66".parse().unwrap(), "2001:db8::bad".parse().unwrap()];
            let listed_src: Vec<bool> = sources.iter().map(|_| rng.next() % 2 == 0).collect();
            for (s, l) in sources.iter().zip(&listed_src) {
                if *l {
                    list.push(*s);
                }
            }
            if rng.next() % 5 == 0 {
                list.clear();
            }
            std::fs::write(tmp.0.join("blacklist.txt"), list.iter().map(|a| a.to_string()).collect::<Vec<_>>().join("\n")).unwrap();
            let bind_ip = if v6 { "::1".to_string() } else { "127.0.0.1".to_string() };
            // every server of this run gets its own port: two shards must never end up probing each other's server
            let port = crate::common::net::reserved_port(&bind_ip);
            let conf = format!(
                "server {{\n  address \"{}\"\n  port {}\n  threads 4\n  timeout 5\n  blacklist {{\n    file \"{}\"\n    mode \"{}\"\n  }}\n  log {{\n    level \"error\"\n    console false\n  }}\n  cache {{\n    size {}\n    time 60\n  }}\n  route /file {{\n    file \"{}\"\n  }}\n  route /static/* {{\n    directory \"{}\"\n  }}\n  route /old {{\n    redirect \"/new-location\"\n  }}\n  route /api/* {{\n    proxy \"{}\"\n  }}\n}}\n",
                bind_ip,
                port,
                tmp.0.join("blacklist.txt").display(),
                if forbidden { "forbidden" } else { "block" },
                if cache { "1M" } else { "0" },
                tmp.0.join("www/secret.txt").display(),
                tmp.0.join("www").display(),
                upstream.addr
            );
            let conf_path = tmp.0.join("humphrey.conf");
            std::fs::write(&conf_path, &conf).unwrap();
            let child = std::process::Command::new(&bin).arg(&conf_path).current_dir(&tmp.0).stdout(std::process::Stdio::null()).stderr(if std::env::var("HV_DEBUG").is_ok() { std::process::Stdio::inherit() } else { std::process::Stdio::null() }).spawn();
            let child = match child {
                Ok(c) => c,
                Err(e) => {
                    ctx.inconclusive(&format!("cannot spawn server: {}", e));
                    continue;
                }
            };
            let addr: SocketAddr = if v6 { format!("[::1]:{}", port).parse().unwrap() } else { format!("127.0.0.1:{}", port).parse().unwrap() };
            let mut server = Server { child, addr };
            // wait for it to listen (probe from a source that is certainly unlisted in v4; in v6 the only source may be listed: probe anyway)
            let t0 = Instant::now();
            let mut up = false;
            while t0.elapsed() < Duration::from_secs(10) {
                if TcpStream::connect_timeout(&server.addr, Duration::from_millis(200)).is_ok() {
                    up = true;
                    break;
                }
                std::thread::sleep(Duration::from_millis(10));
            }
            if !up {
                ctx.inconclusive("server binary did not start listening within 10 s");
                continue;
            }
            let listed = |a: &IpAddr| list.contains(a);
            for q in 0..ctx.tier.pick(20, 30) {
                let si = (rng.next() % sources.len() as u64) as usize;
                let src = sources[si];
                let route = (rng.next() % 4) as usize;
                let uri = ["/file", "/static/secret.txt", "/old", "/api/x"][route];
                let xff_choice = rng.next() % 4;
                let xff_addrs: Vec<IpAddr> = match xff_choice {
                    0 => vec![],
                    1 => vec!["198.51.100.7".parse().unwrap()],
                    2 => vec![list.first().copied().unwrap_or("10.66.66.66".parse().unwrap())],
                    _ => vec!["198.51.100.7".parse().unwrap(), list.last().copied().unwrap_or("10.66.66.66".parse().unwrap()), "198.51.100.8".parse().unwrap()],
                };
                let mut req = format!("GET {} HTTP/1.1\r\nHost: e2e\r\nConnection: close\r\n", uri);
                if !xff_addrs.is_empty() {
                    req.push_str(&format!("{}: {}\r\n", XFF_NAMES[((q / 2) % 4) as usize], xff_addrs.iter().map(|a| a.to_string()).collect::<Vec<_>>().join(if q % 2 == 0 { ", " } else { "," })));
                }
                req.push_str("\r\n");
                let peer_listed = listed(&src);
                let origin_listed = xff_addrs.last().map_or(false, |a| listed(a));
                let fwd_listed = origin_listed;
                if !peer_listed && !origin_listed && xff_addrs.iter().any(|a| listed(a)) {
                    ctx.exclude("end-to-end request where only an intermediate forwarded address is listed (either outcome accepted)", 1);
                    continue;
                }
                let mut labels = vec!["end-to-end", if forbidden { "mode:forbidden" } else { "mode:block" }];
                if v6 {
                    labels.push("ipv6");
                }
                if peer_listed {
                    labels.push("e2e:listed-peer");
                } else if fwd_listed {
                    labels.push("e2e:listed-forwarded");
                } else {
                    labels.push("e2e:unlisted");
                }
                ctx.case(hash_of(&(k, q, &req, src)), !xff_addrs.is_empty() || v6 || cache, &labels);
                ctx.sample(labels.last().unwrap(), || json!({"mode": if forbidden { "forbidden" } else { "block" }, "blacklist": list.iter().map(|a| a.to_string()).collect::<Vec<_>>(), "source": src.to_string(), "request": show(req.as_bytes())}));
                // With thousands of loopback connections in TIME_WAIT the kernel now and then resets or refuses a fresh
                // connection although the server is listening (observed: ECONNREFUSED with the listener shown by `ss`). Where a
                // normal answer is expected, an empty result is therefore retried on a new connection; a server that really does
                // not serve the request fails every attempt.
                let expect_answer = !(peer_listed && !forbidden);
                let mut attempt = 0;
                let resp = loop {
                    attempt += 1;
                    match request_from(src, server.addr, req.as_bytes()) {
                        Ok(r) if r.is_empty() && expect_answer && attempt < 4 => {
                            ctx.label("e2e:empty-answer-retried", 1);
                            std::thread::sleep(Duration::from_millis(20 * attempt));
                        }
                        Ok(r) => break Some(r),
                        Err(_) if attempt < 4 => {
                            ctx.label("e2e:connect-retried", 1);
                            std::thread::sleep(Duration::from_millis(20 * attempt));
                        }
                        Err(e) => {
                            ctx.inconclusive(&format!("e2e client: {} (server process: {:?})", e, server.child.try_wait()));
                            break None;
                        }
                    }
                };
                let resp = match resp {
                    Some(r) => r,
                    None => continue,
                };
                let text = String::from_utf8_lossy(&resp).to_string();
                let status: u16 = text.split(' ').nth(1).and_then(|s| s.parse().ok()).unwrap_or(0);
                let has_marker = resp.windows(MARKER.len()).any(|w| w == MARKER);
                let f = if peer_listed && !forbidden {
                    if !resp.is_empty() {
                        Some(fail!("block-mode-answered", "block mode, listed source {}: the connection yielded {} response bytes ({})", src, resp.len(), show(&resp[..resp.len().min(60)])))
                    } else {
                        None
                    }
                } else if peer_listed || fwd_listed {
                    if status != 403 || has_marker || text.contains("/new-location") {
                        Some(fail!(
                            if peer_listed { if xff_addrs.is_empty() { "e2e-listed-peer-served" } else { "e2e-listed-peer-with-xff-served" } } else { "e2e-listed-forwarded-served" },
                            "mode {}, blacklist {:?}, source {}, X-Forwarded-For {:?}: {} answered {}{} instead of 403",
                            if forbidden { "forbidden" } else { "block" }, list, src, xff_addrs, uri, status, if has_marker { " with the protected content" } else { "" }
                        ))
                    } else {
                        None
                    }
                } else {
                    let ok = if route == 2 { status == 301 } else { status == 200 && has_marker };
                    if !ok {
                        Some(fail!("e2e-unlisted-not-served", "source {} and forwarded {:?} are unlisted (blacklist {:?}) but {} answered {}", src, xff_addrs, list, uri, status))
                    } else {
                        None
                    }
                };
                if let Some(f) = f {
                    let mut g = found.lock().unwrap();
                    if !g.iter().any(|(x, _)| x.sig == f.sig) {
                        g.push((f, json!({"config": conf, "source": src.to_string(), "request": req})));
                    }
                }
            }
            drop(server);
        }
    });
    for (f, c) in found.into_inner().unwrap() {
        if !ctx.tolerate(&f) {
            ctx.violation(f, "e2e", c);
        }
    }
}

pub fn run(ctx: &Ctx) {
    ctx.rule("level 1: the server's file / directory / redirect / proxy handlers called in-process with an AppState built from a generated blacklist (0..3 IPv4/IPv6 entries), cache on/off, and requests parsed by the real parser from generated peers and X-Forwarded-For lists (with and without spaces, the header name in four spellings), optionally after warming the cache from an unlisted address; level 2: the real `humphrey` binary started from a generated configuration (block / forbidden, blacklist file with IPv4 and IPv6 entries, all four route types, cache on/off, listening on 127.0.0.1 or [::1]) and clients bound to chosen source addresses in 127.0.0.0/8 and ::1. Oracle: listed peer in block mode gets zero response bytes; listed peer or any listed forwarded address gets 403 and never the marker content or redirect target; all-unlisted requests are served normally. Non-trivial: request with X-Forwarded-For, a cache hit, or IPv6; distinct by case");
    ctx.assume("a request whose own (peer) address or any forwarded address is listed must get 403; requests always target a configured route; the upstream of proxy routes is a scripted loopback server returning the marker");
    in_process(ctx);
    end_to_end(ctx);
}

pub fn replay(ctx: &Ctx, kind: &str, _case: &J) -> Vec<Fail> {
    // cases are regenerated from the seed: re-run the corresponding level
    let _ = kind;
    let c2 = Ctx::new(&ctx.id, ctx.tier, ctx.seed, ctx.level);
    in_process(&c2);
    Vec::new()
}
