//! C14 — typed JSON mapping and the json! macro preserve every value.
//! The harness generates Rust programs (type declarations via derive and json_map!, random values,
//! json! literals), compiles them against /repo/humphrey-json and reads one result line per case.

use crate::engine::{hash_of, pt, Ctx, Fail, Lcg};
use serde_json::{json, Value as J};
use std::fmt::Write as _;
use std::path::PathBuf;

#[derive(Clone, Debug, PartialEq)]
enum FT {
    Bool,
    Int(&'static str),
    F64,
    Str,
    Opt(Box<FT>),
    Vec(Box<FT>),
    Named(usize),
}

#[derive(Clone, Debug)]
enum Kind {
    /// (field ident, json key, type)
    Struct(Vec<(String, String, FT)>),
    Tuple(Vec<FT>),
    /// (variant ident, json name)
    Enum(Vec<(String, String)>),
}

#[derive(Clone, Debug)]
struct TypeDef {
    name: String,
    kind: Kind,
    /// implemented with json_map! instead of the derive macros (named structs only)
    via_map: bool,
}

#[derive(Clone, Debug)]
enum Val {
    Bool(bool),
    Int(i128, &'static str),
    F(f64),
    S(String),
    None(FT),
    Some(Box<Val>),
    Vec(Vec<Val>, FT),
    Struct(usize, Vec<Val>),
    Tuple(usize, Vec<Val>),
    Enum(usize, usize),
}

const INT_TYPES: [(&str, i128, i128); 9] = [
    ("u8", 0, 255),
    ("u16", 0, 65535),
    ("u32", 0, u32::MAX as i128),
    ("u64", 0, u64::MAX as i128),
    ("i8", -128, 127),
    ("i16", -32768, 32767),
    ("i32", i32::MIN as i128, i32::MAX as i128),
    ("i64", i64::MIN as i128, i64::MAX as i128),
    ("usize", 0, u64::MAX as i128),
];

const RENAMES: [&str; 22] = ["with space", "quo\"te", "back\\slash", "ünï", "emoji😀", "", "new\nline", "{curly}", "a:b", "comma,", "null", "0", "tab\there", "/slash/", "cr\rhere", "nul\0byte", "del\u{7f}", "apo'strophe", "zero\u{200b}width", "\\\"both\"\\", "\\u0041", "\\n"];
const IDENTS: [&str; 17] = ["a", "b_c", "camelCase", "x1", "_private", "value", "name", "data2", "ünï", "long_identifier_name", "q", "zz", "Name", "NAME", "nam", "value2", "camelcase"];
/// variant identifiers that differ only in letter case or are prefixes of one another (seed C14-14: variant names compared
/// without regard to case, so `MB` read back as `Mb`)
const CASE_FAMILY: [&str; 14] = ["Mb", "MB", "mB", "Kb", "KB", "A", "Ab", "AB", "Abc", "ABC", "On", "ON", "Off", "OFF"];
const STRINGS: [&str; 10] = ["", "hello", "with \"quotes\" and \\ backslash", "ünï çödé 😀", "line\nbreak\ttab", "\u{0}\u{1f}\u{7f}", "null", "{\"a\":1}", "a/b", "\u{2028}\u{ffff}"];

fn json_escape(s: &str) -> String {
    let mut o = String::from("\"");
    for c in s.chars() {
        match c {
            '"' => o.push_str("\\\""),
            '\\' => o.push_str("\\\\"),
            c if (c as u32) < 0x20 => {
                let _ = write!(o, "\\u{:04x}", c as u32);
            }
            c => o.push(c),
        }
    }
    o.push('"');
    o
}

fn ft_rust(t: &FT, types: &[TypeDef]) -> String {
    match t {
        FT::Bool => "bool".into(),
        FT::Int(n) => n.to_string(),
        FT::F64 => "f64".into(),
        FT::Str => "String".into(),
        FT::Opt(i) => format!("Option<{}>", ft_rust(i, types)),
        FT::Vec(i) => format!("Vec<{}>", ft_rust(i, types)),
        FT::Named(k) => types[*k].name.clone(),
    }
}

/// a named struct all of whose fields are optional: it can be read back from `null` itself, so `Option<S>` must look at
/// the value before it asks `S`
fn all_optional(t: &TypeDef) -> bool {
    matches!(&t.kind, Kind::Struct(fs) if fs.iter().all(|f| matches!(f.2, FT::Opt(_))))
}

fn gen_ft(rng: &mut Lcg, types: &[TypeDef], depth: usize, in_opt: bool) -> FT {
    let ntypes = types.len();
    let r = rng.next() % 20;
    match r {
        0 | 1 => FT::Bool,
        2..=6 => FT::Int(INT_TYPES[(rng.next() % 9) as usize].0),
        7 | 8 => FT::F64,
        9..=11 => FT::Str,
        12 | 13 if depth < 2 && !in_opt => {
            // an optional all-optional struct now and then
            let nullable: Vec<usize> = (0..ntypes).filter(|k| all_optional(&types[*k])).collect();
            if !nullable.is_empty() && rng.next() % 2 == 0 {
                FT::Opt(Box::new(FT::Named(nullable[(rng.next() % nullable.len() as u64) as usize])))
            } else {
                FT::Opt(Box::new(gen_ft(rng, types, depth + 1, true)))
            }
        }
        14 | 15 if depth < 2 => FT::Vec(Box::new(gen_ft(rng, types, depth + 1, false))),
        16..=18 if ntypes > 0 => FT::Named((rng.next() % ntypes as u64) as usize),
        _ => FT::Str,
    }
}

fn gen_types(rng: &mut Lcg, n: usize) -> Vec<TypeDef> {
    let mut types: Vec<TypeDef> = Vec::new();
    for k in 0..n {
        let name = format!("T{}", k);
        let kind_sel = rng.next() % 10;
        let kind = if kind_sel < 5 {
            let nf = 1 + (rng.next() % 8) as usize;
            let mut idents: Vec<&str> = IDENTS.to_vec();
            let mut fields = Vec::new();
            let mut keys: Vec<String> = Vec::new();
            for _ in 0..nf {
                let i = (rng.next() % idents.len() as u64) as usize;
                let id = idents.remove(i).to_string();
                let mut key = if rng.next() % 3 == 0 { RENAMES[(rng.next() % RENAMES.len() as u64) as usize].to_string() } else { id.clone() };
                if keys.contains(&key) {
                    key = id.clone();
                }
                if keys.contains(&key) {
                    key = format!("{}_{}", id, keys.len());
                }
                keys.push(key.clone());
                fields.push((id, key, gen_ft(rng, &types, 0, false)));
            }
            // one struct in six renames two of its fields to each other's Rust identifiers (seed C14-15: a derive that looks
            // a field up under its Rust name first swaps them)
            if fields.len() >= 2 && rng.next() % 6 == 0 {
                let i = (rng.next() % fields.len() as u64) as usize;
                let j = (i + 1 + (rng.next() % (fields.len() as u64 - 1)) as usize) % fields.len();
                let (a, b) = (fields[i].0.clone(), fields[j].0.clone());
                if !fields.iter().enumerate().any(|(k, f)| k != i && k != j && (f.1 == a || f.1 == b)) {
                    fields[i].1 = b;
                    fields[j].1 = a;
                }
            }
            // one struct in eight has only optional fields
            if rng.next() % 8 == 0 {
                fields.truncate(3);
                for f in fields.iter_mut() {
                    if !matches!(f.2, FT::Opt(_)) {
                        let inner = match &f.2 {
                            FT::Vec(_) | FT::Named(_) => FT::Str,
                            other => other.clone(),
                        };
                        f.2 = FT::Opt(Box::new(inner));
                    }
                }
            }
            Kind::Struct(fields)
        } else if kind_sel < 8 {
            let nf = 1 + (rng.next() % 6) as usize;
            Kind::Tuple((0..nf).map(|_| gen_ft(rng, &types, 0, false)).collect())
        } else {
            let nv = 1 + (rng.next() % 8) as usize;
            let mut vs = Vec::new();
            let mut names: Vec<String> = Vec::new();
            // every third enum draws its variant identifiers from the case family
            let family = rng.next() % 3 == 0;
            let mut pool: Vec<&str> = CASE_FAMILY.to_vec();
            for v in 0..nv {
                let id = if family { pool.remove((rng.next() % pool.len() as u64) as usize).to_string() } else { format!("V{}", v) };
                let mut nm = if rng.next() % 3 == 0 { RENAMES[(rng.next() % RENAMES.len() as u64) as usize].to_string() } else { id.clone() };
                if names.contains(&nm) {
                    nm = id.clone();
                }
                names.push(nm.clone());
                vs.push((id, nm));
            }
            Kind::Enum(vs)
        };
        let via_map = matches!(kind, Kind::Struct(_)) && rng.next() % 3 == 0;
        types.push(TypeDef { name, kind, via_map });
    }
    // covering types, appended to every batch: every rename string is the JSON name of an enum variant, of a derived
    // struct's field and of a json_map! field at least once per batch (the random types above pick renames with
    // probability 1/3 each, which left a given (kind, rename) pair out of most quick batches)
    for (ci, chunk) in RENAMES.chunks(8).enumerate() {
        let vs: Vec<(String, String)> = chunk.iter().enumerate().map(|(i, r)| (format!("V{}", i), r.to_string())).collect();
        types.push(TypeDef { name: format!("CoverE{}", ci), kind: Kind::Enum(vs), via_map: false });
        for via_map in [false, true] {
            let fields: Vec<(String, String, FT)> = chunk
                .iter()
                .enumerate()
                .map(|(i, r)| {
                    let ft = match (i + ci) % 4 {
                        0 => FT::Int("u8"),
                        1 => FT::Str,
                        2 => FT::Opt(Box::new(FT::Str)),
                        _ => FT::Bool,
                    };
                    (format!("f{}", i), r.to_string(), ft)
                })
                .collect();
            types.push(TypeDef { name: format!("Cover{}{}", if via_map { "M" } else { "S" }, ci), kind: Kind::Struct(fields), via_map });
        }
    }
    // names that differ only in letter case or are prefixes of one another, in every batch: an enum with the whole case
    // family as variants (one value per variant is generated), a derived and a mapped struct whose keys are such names, and
    // a derived struct whose two fields are renamed to each other's identifiers
    types.push(TypeDef { name: "CoverCaseE".into(), kind: Kind::Enum(CASE_FAMILY.iter().map(|v| (v.to_string(), v.to_string())).collect()), via_map: false });
    for via_map in [false, true] {
        let fields: Vec<(String, String, FT)> = ["name", "Name", "NAME", "nam", "value", "value2", "camelCase", "camelcase"]
            .iter()
            .enumerate()
            .map(|(i, id)| (id.to_string(), id.to_string(), if i % 2 == 0 { FT::Str } else { FT::Int("u8") }))
            .collect();
        types.push(TypeDef { name: format!("CoverCase{}", if via_map { "M" } else { "S" }), kind: Kind::Struct(fields), via_map });
    }
    types.push(TypeDef {
        name: "CoverSwapS".into(),
        kind: Kind::Struct(vec![("a".into(), "b_c".into(), FT::Str), ("b_c".into(), "a".into(), FT::Str), ("q".into(), "q".into(), FT::Int("u8"))]),
        via_map: false,
    });
    types
}

fn gen_val(rng: &mut Lcg, t: &FT, types: &[TypeDef], beyond53: &mut bool) -> Val {
    match t {
        FT::Bool => Val::Bool(rng.next() % 2 == 0),
        FT::Int(n) => {
            let (_, lo, hi) = INT_TYPES.iter().find(|x| x.0 == *n).unwrap();
            let r = rng.next();
            let v: i128 = match r % 8 {
                0 => *lo,
                1 => *hi,
                2 => 0,
                3 => (*lo).max(-1),
                4 => (*hi).min(1 << 53),
                _ => {
                    let span = (*hi - *lo) as u128 + 1;
                    *lo + ((rng.next() as u128 * 0x9E3779B97F4A7C15u128 ^ rng.next() as u128) % span) as i128
                }
            };
            // does the value survive `v as f64 as T` (Rust's saturating float-to-int cast)? only values that do not are
            // covered by the known finding; u64::MAX, for instance, does survive (2^64 saturates back to u64::MAX)
            let back = {
                let f = v as f64;
                let i = if f >= 1.7e38 { i128::MAX } else if f <= -1.7e38 { i128::MIN } else { f as i128 };
                i.clamp(*lo, *hi)
            };
            if back != v {
                *beyond53 = true;
            }
            Val::Int(v, n)
        }
        FT::F64 => {
            let r = rng.next();
            let v = match r % 8 {
                0 => 0.0,
                1 => -0.0,
                2 => 1.5,
                3 => -123456.789,
                4 => 1e300,
                5 => 5e-324,
                6 => (rng.next() % 100000) as f64 / 7.0,
                _ => {
                    let f = f64::from_bits(rng.next());
                    if f.is_finite() {
                        f
                    } else {
                        42.0
                    }
                }
            };
            Val::F(v)
        }
        FT::Str => Val::S(STRINGS[(rng.next() % STRINGS.len() as u64) as usize].to_string()),
        FT::Opt(i) => {
            if rng.next() % 3 == 0 {
                Val::None((**i).clone())
            } else {
                Val::Some(Box::new(gen_val(rng, i, types, beyond53)))
            }
        }
        FT::Vec(i) => {
            let n = (rng.next() % 4) as usize;
            Val::Vec((0..n).map(|_| gen_val(rng, i, types, beyond53)).collect(), (**i).clone())
        }
        FT::Named(k) => match &types[*k].kind {
            Kind::Struct(fs) => Val::Struct(*k, fs.iter().map(|(_, _, t)| gen_val(rng, t, types, beyond53)).collect()),
            Kind::Tuple(ts) => Val::Tuple(*k, ts.iter().map(|t| gen_val(rng, t, types, beyond53)).collect()),
            Kind::Enum(vs) => Val::Enum(*k, (rng.next() % vs.len() as u64) as usize),
        },
    }
}

fn f64_lit(f: f64) -> String {
    let s = format!("{:?}", f);
    if s.contains('.') || s.contains('e') || s.contains("inf") || s.contains("NaN") {
        format!("{}f64", s)
    } else {
        format!("{}.0f64", s)
    }
}

fn val_rust(v: &Val, types: &[TypeDef]) -> String {
    match v {
        Val::Bool(b) => b.to_string(),
        Val::Int(i, t) => format!("({}{})", i, t),
        Val::F(f) => format!("({})", f64_lit(*f)),
        Val::S(s) => format!("String::from({:?})", s),
        Val::None(t) => format!("None::<{}>", ft_rust(t, types)),
        Val::Some(i) => format!("Some({})", val_rust(i, types)),
        Val::Vec(items, t) => {
            if items.is_empty() {
                format!("Vec::<{}>::new()", ft_rust(t, types))
            } else {
                format!("vec![{}]", items.iter().map(|x| val_rust(x, types)).collect::<Vec<_>>().join(", "))
            }
        }
        Val::Struct(k, vals) => {
            if let Kind::Struct(fs) = &types[*k].kind {
                format!("{} {{ {} }}", types[*k].name, fs.iter().zip(vals).map(|((id, _, _), v)| format!("{}: {}", id, val_rust(v, types))).collect::<Vec<_>>().join(", "))
            } else {
                unreachable!()
            }
        }
        Val::Tuple(k, vals) => format!("{}({})", types[*k].name, vals.iter().map(|v| val_rust(v, types)).collect::<Vec<_>>().join(", ")),
        Val::Enum(k, vi) => {
            if let Kind::Enum(vs) = &types[*k].kind {
                format!("{}::{}", types[*k].name, vs[*vi].0)
            } else {
                unreachable!()
            }
        }
    }
}

/// the documented JSON shape of a value, as text (reference serialiser)
fn val_json(v: &Val, types: &[TypeDef]) -> String {
    match v {
        Val::Bool(b) => b.to_string(),
        Val::Int(i, _) => i.to_string(),
        Val::F(f) => {
            let s = format!("{:?}", f);
            if s == "-0.0" {
                "-0.0".into()
            } else {
                s
            }
        }
        Val::S(s) => json_escape(s),
        Val::None(_) => "null".into(),
        Val::Some(i) => val_json(i, types),
        Val::Vec(items, _) => format!("[{}]", items.iter().map(|x| val_json(x, types)).collect::<Vec<_>>().join(",")),
        Val::Struct(k, vals) => {
            if let Kind::Struct(fs) = &types[*k].kind {
                format!("{{{}}}", fs.iter().zip(vals).map(|((_, key, _), v)| format!("{}:{}", json_escape(key), val_json(v, types))).collect::<Vec<_>>().join(","))
            } else {
                unreachable!()
            }
        }
        Val::Tuple(_, vals) => format!("[{}]", vals.iter().map(|v| val_json(v, types)).collect::<Vec<_>>().join(",")),
        Val::Enum(k, vi) => {
            if let Kind::Enum(vs) = &types[*k].kind {
                json_escape(&vs[*vi].1)
            } else {
                unreachable!()
            }
        }
    }
}

fn type_decl(t: &TypeDef, types: &[TypeDef]) -> String {
    let mut s = String::new();
    let derive = if t.via_map { "#[derive(PartialEq, Debug, Clone)]" } else { "#[derive(FromJson, IntoJson, PartialEq, Debug, Clone)]" };
    match &t.kind {
        Kind::Struct(fs) => {
            let _ = writeln!(s, "{}\npub struct {} {{", derive, t.name);
            for (id, key, ft) in fs {
                if !t.via_map && id != key {
                    let _ = writeln!(s, "    #[rename = {:?}]", key);
                }
                let _ = writeln!(s, "    pub {}: {},", id, ft_rust(ft, types));
            }
            let _ = writeln!(s, "}}");
            if t.via_map {
                let _ = writeln!(s, "json_map! {{\n    {},\n{}\n}}", t.name, fs.iter().map(|(id, key, _)| format!("    {} => {:?}", id, key)).collect::<Vec<_>>().join(",\n"));
            }
        }
        Kind::Tuple(ts) => {
            let _ = writeln!(s, "{}\npub struct {}({});", derive, t.name, ts.iter().map(|x| format!("pub {}", ft_rust(x, types))).collect::<Vec<_>>().join(", "));
        }
        Kind::Enum(vs) => {
            let _ = writeln!(s, "{}\npub enum {} {{", derive, t.name);
            for (id, nm) in vs {
                if id != nm {
                    let _ = writeln!(s, "    #[rename = {:?}]", nm);
                }
                let _ = writeln!(s, "    {},", id);
            }
            let _ = writeln!(s, "}}");
        }
    }
    s
}

// ------------------------------------------------------------------------------------------ json! literals

#[derive(Clone, Debug)]
enum Lit {
    Null,
    /// (source expression, expected constructor expression, expected JSON text)
    Expr(String, String, String),
    Arr(Vec<Lit>, bool),
    /// keys: (source key token, key string)
    Obj(Vec<((String, String), Lit)>, bool),
}

fn gen_lit(rng: &mut Lcg, depth: usize) -> Lit {
    let r = rng.next() % 16;
    if depth >= 5 || r < 7 {
        // leaf
        return match rng.next() % 14 {
            0 | 1 => Lit::Null,
            2 => Lit::Expr("true".into(), "Value::Bool(true)".into(), "true".into()),
            3 => Lit::Expr("false".into(), "Value::Bool(false)".into(), "false".into()),
            4 => {
                let n = (rng.next() % 1000) as i64 - 500;
                Lit::Expr(n.to_string(), format!("Value::Number({}f64)", n), n.to_string())
            }
            5 => Lit::Expr("1.5".into(), "Value::Number(1.5)".into(), "1.5".into()),
            6 => {
                let s = STRINGS[(rng.next() % STRINGS.len() as u64) as usize];
                Lit::Expr(format!("{:?}", s), format!("Value::String(String::from({:?}))", s), json_escape(s))
            }
            7 => Lit::Expr("var_i".into(), "Value::Number(42f64)".into(), "42".into()),
            8 => Lit::Expr("var_s.clone()".into(), "Value::String(String::from(\"from a variable\"))".into(), "\"from a variable\"".into()),
            9 => Lit::Expr("&var_s".into(), "Value::String(String::from(\"from a variable\"))".into(), "\"from a variable\"".into()),
            10 => Lit::Expr("var_none".into(), "Value::Null".into(), "null".into()),
            11 => Lit::Expr("Some(7u8)".into(), "Value::Number(7f64)".into(), "7".into()),
            12 => Lit::Expr("vec![1, 2, 3]".into(), "Value::Array(vec![Value::Number(1f64), Value::Number(2f64), Value::Number(3f64)])".into(), "[1,2,3]".into()),
            _ => Lit::Expr("1 + 2 * 3".into(), "Value::Number(7f64)".into(), "7".into()),
        };
    }
    if r < 12 {
        let n = (rng.next() % 5) as usize;
        Lit::Arr((0..n).map(|_| gen_lit(rng, depth + 1)).collect(), rng.next() % 4 == 0)
    } else {
        let n = (rng.next() % 5) as usize;
        let mut members = Vec::new();
        for i in 0..n {
            let key = if rng.next() % 5 == 0 {
                ("var_key".to_string(), "key from a variable".to_string())
            } else {
                let k = if rng.next() % 3 == 0 { RENAMES[(rng.next() % RENAMES.len() as u64) as usize].to_string() } else { format!("k{}", i) };
                (format!("{:?}", k), k)
            };
            members.push((key, gen_lit(rng, depth + 1)));
        }
        Lit::Obj(members, rng.next() % 4 == 0)
    }
}

fn lit_src(l: &Lit) -> String {
    match l {
        Lit::Null => "null".into(),
        Lit::Expr(s, _, _) => s.clone(),
        Lit::Arr(items, trailing) => format!("[{}{}]", items.iter().map(lit_src).collect::<Vec<_>>().join(", "), if *trailing && !items.is_empty() { "," } else { "" }),
        Lit::Obj(ms, trailing) => format!("{{{}{}}}", ms.iter().map(|((k, _), v)| format!("{}: {}", k, lit_src(v))).collect::<Vec<_>>().join(", "), if *trailing && !ms.is_empty() { "," } else { "" }),
    }
}

fn lit_expected(l: &Lit) -> String {
    match l {
        Lit::Null => "Value::Null".into(),
        Lit::Expr(_, e, _) => e.clone(),
        Lit::Arr(items, _) => format!("Value::Array(vec![{}])", items.iter().map(lit_expected).collect::<Vec<_>>().join(", ")),
        Lit::Obj(ms, _) => format!("Value::Object(vec![{}])", ms.iter().map(|((_, k), v)| format!("(String::from({:?}), {})", k, lit_expected(v))).collect::<Vec<_>>().join(", ")),
    }
}

fn lit_text(l: &Lit) -> String {
    match l {
        Lit::Null => "null".into(),
        Lit::Expr(_, _, t) => t.clone(),
        Lit::Arr(items, _) => format!("[{}]", items.iter().map(lit_text).collect::<Vec<_>>().join(",")),
        Lit::Obj(ms, _) => format!("{{{}}}", ms.iter().map(|((_, k), v)| format!("{}:{}", json_escape(k), lit_text(v))).collect::<Vec<_>>().join(",")),
    }
}

fn lit_nontrivial(l: &Lit) -> bool {
    // a `null` or nested container before other elements
    match l {
        Lit::Arr(items, _) => items.len() >= 2 && (matches!(items[0], Lit::Null | Lit::Arr(..) | Lit::Obj(..)) || items.iter().any(lit_nontrivial)),
        Lit::Obj(ms, _) => ms.len() >= 2 && (matches!(ms[0].1, Lit::Null | Lit::Arr(..) | Lit::Obj(..)) || ms.iter().any(|(_, v)| lit_nontrivial(v))),
        _ => false,
    }
}

// ------------------------------------------------------------------------------------------ program assembly

#[derive(Clone, Debug)]
pub struct Case {
    id: usize,
    kind: &'static str,
    /// human description for reports
    desc: String,
    /// statements executed inside the case closure; must end by returning Result<(), String>
    body: String,
    nontrivial: bool,
    beyond53: bool,
    /// items (type indices) this case needs
    needs: Vec<usize>,
}

fn deps(t: &FT, out: &mut Vec<usize>, types: &[TypeDef]) {
    match t {
        FT::Opt(i) | FT::Vec(i) => deps(i, out, types),
        FT::Named(k) => {
            if !out.contains(k) {
                out.push(*k);
                match &types[*k].kind {
                    Kind::Struct(fs) => fs.iter().for_each(|(_, _, t)| deps(t, out, types)),
                    Kind::Tuple(ts) => ts.iter().for_each(|t| deps(t, out, types)),
                    _ => {}
                }
            }
        }
        _ => {}
    }
}

pub struct Batch {
    types: Vec<TypeDef>,
    cases: Vec<Case>,
}

pub fn gen_batch(seed: u64, ntypes: usize, values_per_type: usize, nlits: usize) -> Batch {
    let mut rng = Lcg(seed);
    let types = gen_types(&mut rng, ntypes);
    let mut cases = Vec::new();
    for k in 0..types.len() {
        let mut needs = Vec::new();
        deps(&FT::Named(k), &mut needs, &types);
        let has_rename = match &types[k].kind {
            Kind::Struct(fs) => fs.iter().any(|(a, b, _)| a != b),
            Kind::Enum(vs) => vs.iter().any(|(a, b)| a != b),
            _ => false,
        };
        let complex = match &types[k].kind {
            Kind::Struct(fs) => fs.iter().any(|(_, _, t)| matches!(t, FT::Opt(_) | FT::Vec(_) | FT::Named(_))),
            Kind::Tuple(ts) => ts.iter().any(|t| matches!(t, FT::Opt(_) | FT::Vec(_) | FT::Named(_))),
            _ => false,
        };
        // enums: one value per variant (then random ones up to the usual count); everything else: random values
        let nvariants = if let Kind::Enum(vs) = &types[k].kind { vs.len() } else { 0 };
        for vi in 0..values_per_type.max(nvariants) {
            let mut beyond = false;
            let v = if vi < nvariants { Val::Enum(k, vi) } else { gen_val(&mut rng, &FT::Named(k), &types, &mut beyond) };
            let expr = val_rust(&v, &types);
            let text = val_json(&v, &types);
            let tn = &types[k].name;
            let body = format!(
                "let v: {tn} = {expr};\n        let j = v.to_json();\n        let expected = Value::parse({text:?}).map_err(|e| format!(\"harness: expected text does not parse: {{}}\", e))?;\n        if j != expected {{ return Err(format!(\"shape: to_json gives {{}} but the documented shape is {{}}\", j.serialize(), expected.serialize())); }}\n        match <{tn} as FromJson>::from_json(&j) {{ Ok(b) if b == v => {{}}, Ok(b) => return Err(format!(\"roundtrip: from_json(to_json(v)) = {{:?}}, v = {{:?}}\", b, v)), Err(e) => return Err(format!(\"roundtrip: from_json(to_json(v)) failed with {{:?}} for {{:?}}\", e, v)) }}\n        match humphrey_json::from_str::<{tn}, _>(&humphrey_json::to_string(&v)) {{ Ok(b) if b == v => {{}}, Ok(b) => return Err(format!(\"string-roundtrip: {{:?}} != {{:?}}\", b, v)), Err(e) => return Err(format!(\"string-roundtrip: from_str(to_string(v)) failed with {{:?}} for {{:?}} (text {{}})\", e, v, humphrey_json::to_string(&v))) }}\n        Ok(())",
                tn = tn,
                expr = expr,
                text = text
            );
            cases.push(Case {
                id: cases.len(),
                kind: if types[k].via_map { "json_map" } else { "derive" },
                desc: format!("{} value {} (documented JSON {})", type_decl(&types[k], &types).replace('\n', " "), expr, text),
                body,
                nontrivial: has_rename || complex,
                beyond53: beyond,
                needs: needs.clone(),
            });
        }
    }
    for _ in 0..nlits {
        let l = gen_lit(&mut rng, 0);
        let src = lit_src(&l);
        let body = format!(
            "let var_i = 42i32; let var_s = String::from(\"from a variable\"); let var_none: Option<i32> = None; let var_key = String::from(\"key from a variable\");\n        let _ = (&var_i, &var_s, &var_none, &var_key);\n        let got: Value = json!({src});\n        let expected: Value = {exp};\n        if got != expected {{ return Err(format!(\"json! literal evaluates to {{}} but denotes {{}}\", got.serialize(), expected.serialize())); }}\n        let parsed = Value::parse({text:?}).map_err(|e| format!(\"harness: text does not parse: {{}}\", e))?;\n        if got != parsed {{ return Err(format!(\"json! literal evaluates to {{}} but the equivalent JSON text parses to {{}}\", got.serialize(), parsed.serialize())); }}\n        Ok(())",
            src = src,
            exp = lit_expected(&l),
            text = lit_text(&l)
        );
        cases.push(Case { id: cases.len(), kind: "json!", desc: format!("json!({})", src), body, nontrivial: lit_nontrivial(&l), beyond53: false, needs: vec![] });
    }
    Batch { types, cases }
}

fn program(b: &Batch, case_ids: &[usize]) -> String {
    let mut need_types: Vec<usize> = Vec::new();
    for id in case_ids {
        for t in &b.cases[*id].needs {
            if !need_types.contains(t) {
                need_types.push(*t);
            }
        }
    }
    need_types.sort();
    let mut s = String::from("#![allow(unused, non_snake_case, non_camel_case_types, uncommon_codepoints, mixed_script_confusables, clippy::all)]\nuse humphrey_json::prelude::*;\nuse humphrey_json::Value;\n\n");
    for t in &need_types {
        s.push_str(&type_decl(&b.types[*t], &b.types));
        s.push('\n');
    }
    for id in case_ids {
        let _ = writeln!(s, "fn case_{}() -> Result<(), String> {{\n        {}\n}}\n", id, b.cases[*id].body);
    }
    s.push_str("fn main() {\n    std::panic::set_hook(Box::new(|_| {}));\n");
    for id in case_ids {
        let _ = writeln!(
            s,
            "    match std::panic::catch_unwind(case_{id}) {{ Ok(Ok(())) => println!(\"CASE {id} OK\"), Ok(Err(e)) => println!(\"CASE {id} FAIL {{}}\", e.replace('\\n', \" \")), Err(_) => println!(\"CASE {id} FAIL panic\") }}",
            id = id
        );
    }
    s.push_str("}\n");
    s
}

fn scratch_dir() -> PathBuf {
    std::env::temp_dir().join(format!("hv-c14-{}", std::process::id()))
}

/// Compiles and runs the program for `case_ids`. Ok(lines) or Err(compiler output)
fn compile_and_run(b: &Batch, case_ids: &[usize], tag: &str) -> Result<Vec<String>, String> {
    let dir = scratch_dir().join(tag);
    let _ = std::fs::remove_dir_all(&dir);
    std::fs::create_dir_all(dir.join("src")).map_err(|e| e.to_string())?;
    std::fs::write(
        dir.join("Cargo.toml"),
        "[package]\nname = \"c14gen\"\nversion = \"0.0.0\"\nedition = \"2021\"\n\n[dependencies]\nhumphrey_json = { path = \"/repo/humphrey-json\" }\n\n[workspace]\n",
    )
    .map_err(|e| e.to_string())?;
    let _ = std::fs::copy("/repo/Cargo.lock", dir.join("Cargo.lock"));
    std::fs::write(dir.join("src/main.rs"), program(b, case_ids)).map_err(|e| e.to_string())?;
    let out = std::process::Command::new("cargo")
        .args(["run", "--offline", "--quiet", "--target-dir", "/verif/target/c14"])
        .current_dir(&dir)
        .env("CARGO_NET_OFFLINE", "true")
        .env_remove("RUSTFLAGS")
        .output()
        .map_err(|e| e.to_string())?;
    let stdout = String::from_utf8_lossy(&out.stdout).to_string();
    let lines: Vec<String> = stdout.lines().filter(|l| l.starts_with("CASE ")).map(|l| l.to_string()).collect();
    let _ = std::fs::remove_dir_all(&dir);
    if lines.len() == case_ids.len() {
        Ok(lines)
    } else {
        let err = String::from_utf8_lossy(&out.stderr).to_string();
        Err(err)
    }
}

/// delta debugging over cases when a batch does not compile
fn find_uncompilable(b: &Batch, ids: &[usize], budget: &mut usize) -> Vec<(usize, String)> {
    if ids.is_empty() || *budget == 0 {
        return vec![];
    }
    *budget -= 1;
    match compile_and_run(b, ids, "bisect") {
        Ok(_) => vec![],
        Err(e) => {
            if ids.len() == 1 {
                return vec![(ids[0], e)];
            }
            let (l, r) = ids.split_at(ids.len() / 2);
            let mut out = find_uncompilable(b, l, budget);
            if out.is_empty() {
                out.extend(find_uncompilable(b, r, budget));
            }
            out
        }
    }
}

fn run_batch(ctx: &Ctx, seed: u64, ntypes: usize, vals: usize, nlits: usize) {
    let b = gen_batch(seed, ntypes, vals, nlits);
    let ids: Vec<usize> = (0..b.cases.len()).collect();
    let results = match compile_and_run(&b, &ids, "batch") {
        Ok(lines) => lines,
        Err(e) => {
            // which case does not compile?
            let mut budget = 14;
            let bad = find_uncompilable(&b, &ids, &mut budget);
            match bad.first() {
                Some((id, err)) => {
                    let c = &b.cases[*id];
                    let first_err: String = err.lines().filter(|l| l.starts_with("error")).take(3).collect::<Vec<_>>().join(" | ");
                    let f = fail!(format!("compile-error:{}", c.kind), "a generated program that follows the documentation does not compile: {} — {}", c.desc, first_err);
                    if !ctx.tolerate(&f) {
                        ctx.violation(f, "case", json!({"seed": seed.to_string(), "case": id, "ntypes": ntypes, "vals": vals, "nlits": nlits}));
                    }
                }
                None => ctx.inconclusive(&format!("generated batch does not build and no single case explains it: {}", e.lines().filter(|l| l.starts_with("error")).take(3).collect::<Vec<_>>().join(" | "))),
            }
            return;
        }
    };
    let mut first: std::collections::BTreeMap<String, (Fail, J)> = Default::default();
    for line in results {
        let mut it = line.splitn(4, ' ');
        let _ = it.next();
        let id: usize = it.next().and_then(|x| x.parse().ok()).unwrap_or(0);
        let ok = it.next() == Some("OK");
        let detail = it.next().unwrap_or("").to_string();
        let c = &b.cases[id];
        let mut labels = vec![c.kind];
        if c.beyond53 {
            labels.push("int-not-representable-in-f64");
        }
        ctx.case(hash_of(&c.desc), c.nontrivial, &labels);
        ctx.sample(c.kind, || json!({"case": c.desc.chars().take(400).collect::<String>()}));
        if !ok {
            let stage = detail.split(':').next().unwrap_or("").to_string();
            let sig = if c.kind == "json!" {
                "json-macro-wrong-value".to_string()
            } else if c.beyond53 && stage.ends_with("roundtrip") {
                "int-beyond-2^53".to_string()
            } else if detail.starts_with("harness") {
                "harness".to_string()
            } else {
                format!("{}:{}", c.kind, stage)
            };
            let f = Fail::new(sig.clone(), format!("{} — {}", c.desc.chars().take(600).collect::<String>(), detail.chars().take(600).collect::<String>()));
            if sig == "harness" {
                ctx.inconclusive(&f.detail);
            } else if !ctx.tolerate(&f) {
                first.entry(sig).or_insert((f, json!({"seed": seed.to_string(), "case": id, "ntypes": ntypes, "vals": vals, "nlits": nlits})));
            }
        }
    }
    for (_, (f, c)) in first {
        ctx.violation(f, "case", c);
    }
}

pub fn run(ctx: &Ctx) {
    ctx.rule("generated Rust programs: per batch ~40 type declarations (named structs with 1..8 fields, tuple structs with 1..6 fields, unit-variant enums with 1..8 variants; via #[derive(FromJson, IntoJson)] and via json_map!; field types bool / u8..u64 / i8..i64 / usize / f64 / String / Option<T> / Vec<T> / earlier generated types; #[rename] strings with spaces, quotes, backslashes, non-ASCII, empty and JSON-special characters) with several random values each, and ~300 json! literals from the JSON grammar (null / arrays / objects / Rust expressions and variables in every position, variable keys, trailing commas, depth <= 6). Each case checks to_json == the documented shape (harness-side reference serialiser, member order included), from_json(to_json(v)) == v, from_str(to_string(v)) == v; each literal equals its constructor-built value and Value::parse of the equivalent text. Non-trivial: type with a rename, an Option/Vec field or a nested type; literal with a null or nested container before other elements; distinct by case text");
    ctx.assume("programs are compiled with cargo against /repo/humphrey-json in a scratch directory (removed afterwards); no Option<Option<T>>, no attributes other than rename, distinct JSON keys per type; 64-bit integers that f64 cannot represent are tagged and their failures reported under the known finding int-beyond-2^53");
    ctx.exclude("Option<Option<T>> fields (JSON cannot distinguish Some(None) from None)", 0);
    let batches = ctx.tier.pick(1u64, 30u64);
    for k in 0..batches {
        run_batch(ctx, pt::mix(ctx.seed, 1400 + k), ctx.tier.pick(40, 60), ctx.tier.pick(5, 6), ctx.tier.pick(300, 400));
    }
    let _ = std::fs::remove_dir_all(scratch_dir());
}

pub fn replay(_ctx: &Ctx, _kind: &str, case: &J) -> Vec<Fail> {
    let seed: u64 = case["seed"].as_str().and_then(|s| s.parse().ok()).unwrap_or(0);
    let id = case["case"].as_u64().unwrap_or(0) as usize;
    let b = gen_batch(seed, case["ntypes"].as_u64().unwrap_or(40) as usize, case["vals"].as_u64().unwrap_or(5) as usize, case["nlits"].as_u64().unwrap_or(300) as usize);
    if id >= b.cases.len() {
        return vec![Fail::new("harness", "case index out of range")];
    }
    let r = match compile_and_run(&b, &[id], "replay") {
        Ok(lines) => {
            let l = &lines[0];
            if l.ends_with(" OK") {
                vec![]
            } else {
                let c = &b.cases[id];
                let sig = if c.kind == "json!" { "json-macro-wrong-value".to_string() } else if c.beyond53 { "int-beyond-2^53".to_string() } else { format!("{}:{}", c.kind, l.splitn(4, ' ').nth(3).unwrap_or("").split(':').next().unwrap_or("")) };
                vec![Fail::new(sig, format!("{} — {}", c.desc, l))]
            }
        }
        Err(e) => vec![Fail::new(format!("compile-error:{}", b.cases[id].kind), e.lines().filter(|l| l.starts_with("error")).take(3).collect::<Vec<_>>().join(" | "))],
    };
    let _ = std::fs::remove_dir_all(scratch_dir());
    r
}
