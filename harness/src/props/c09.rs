//! C09 — proxy always answers: upstream's response if valid, else 502, within the timeout.
//! Fault enumeration: every valid upstream response is also cut at every byte offset; plus refused,
//! silent, closing, trickling and garbage upstreams. Load balancer sequences checked against the rule.

use crate::common::http::*;
use crate::common::net::read_request;
use crate::engine::{catch, hash_of, pt, show, Ctx, Fail, Lcg};
use crate::props::c07::{arb_resp, status_has_body, FramingSpec, RespSpec};
use humphrey::http::proxy::proxy_request;
use humphrey::http::{Request, Response};
use proptest::prelude::*;
use proptest::strategy::ValueTree;
use serde::{Deserialize, Serialize};
use serde_json::{json, Value as J};
use std::io::Write;
use std::net::{SocketAddr, TcpListener};
use std::sync::atomic::{AtomicBool, Ordering};
use std::sync::Arc;
use std::time::{Duration, Instant};

#[derive(Clone, Debug, Serialize, Deserialize, PartialEq)]
pub enum Delivery {
    Whole,
    Segments(Vec<usize>),
    /// one byte every n milliseconds
    Trickle(u64),
    /// one byte per write, 150 us apart
    ByteWise,
}

#[derive(Clone, Debug, Serialize, Deserialize, PartialEq)]
pub enum Upstream {
    /// send these bytes (a complete response or anything else) with this delivery, then close
    Send { wire: Vec<u8>, delivery: Delivery },
    Refused,
    /// accept, read the request, then stay silent (connection kept open)
    Silence,
    /// accept and close at once
    AcceptClose,
    /// send part of the bytes, then stay silent with the connection open
    StallAfter { wire: Vec<u8>, at: usize },
    /// accept the connection and never read from it (a request larger than the socket buffers cannot be written)
    NeverReads,
}

#[derive(Clone, Debug, Serialize, Deserialize)]
pub struct Case {
    pub req: ReqSpec,
    pub upstream: Upstream,
    pub timeout_ms: u64,
    /// what the upstream's bytes are, if generated from a spec (for the faithful comparison)
    pub spec: Option<RespSpec>,
    /// close-delimited rendering of `spec` (no Content-Length / Transfer-Encoding, body until close)
    pub close_delimited: bool,
    /// use humphrey_server::proxy::proxy_handler with this route pattern instead of proxy_request
    pub via_handler: Option<String>,
}

pub fn render_close_delimited(s: &RespSpec) -> Vec<u8> {
    let mut out = Vec::new();
    out.extend_from_slice(format!("{} {} {}\r\n", s.version, s.status, s.reason).as_bytes());
    for h in &s.headers {
        out.extend_from_slice(format!("{}:{}{}\r\n", h.name, h.ows, h.value).as_bytes());
    }
    out.extend_from_slice(b"\r\n");
    out.extend_from_slice(&s.body);
    out
}

fn lists(h: &[(String, String)]) -> Vec<(String, Vec<String>)> {
    let mut out: Vec<(String, Vec<String>)> = Vec::new();
    for (n, v) in h {
        if let Some(e) = out.iter_mut().find(|(k, _)| k == n) {
            e.1.push(v.clone());
        } else {
            out.push((n.clone(), vec![v.clone()]));
        }
    }
    out.sort();
    out
}

fn response_lists(r: &Response) -> Vec<(String, Vec<String>)> {
    let mut names: Vec<String> = r.headers.iter().map(|h| h.name.to_string().to_ascii_lowercase()).collect();
    names.sort();
    names.dedup();
    let mut v = Vec::new();
    for n in names {
        for val in r.headers.get_all(n.as_str()) {
            v.push((n.clone(), val.to_string()));
        }
    }
    lists(&v)
}

pub struct Outcome {
    pub fails: Vec<Fail>,
    pub elapsed: Duration,
    pub class: &'static str,
}

pub fn run_case(c: &Case, ip: &str) -> Outcome {
    let mut fails = Vec::new();
    // the client's request as Humphrey's own parser sees it
    let wire_req = c.req.render();
    let request: Request = {
        let mut rd = PlanReader::new(wire_req.clone(), vec![usize::MAX]);
        match Request::from_stream(&mut rd, c.req.peer_addr()) {
            Ok(r) => r,
            Err(e) => return Outcome { fails: vec![Fail::new("harness-request", format!("{:?}", e))], elapsed: Duration::ZERO, class: "harness" },
        }
    };
    let listener = match TcpListener::bind((ip, 0)) {
        Ok(l) => l,
        Err(e) => return Outcome { fails: vec![Fail::new("harness-bind", e.to_string())], elapsed: Duration::ZERO, class: "harness" },
    };
    let target: SocketAddr = listener.local_addr().unwrap();
    let release = Arc::new(AtomicBool::new(false));
    let t_case = Instant::now();
    let last_progress_ms = Arc::new(std::sync::atomic::AtomicU64::new(0));
    let received: Arc<std::sync::Mutex<Option<Result<RefRequest, String>>>> = Arc::new(std::sync::Mutex::new(None));
    let sending_time = Arc::new(std::sync::Mutex::new(Duration::ZERO));
    let up = c.upstream.clone();
    let upstream_thread = if matches!(up, Upstream::Refused) {
        drop(listener);
        None
    } else {
        let release = release.clone();
        let received = received.clone();
        let sending_time = sending_time.clone();
        let last_progress_ms = last_progress_ms.clone();
        Some(std::thread::spawn(move || {
            let _ = listener.set_nonblocking(true);
            let start = Instant::now();
            let mut sock = loop {
                match listener.accept() {
                    Ok((s, _)) => break s,
                    Err(_) => {
                        if release.load(Ordering::SeqCst) || start.elapsed() > Duration::from_secs(30) {
                            return;
                        }
                        std::thread::sleep(Duration::from_micros(200));
                    }
                }
            };
            let _ = sock.set_nonblocking(false);
            if matches!(up, Upstream::AcceptClose) {
                return;
            }
            if matches!(up, Upstream::NeverReads) {
                // never read; but watch how much the kernel has queued for us: as long as that grows, the proxy's writes make
                // progress and it cannot know yet that it is talking to a stalled peer
                use std::os::unix::io::AsRawFd;
                let fd = sock.as_raw_fd();
                let t = Instant::now();
                let mut last = -1i32;
                while !release.load(Ordering::SeqCst) && t.elapsed() < Duration::from_secs(60) {
                    let mut n: libc::c_int = 0;
                    if unsafe { libc::ioctl(fd, libc::FIONREAD, &mut n) } == 0 && n != last {
                        last = n;
                        last_progress_ms.store(t_case.elapsed().as_millis() as u64, Ordering::SeqCst);
                    }
                    std::thread::sleep(Duration::from_millis(5));
                }
                return;
            }
            let r = read_request(&mut sock, Duration::from_secs(10));
            *received.lock().unwrap() = Some(r);
            let _ = sock.set_nodelay(true);
            let hold = |sock: std::net::TcpStream| {
                // keep the connection open and silent until released
                let t = Instant::now();
                while !release.load(Ordering::SeqCst) && t.elapsed() < Duration::from_secs(60) {
                    std::thread::sleep(Duration::from_millis(5));
                }
                drop(sock);
            };
            match up {
                Upstream::Send { wire, delivery } => {
                    let t0 = Instant::now();
                    match delivery {
                        Delivery::Whole => {
                            let _ = sock.write_all(&wire);
                        }
                        Delivery::Segments(sizes) => {
                            let mut p = 0;
                            let mut k = 0;
                            while p < wire.len() {
                                let n = sizes.get(k).copied().unwrap_or(wire.len()).max(1).min(wire.len() - p);
                                if sock.write_all(&wire[p..p + n]).is_err() {
                                    break;
                                }
                                p += n;
                                k += 1;
                                std::thread::sleep(Duration::from_millis(2));
                            }
                        }
                        Delivery::ByteWise => {
                            for b in &wire {
                                if sock.write_all(&[*b]).is_err() || release.load(Ordering::SeqCst) {
                                    break;
                                }
                                std::thread::sleep(Duration::from_micros(150));
                            }
                        }
                        Delivery::Trickle(ms) => {
                            for b in &wire {
                                if sock.write_all(&[*b]).is_err() || release.load(Ordering::SeqCst) {
                                    break;
                                }
                                std::thread::sleep(Duration::from_millis(ms));
                            }
                        }
                    }
                    *sending_time.lock().unwrap() = t0.elapsed();
                    crate::common::net::write_all_close(sock, b"");
                }
                Upstream::Silence => hold(sock),
                Upstream::StallAfter { wire, at } => {
                    let _ = sock.write_all(&wire[..at.min(wire.len())]);
                    hold(sock)
                }
                _ => {}
            }
        }))
    };
    // call the proxy under a watchdog
    let timeout = Duration::from_millis(c.timeout_ms);
    let (tx, rx) = std::sync::mpsc::channel();
    let req2 = request.clone();
    let via = c.via_handler.clone();
    let t0 = Instant::now();
    std::thread::spawn(move || {
        let r = catch(|| match &via {
            None => proxy_request(&req2, target, timeout),
            Some(pattern) => {
                use humphrey_server::config::LoadBalancerMode;
                use humphrey_server::proxy::{proxy_handler, EqMutex, LoadBalancer};
                let lb = EqMutex::new(LoadBalancer { targets: vec![target.to_string()], mode: LoadBalancerMode::RoundRobin, index: 0, lcg: humphrey_server::rand::Lcg::new() });
                let state = Arc::new(humphrey_server::server::server::AppState::from(crate::props::c16::quiet_config(0, 0)));
                proxy_handler(req2.clone(), state, &lb, pattern)
            }
        });
        let _ = tx.send(r);
    });
    let effective_timeout = if c.via_handler.is_some() { Duration::from_secs(5) } else { timeout };
    let trickle_allowance = match &c.upstream {
        Upstream::Send { wire, delivery: Delivery::Trickle(ms) } => Duration::from_millis(ms * wire.len() as u64 + 500),
        Upstream::Send { wire, delivery: Delivery::Segments(_) } => Duration::from_millis(3 * wire.len().min(400) as u64 + 200),
        Upstream::Send { wire, delivery: Delivery::ByteWise } => Duration::from_millis(wire.len() as u64 + 500),
        _ => Duration::ZERO,
    };
    let deadline = effective_timeout + trickle_allowance + Duration::from_secs(2);
    let result = if matches!(c.upstream, Upstream::NeverReads) {
        // the clock starts when the upstream's receive queue stops growing (until then the kernel keeps taking the proxy's
        // bytes); one more timeout is allowed for what the sending side still buffers after that
        loop {
            match rx.recv_timeout(Duration::from_millis(50)) {
                Ok(r) => break Ok(r),
                Err(std::sync::mpsc::RecvTimeoutError::Disconnected) => break Err(()),
                Err(std::sync::mpsc::RecvTimeoutError::Timeout) => {
                    let since = t_case.elapsed().as_millis() as u64 - last_progress_ms.load(Ordering::SeqCst).min(t_case.elapsed().as_millis() as u64);
                    if since > (2 * effective_timeout + Duration::from_secs(2)).as_millis() as u64 {
                        break Err(());
                    }
                }
            }
        }
    } else {
        rx.recv_timeout(deadline).map_err(|_| ())
    };
    let elapsed = t0.elapsed();
    let hung = result.is_err();
    release.store(true, Ordering::SeqCst);
    let result = match result {
        Ok(r) => Some(r),
        Err(_) => rx.recv_timeout(Duration::from_secs(20)).ok(),
    };
    if let Some(t) = upstream_thread {
        let _ = t.join();
    }
    let what = match &c.upstream {
        Upstream::Send { .. } => "send",
        Upstream::Refused => "refused",
        Upstream::Silence => "accept-then-silence",
        Upstream::AcceptClose => "accept-then-close",
        Upstream::StallAfter { .. } => "stall-mid-response",
        Upstream::NeverReads => "accept-but-never-read",
    };
    if hung {
        fails.push(fail!(
            format!("hang:{}", what),
            "proxying did not return within {:?} (timeout {:?}; for a never-reading upstream the clock starts when its receive queue stops growing) against an upstream that {}; it returned only after the upstream was torn down, if at all",
            deadline,
            effective_timeout,
            match &c.upstream {
                Upstream::Silence => "accepts the connection, reads the request and then stays silent".to_string(),
                Upstream::StallAfter { at, .. } => format!("sends {} bytes of its response and then stalls", at),
                Upstream::NeverReads => format!("accepts the connection but never reads the {}-byte request", c.req.render().len()),
                _ => what.to_string(),
            }
        ));
    }
    let resp = match result {
        None => {
            fails.push(fail!(format!("hang:{}", what), "proxy call never returned"));
            return Outcome { fails, elapsed, class: what };
        }
        Some(Err(p)) => {
            fails.push(fail!(format!("panic:{}", what), "proxying panicked: {}", p));
            return Outcome { fails, elapsed, class: what };
        }
        Some(Ok(r)) => r,
    };
    let status = u16::from(resp.status_code);
    // ---- what must the answer be?
    let mut class = what;
    match &c.upstream {
        Upstream::Refused | Upstream::Silence | Upstream::AcceptClose | Upstream::StallAfter { .. } | Upstream::NeverReads => {
            if status != 502 {
                fails.push(fail!(format!("not-502:{}", what), "upstream {} but the proxy answered {} instead of 502", what, status));
            }
        }
        Upstream::Send { wire, .. } => {
            let parsed = parse_response(wire, true);
            match parsed {
                RespParse::Complete(r) => {
                    let modelled = crate::props::c07::modelled_codes().contains(&r.status);
                    let ambiguous_close_cut = r.framing == Framing::CloseDelimited && c.spec.as_ref().map_or(true, |s| wire.len() < if c.close_delimited { render_close_delimited(s).len() } else { s.render().len() });
                    class = if r.framing == Framing::CloseDelimited { "valid:close-delimited" } else if r.framing == Framing::Chunked { "valid:chunked" } else { "valid:content-length" };
                    if !modelled {
                        class = "unmodelled-status";
                        // 502 or faithful; nothing else to check than "no panic / hang"
                    } else if status == 502 && ambiguous_close_cut {
                        class = "cut:close-delimited-ambiguous";
                    } else {
                        let mut want_headers: Vec<(String, String)> = r.headers.iter().filter(|(n, _)| !(r.framing == Framing::Chunked && n == "transfer-encoding")).cloned().collect();
                        if r.framing == Framing::Chunked {
                            want_headers.push(("content-length".into(), r.body.len().to_string()));
                        }
                        let body_expected = status_has_body(r.status) || r.framing != Framing::CloseDelimited;
                        if status != r.status {
                            fails.push(fail!(format!("status:{}", class), "upstream sent a complete valid {} response ({:?}) but the proxy answered {}: {}", r.status, r.framing, status, show(&wire[..wire.len().min(160)])));
                        } else {
                            if resp.version != r.version {
                                fails.push(fail!("version", "proxy returned version {:?}, upstream sent {:?}", resp.version, r.version));
                            }
                            if body_expected && resp.body != r.body {
                                fails.push(fail!(
                                    format!("body:{}", class),
                                    "upstream sent a valid {:?} response with a {}-byte body but the proxy returned {} bytes: {}",
                                    r.framing,
                                    r.body.len(),
                                    resp.body.len(),
                                    show(&wire[..wire.len().min(160)])
                                ));
                            }
                            if response_lists(&resp) != lists(&want_headers) {
                                fails.push(fail!(format!("headers:{}", class), "proxy returned headers {:?}, upstream sent {:?}", response_lists(&resp), lists(&want_headers)));
                            }
                        }
                    }
                }
                RespParse::Incomplete(why) => {
                    class = "cut:incomplete";
                    // after the terminal `0\r\n` of a chunked body only the final CRLF is missing: either reading is accepted
                    let ambiguous = why == "final CRLF";
                    if status != 502 && !ambiguous {
                        fails.push(fail!(
                            format!("truncated-accepted:{}", why.replace(' ', "-")),
                            "upstream closed after {} bytes, in the middle of its response ({}), but the proxy answered {} with a {}-byte body instead of 502: {}",
                            wire.len(),
                            why,
                            status,
                            resp.body.len(),
                            show(&wire[..wire.len().min(160)])
                        ));
                    }
                }
                RespParse::Invalid(why) => {
                    class = "invalid";
                    if status != 502 {
                        fails.push(fail!("garbage-accepted", "upstream sent something that is not HTTP ({}) but the proxy answered {}: {}", why, status, show(&wire[..wire.len().min(160)])));
                    }
                }
            }
        }
    }
    // ---- what did the upstream receive?
    if !matches!(c.upstream, Upstream::Refused | Upstream::AcceptClose | Upstream::NeverReads) {
        match received.lock().unwrap().take() {
            None => fails.push(fail!("upstream-got-nothing", "the upstream accepted a connection but received no request")),
            Some(Err(e)) => fails.push(fail!("upstream-request-invalid", "the request relayed upstream is not valid HTTP: {}", e)),
            Some(Ok(rr)) => {
                let want_target = match &c.via_handler {
                    None => c.req.target(),
                    Some(pattern) => {
                        let prefix_len = pattern.chars().take_while(|ch| *ch != '*').count();
                        let stripped: String = c.req.path.chars().skip(prefix_len).collect();
                        let stripped = if stripped.starts_with('/') { stripped } else { format!("/{}", stripped) };
                        match &c.req.query {
                            Some(q) => format!("{}?{}", stripped, q),
                            None => stripped,
                        }
                    }
                };
                if rr.method != c.req.method || rr.target != want_target || rr.version != c.req.version {
                    fails.push(fail!("relayed-request-line", "upstream received `{} {} {}`, the client sent `{} {} {}`{}", rr.method, rr.target, rr.version, c.req.method, want_target, c.req.version, if c.via_handler.is_some() { " (after prefix stripping)" } else { "" }));
                }
                let mut want: Vec<(String, String)> = c.req.headers.iter().map(|h| (h.name.to_ascii_lowercase(), h.value.clone())).collect();
                let origin = request.address.origin_addr.to_string();
                want.push(("x-forwarded-for".into(), origin.clone()));
                if lists(&rr.headers) != lists(&want) {
                    let xff: Vec<&String> = rr.headers.iter().filter(|(n, _)| n == "x-forwarded-for").map(|(_, v)| v).collect();
                    fails.push(fail!(
                        if xff.last().map(|s| s.as_str()) != Some(origin.as_str()) { "relayed-xff" } else { "relayed-headers" },
                        "upstream received headers {:?}; expected the client's headers plus X-Forwarded-For: {} -> {:?}",
                        lists(&rr.headers),
                        origin,
                        lists(&want)
                    ));
                }
                if rr.body != c.req.body.clone().unwrap_or_default() {
                    fails.push(fail!("relayed-body", "upstream received a {}-byte body, the client sent {}", rr.body.len(), c.req.body.as_ref().map_or(0, |b| b.len())));
                }
                if !(rr.leftover.is_empty() || rr.leftover == b"\r\n") {
                    fails.push(fail!("relayed-trailing-bytes", "stray bytes after the relayed request: {}", show(&rr.leftover)));
                }
            }
        }
    }
    Outcome { fails, elapsed, class }
}

// ------------------------------------------------------------------------------------------ load balancer

fn load_balancer(ctx: &Ctx) {
    use humphrey_server::config::LoadBalancerMode;
    use humphrey_server::proxy::{EqMutex, LoadBalancer};
    let runs = ctx.tier.pick(2000u64, 50_000u64);
    let mut rng = Lcg(pt::mix(ctx.seed, 950));
    for run in 0..runs {
        let n = 1 + (rng.next() % 4) as usize;
        let targets: Vec<String> = (0..n).map(|i| format!("10.0.0.{}:80", i)).collect();
        let random = rng.next() % 3 == 0;
        let threads = 1 + (rng.next() % 8) as usize;
        let k = n * (1 + (rng.next() % 5) as usize); // calls per thread, multiple of n
        let lb = Arc::new(EqMutex::new(LoadBalancer { targets: targets.clone(), mode: if random { LoadBalancerMode::Random } else { LoadBalancerMode::RoundRobin }, index: 0, lcg: humphrey_server::rand::Lcg::new() }));
        let mut handles = Vec::new();
        for _ in 0..threads {
            let lb = lb.clone();
            handles.push(std::thread::spawn(move || (0..k).map(|_| lb.lock().unwrap().select_target()).collect::<Vec<String>>()));
        }
        let mut all: Vec<Vec<String>> = Vec::new();
        let mut panicked = false;
        for h in handles {
            match h.join() {
                Ok(v) => all.push(v),
                Err(_) => panicked = true,
            }
        }
        let mut f = None;
        if panicked {
            f = Some(fail!("lb-panic", "select_target panicked ({} targets, {} threads)", n, threads));
        } else if all.iter().flatten().any(|t| !targets.contains(t)) {
            f = Some(fail!("lb-foreign-target", "select_target returned a target outside the configured set"));
        } else if !random {
            if threads == 1 {
                let want: Vec<String> = (0..k).map(|i| targets[i % n].clone()).collect();
                if all[0] != want {
                    f = Some(fail!("lb-rotation", "round-robin over {:?} produced {:?}", targets, all[0]));
                }
            }
            let total = threads * k;
            for t in &targets {
                let cnt = all.iter().flatten().filter(|x| *x == t).count();
                if cnt != total / n {
                    f = Some(fail!("lb-unfair", "round-robin with {} threads x {} calls over {} targets chose {} {} times (want {})", threads, k, n, t, cnt, total / n));
                }
            }
        }
        ctx.case(hash_of(&(run, n, random, threads, k)), threads > 1 || n > 1, &["load-balancer", if random { "lb:random" } else { "lb:round-robin" }]);
        if let Some(f) = f {
            if !ctx.tolerate(&f) {
                ctx.violation(f, "lb", json!({"targets": n, "threads": threads, "calls": k, "random": random}));
                break;
            }
        }
    }
    ctx.sample("load-balancer", || json!({"targets": 3, "threads": 4, "calls_per_thread": 6, "mode": "round-robin", "expect": "each target exactly 8 times"}));
}

// ------------------------------------------------------------------------------------------ drivers

fn small_req() -> impl Strategy<Value = ReqSpec> {
    arb_req().prop_map(|mut r| {
        if let Some(b) = &mut r.body {
            if b.len() > 3000 {
                b.truncate(3000);
                for h in r.headers.iter_mut() {
                    if h.name.eq_ignore_ascii_case("content-length") {
                        h.value = "3000".into();
                    }
                }
            }
        }
        r
    })
}

fn small_resp() -> impl Strategy<Value = RespSpec> {
    arb_resp().prop_map(|mut s| {
        if s.body.len() > 600 {
            s.body.truncate(600);
            if let FramingSpec::Chunked(sizes, a, b) = &s.framing {
                let mut left = 600usize;
                let mut out = Vec::new();
                for z in sizes {
                    if left == 0 {
                        break;
                    }
                    let n = (*z).min(left);
                    out.push(n);
                    left -= n;
                }
                if left > 0 {
                    out.push(left);
                }
                s.framing = FramingSpec::Chunked(out, *a, *b);
            }
        }
        s.headers.truncate(6);
        s
    })
}

fn report(ctx: &Ctx, c: &Case, o: Outcome, kind: &str) -> bool {
    if let Some(h) = o.fails.iter().find(|f| f.sig.starts_with("harness-")) {
        ctx.inconclusive(&h.detail);
        return true;
    }
    let nt = !o.class.starts_with("valid:content-length");
    ctx.case(hash_of(&(c.req.render(), format!("{:?}", c.upstream).chars().take(4000).collect::<String>(), c.timeout_ms, &c.via_handler)), nt, &[&format!("upstream:{}", o.class), if c.via_handler.is_some() { "via:proxy_handler" } else { "via:proxy_request" }]);
    ctx.sample(&format!("upstream:{}", o.class), || {
        json!({"upstream": match &c.upstream { Upstream::Send { wire, delivery } => json!({"sends": show(&wire[..wire.len().min(200)]), "total": wire.len(), "delivery": delivery}), other => json!(format!("{:?}", other)) }, "timeout_ms": c.timeout_ms, "request": show(&c.req.render()[..c.req.render().len().min(120)])})
    });
    match ctx.triage(o.fails) {
        Some(f) => {
            ctx.violation(f, kind, serde_json::to_value(c).unwrap());
            false
        }
        None => true,
    }
}

fn enumerate_cuts(ctx: &Ctx) {
    // each generated valid response cut at every byte offset (fault enumeration), sharded over loopback aliases
    let n_resp = ctx.tier.pick(40usize, 1000usize);
    let mut runner = proptest::test_runner::TestRunner::new(proptest::test_runner::Config { rng_seed: proptest::test_runner::RngSeed::Fixed(pt::mix(ctx.seed, 900)), failure_persistence: None, ..Default::default() });
    let mut specs: Vec<(ReqSpec, RespSpec, bool)> = Vec::new();
    for k in 0..n_resp {
        let req = small_req().new_tree(&mut runner).unwrap().current();
        let mut spec = small_resp().new_tree(&mut runner).unwrap().current();
        spec.body.truncate(120);
        if let FramingSpec::Chunked(..) = spec.framing {
            let n = spec.body.len();
            spec.framing = FramingSpec::Chunked(if n == 0 { vec![] } else if n < 4 { vec![n] } else { vec![n / 3, n - n / 3] }, k % 2 == 0, false);
        }
        spec.headers.truncate(3);
        let close_delimited = k % 5 == 4 && status_has_body(spec.status);
        specs.push((req, spec, close_delimited));
    }
    let work: Vec<(usize, usize)> = specs.iter().enumerate().flat_map(|(i, (_, s, cd))| {
        let len = if *cd { render_close_delimited(s).len() } else { s.render().len() };
        (0..=len).map(move |k| (i, k))
    }).collect();
    let next = std::sync::atomic::AtomicUsize::new(0);
    let stop = AtomicBool::new(false);
    crate::engine::shards(16, |sh| {
        let ip = format!("127.0.9.{}", 1 + sh);
        loop {
            let w = next.fetch_add(1, Ordering::SeqCst);
            if w >= work.len() || stop.load(Ordering::SeqCst) {
                break;
            }
            let (i, k) = work[w];
            let (req, spec, cd) = &specs[i];
            let full = if *cd { render_close_delimited(spec) } else { spec.render() };
            let c = Case { req: req.clone(), upstream: Upstream::Send { wire: full[..k].to_vec(), delivery: if k % 3 == 0 { Delivery::Segments(vec![1 + k % 7, 5, 200]) } else { Delivery::Whole } }, timeout_ms: 1000, spec: Some(spec.clone()), close_delimited: *cd, via_handler: None };
            let o = run_case(&c, &ip);
            if !report(ctx, &c, o, "case") {
                stop.store(true, Ordering::SeqCst);
            }
        }
    });
    ctx.exhaustive_space(&format!("{} generated valid upstream responses (Content-Length / chunked / close-delimited), each cut at every byte offset 0..=len and followed by a close", n_resp));
}

fn faults_and_random(ctx: &Ctx) {
    let cases = ctx.tier.pick(480u32, 12_000u32);
    let nshards = 16;
    crate::engine::shards(nshards, |i| {
        let ip = format!("127.0.9.{}", 1 + i);
        let garbage = prop_oneof![
            Just(b"hello, this is not HTTP\r\n\r\n".to_vec()),
            Just(b"HTTP/1.1 200 OK\r\nNoColonHere\r\n\r\n".to_vec()),
            Just(b"HTTP/1.1 200 OK\nContent-Length: 2\n\nok".to_vec()),
            Just("HTTP/1.1 200 OK\r\nX-A: \u{e9}\nContent-Length: 0\r\n\r\n".as_bytes().to_vec()),
            Just(b"HTTP/1.1 999 Whatever\r\nContent-Length: 0\r\n\r\n".to_vec()),
            Just(b"HTTP/1.1 429 Too Many Requests\r\nContent-Length: 2\r\n\r\nno".to_vec()),
            Just(b"HTTP/1.1 308 Permanent Redirect\r\nLocation: /x\r\nContent-Length: 0\r\n\r\n".to_vec()),
            Just(b"HTTP/1.1 200 OK\r\nContent-Length: 5\r\n\r\nab".to_vec()),
            Just(b"HTTP/1.1 200 OK\r\nTransfer-Encoding: chunked\r\n\r\n5\r\nhel".to_vec()),
            Just(b"HTTP/1.1 200 OK\r\nTransfer-Encoding: chunked\r\n\r\nZZ\r\nhello\r\n0\r\n\r\n".to_vec()),
            Just(b"HTTP/1.1 200 OK\r\nContent-Length: 18446744073709551616\r\n\r\n".to_vec()),
            Just(b"\x00\xff\xfe garbage bytes \x80".to_vec()),
            proptest::collection::vec(any::<u8>(), 0..80),
        ];
        let upstream = prop_oneof![
            5 => (small_resp(), any::<bool>(), prop_oneof![3 => Just(Delivery::Whole), 2 => proptest::collection::vec(1usize..40, 1..12).prop_map(Delivery::Segments), 2 => Just(Delivery::ByteWise)]).prop_map(|(s, cd, d)| {
                let cd = cd && status_has_body(s.status);
                let wire = if cd { render_close_delimited(&s) } else { s.render() };
                (Upstream::Send { wire, delivery: d }, Some(s), cd)
            }),
            2 => garbage.prop_map(|w| (Upstream::Send { wire: w, delivery: Delivery::Whole }, None, false)),
            1 => Just((Upstream::Refused, None, false)),
            1 => Just((Upstream::AcceptClose, None, false)),
        ];
        let strat = (small_req(), upstream, prop_oneof![Just(300u64), Just(1000)], prop_oneof![3 => Just(None), 1 => Just(Some("/*".to_string())), 1 => Just(Some("/api/*".to_string())), 1 => Just(Some("/api*".to_string()))], 0u8..4).prop_map(|(mut req, (upstream, spec, cd), timeout_ms, via, rep)| {
            if let Some(p) = &via {
                // the route prefix is stripped once, also when the path repeats it
                match (p.as_str(), rep) {
                    ("/api/*", 0) => req.path = format!("/api/api{}", req.path),
                    ("/api/*", 1) => req.path = format!("/api//api{}", req.path),
                    ("/api/*", _) => req.path = format!("/api{}", req.path),
                    ("/api*", 0) => req.path = format!("/api/api{}", req.path),
                    ("/api*", _) => req.path = format!("/api{}", req.path),
                    ("/*", 0) => req.path = format!("//{}", req.path.trim_start_matches('/')),
                    _ => {}
                }
            }
            Case { req, upstream, timeout_ms, spec, close_delimited: cd, via_handler: via }
        });
        pt::run(
            ctx,
            "case",
            pt::Opts::new(cases / nshards as u32).salt(910 + i as u64).shrink_iters(60),
            strat,
            |c| serde_json::to_value(c).unwrap(),
            |c| {
                let o = run_case(c, &ip);
                if let Some(h) = o.fails.iter().find(|f| f.sig.starts_with("harness-")) {
                    ctx.inconclusive(&h.detail);
                    return Vec::new();
                }
                let nt = !o.class.starts_with("valid:content-length");
                ctx.case(hash_of(&(c.req.render(), format!("{:?}", c.upstream).chars().take(4000).collect::<String>(), c.timeout_ms, &c.via_handler)), nt, &[&format!("upstream:{}", o.class), if c.via_handler.is_some() { "via:proxy_handler" } else { "via:proxy_request" }]);
                ctx.sample(&format!("upstream:{}", o.class), || json!({"upstream": format!("{:?}", c.upstream).chars().take(200).collect::<String>(), "request": show(&c.req.render()[..c.req.render().len().min(100)])}));
                o.fails
            },
        );
    });
}

fn stalls(ctx: &Ctx) {
    // silent, stalling and trickling upstreams (few: each costs about the timeout)
    let mut rng = Lcg(pt::mix(ctx.seed, 930));
    let n = ctx.tier.pick(12usize, 120usize);
    let mut runner = proptest::test_runner::TestRunner::new(proptest::test_runner::Config { rng_seed: proptest::test_runner::RngSeed::Fixed(pt::mix(ctx.seed, 931)), failure_persistence: None, ..Default::default() });
    let mut cases = Vec::new();
    for k in 0..n {
        let req = small_req().new_tree(&mut runner).unwrap().current();
        let mut spec = small_resp().new_tree(&mut runner).unwrap().current();
        spec.body.truncate(20);
        if let FramingSpec::Chunked(..) = spec.framing {
            spec.framing = FramingSpec::ContentLength;
        }
        spec.headers.truncate(1);
        let wire = spec.render();
        let upstream = match k % 4 {
            0 => Upstream::Silence,
            1 => Upstream::StallAfter { at: 1 + (rng.next() % (wire.len() as u64 - 1)) as usize, wire: wire.clone() },
            2 => Upstream::Send { wire: wire.clone(), delivery: Delivery::Trickle(50) },
            _ => Upstream::StallAfter { at: wire.len().saturating_sub(1), wire: wire.clone() },
        };
        let via = if k % 6 == 5 { Some("/*".to_string()) } else { None };
        cases.push(Case { req, upstream, timeout_ms: 300, spec: Some(spec), close_delimited: false, via_handler: via });
    }
    // a close-delimited response (no Content-Length, not chunked) that stalls after its complete head: the body is only
    // ended by the close, so a stall is an incomplete response (502), whatever part of the body has arrived
    for k in 0..ctx.tier.pick(4usize, 24usize) {
        let req = small_req().new_tree(&mut runner).unwrap().current();
        let mut spec = small_resp().new_tree(&mut runner).unwrap().current();
        spec.status = 200;
        spec.reason = "OK".into();
        spec.body = format!("close-delimited body {}", k).into_bytes();
        spec.framing = FramingSpec::ContentLength;
        spec.headers.truncate(1);
        let wire = render_close_delimited(&spec);
        let head = wire.len() - spec.body.len();
        let at = match k % 3 {
            0 => head,
            1 => head + spec.body.len() / 2,
            _ => wire.len(),
        };
        cases.push(Case { req, upstream: Upstream::StallAfter { at, wire }, timeout_ms: 300, spec: Some(spec), close_delimited: true, via_handler: None });
    }
    // an upstream that accepts and never reads, with a request body far larger than the loopback socket buffers
    for k in 0..ctx.tier.pick(2usize, 8usize) {
        let mut req = small_req().new_tree(&mut runner).unwrap().current();
        let n = (24usize << 20) + k * 4096;
        req.headers.retain(|h| !h.name.eq_ignore_ascii_case("content-length"));
        req.method = "POST".into();
        req.body = Some(vec![b'x'; n]);
        req.headers.push(HeaderSpec { name: "Content-Length".into(), ows: " ".into(), value: n.to_string() });
        cases.push(Case { req, upstream: Upstream::NeverReads, timeout_ms: 500, spec: None, close_delimited: false, via_handler: None });
    }
    let next = std::sync::atomic::AtomicUsize::new(0);
    crate::engine::shards(12, |sh| loop {
        let k = next.fetch_add(1, Ordering::SeqCst);
        if k >= cases.len() {
            break;
        }
        let o = run_case(&cases[k], &format!("127.0.9.{}", 40 + sh));
        report(ctx, &cases[k], o, "case");
    });
}

/// Concurrent requests through one proxy route (`proxy_handler` with a shared load balancer) whose targets are a healthy
/// upstream and one that accepts and stays silent: every request must be answered within proxy_handler's timeout plus
/// slack, the ones routed to the healthy target promptly with its response, the others with 502. A request must not
/// wait for another request's upstream.
pub fn concurrent_route(n_requests: usize, ip: &str) -> Vec<Fail> {
    use humphrey_server::config::LoadBalancerMode;
    use humphrey_server::proxy::{proxy_handler, EqMutex, LoadBalancer};
    use std::io::{Read, Write};
    let healthy = match std::net::TcpListener::bind((ip, 0)) {
        Ok(l) => l,
        Err(e) => return vec![Fail::new("harness-bind", e.to_string())],
    };
    let silent = match std::net::TcpListener::bind((ip, 0)) {
        Ok(l) => l,
        Err(e) => return vec![Fail::new("harness-bind", e.to_string())],
    };
    let (ha, sa) = (healthy.local_addr().unwrap(), silent.local_addr().unwrap());
    let stop = Arc::new(std::sync::atomic::AtomicBool::new(false));
    let _ = healthy.set_nonblocking(true);
    let _ = silent.set_nonblocking(true);
    let st1 = stop.clone();
    let h1 = std::thread::spawn(move || {
        while !st1.load(Ordering::SeqCst) {
            match healthy.accept() {
                Ok((mut s, _)) => {
                    std::thread::spawn(move || {
                        let _ = s.set_nonblocking(false);
                        let _ = s.set_read_timeout(Some(Duration::from_secs(5)));
                        let mut buf = Vec::new();
                        let mut tmp = [0u8; 2048];
                        while !buf.windows(4).any(|w| w == b"\r\n\r\n") {
                            match s.read(&mut tmp) {
                                Ok(0) | Err(_) => break,
                                Ok(n) => buf.extend_from_slice(&tmp[..n]),
                            }
                        }
                        let _ = s.write_all(b"HTTP/1.1 200 OK\r\nContent-Length: 7\r\n\r\nhealthy");
                    });
                }
                Err(_) => std::thread::sleep(Duration::from_millis(2)),
            }
        }
    });
    let st2 = stop.clone();
    let h2 = std::thread::spawn(move || {
        let mut held = Vec::new();
        while !st2.load(Ordering::SeqCst) {
            match silent.accept() {
                Ok((s, _)) => held.push(s),
                Err(_) => std::thread::sleep(Duration::from_millis(2)),
            }
        }
    });
    let lb = Arc::new(EqMutex::new(LoadBalancer { targets: vec![sa.to_string(), ha.to_string()], mode: LoadBalancerMode::RoundRobin, index: 0, lcg: humphrey_server::rand::Lcg::new() }));
    let state = Arc::new(humphrey_server::server::server::AppState::from(crate::props::c16::quiet_config(0, 0)));
    let (tx, rx) = std::sync::mpsc::channel();
    let t0 = Instant::now();
    for k in 0..n_requests {
        let (lb, state, tx) = (lb.clone(), state.clone(), tx.clone());
        std::thread::spawn(move || {
            // stagger the starts a little so that the rotation is well defined: request k takes target k % 2
            std::thread::sleep(Duration::from_millis(30 * k as u64));
            let req = crate::props::c16::make_request(&format!("/p/r{}", k));
            let started = Instant::now();
            let r = catch(|| proxy_handler(req, state, &lb, "/p/*"));
            let _ = tx.send((k, started.elapsed(), r.map(|r| (u16::from(r.status_code), r.body))));
        });
    }
    drop(tx);
    let mut fails = Vec::new();
    let mut seen = 0;
    // proxy_handler's timeout is 5 s (hard-coded)
    let limit = Duration::from_secs(5) + Duration::from_secs(2);
    while seen < n_requests {
        match rx.recv_timeout((limit + Duration::from_millis(30 * n_requests as u64)).saturating_sub(t0.elapsed())) {
            Ok((k, took, r)) => {
                seen += 1;
                match r {
                    Err(p) => fails.push(fail!("panic", "proxy_handler panicked under concurrent requests: {}", p)),
                    Ok((status, body)) => {
                        if status == 200 && body == b"healthy" && took > Duration::from_secs(2) {
                            fails.push(fail!("concurrent-request-waits-for-another-upstream", "request {} of {} concurrent ones on one proxy route was answered by the healthy upstream only after {:?}: it waited for another request's stalled upstream", k, n_requests, took));
                        } else if took > limit {
                            fails.push(fail!("concurrent-deadline", "request {} of {} concurrent ones took {:?} (status {}), more than the 5 s timeout + 2 s", k, n_requests, took, status));
                        } else if !(status == 502 || (status == 200 && body == b"healthy")) {
                            fails.push(fail!("concurrent-wrong-response", "request {} answered {} {:?}", k, status, show(&body[..body.len().min(40)])));
                        }
                    }
                }
            }
            Err(_) => {
                fails.push(fail!("concurrent-deadline", "{} of {} concurrent requests on one proxy route (targets: one silent, one healthy) were not answered within 5 s + 2 s", n_requests - seen, n_requests));
                break;
            }
        }
    }
    stop.store(true, Ordering::SeqCst);
    let _ = h1.join();
    let _ = h2.join();
    fails.truncate(1);
    fails
}

/// Round robin through the server's proxy handler when some requests are not proxied at all (refused with 403 because
/// the client or a forwarded address is blacklisted) and when a target is down: the requests that are proxied must
/// still be given the targets strictly in rotation, and a refused request must reach no target.
pub fn rotation_with_refusals(seed: u64, ip: &str) -> (Vec<Fail>, J) {
    use humphrey_server::config::{BlacklistConfig, BlacklistMode, LoadBalancerMode};
    use humphrey_server::proxy::{proxy_handler, EqMutex, LoadBalancer};
    use std::io::Read;
    let mut rng = Lcg(seed);
    let k = 2 + (rng.next() % 3) as usize;
    let dead = if rng.next() % 3 == 0 { Some((rng.next() % k as u64) as usize) } else { None };
    let stop = Arc::new(AtomicBool::new(false));
    let hits: Arc<std::sync::Mutex<Vec<(usize, String)>>> = Arc::new(std::sync::Mutex::new(Vec::new()));
    let mut targets = Vec::new();
    let mut threads = Vec::new();
    for t in 0..k {
        let l = match TcpListener::bind((ip, 0)) {
            Ok(l) => l,
            Err(e) => return (vec![Fail::new("harness-bind", e.to_string())], json!({})),
        };
        targets.push(l.local_addr().unwrap().to_string());
        if dead == Some(t) {
            // nothing listens there any more: connection refused
            drop(l);
            continue;
        }
        let _ = l.set_nonblocking(true);
        let (st, hits) = (stop.clone(), hits.clone());
        threads.push(std::thread::spawn(move || {
            while !st.load(Ordering::SeqCst) {
                match l.accept() {
                    Ok((mut s, _)) => {
                        let _ = s.set_nonblocking(false);
                        let _ = s.set_read_timeout(Some(Duration::from_secs(5)));
                        let mut buf = Vec::new();
                        let mut tmp = [0u8; 2048];
                        while !buf.windows(4).any(|w| w == b"\r\n\r\n") {
                            match s.read(&mut tmp) {
                                Ok(0) | Err(_) => break,
                                Ok(n) => buf.extend_from_slice(&tmp[..n]),
                            }
                        }
                        let line = String::from_utf8_lossy(&buf).lines().next().unwrap_or("").to_string();
                        hits.lock().unwrap().push((t, line));
                        let _ = s.write_all(format!("HTTP/1.1 200 OK\r\nContent-Length: 8\r\n\r\ntarget-{}", t).as_bytes());
                    }
                    Err(_) => std::thread::sleep(Duration::from_millis(1)),
                }
            }
        }));
    }
    let listed: std::net::IpAddr = "10.9.8.7".parse().unwrap();
    let mut cfg = crate::props::c16::quiet_config(0, 0);
    cfg.blacklist = BlacklistConfig { list: vec![listed], mode: BlacklistMode::Forbidden };
    let state = Arc::new(humphrey_server::server::server::AppState::from(cfg));
    let lb = EqMutex::new(LoadBalancer { targets: targets.clone(), mode: LoadBalancerMode::RoundRobin, index: 0, lcg: humphrey_server::rand::Lcg::new() });
    let n = 6 + (rng.next() % 9) as usize;
    let mut script = Vec::new();
    let mut fails = Vec::new();
    let mut served = 0usize;
    for i in 0..n {
        // 0: proxied; 1: proxied, carrying an unlisted X-Forwarded-For; 2: refused (listed peer); 3: refused (listed forwarded address)
        let kind = [0u8, 0, 1, 2, 3, 3][(rng.next() % 6) as usize];
        script.push(kind);
        let (peer, xff) = match kind {
            0 => ("127.0.0.1:40000", None),
            1 => ("127.0.0.1:40000", Some("192.0.2.33")),
            2 => ("10.9.8.7:40000", None),
            _ => ("127.0.0.1:40000", Some("10.9.8.7")),
        };
        let wire = format!("GET /p/r{} HTTP/1.1\r\nHost: localhost\r\n{}\r\n", i, xff.map(|x| format!("X-Forwarded-For: {}\r\n", x)).unwrap_or_default()).into_bytes();
        let mut rd = PlanReader::new(wire, vec![usize::MAX]);
        let req = match Request::from_stream(&mut rd, peer.parse().unwrap()) {
            Ok(r) => r,
            Err(e) => return (vec![Fail::new("harness-request", format!("{:?}", e))], json!({})),
        };
        let before = hits.lock().unwrap().len();
        let r = catch(|| proxy_handler(req, state.clone(), &lb, "/p/*"));
        let after: Vec<(usize, String)> = hits.lock().unwrap()[before..].to_vec();
        match r {
            Err(p) => fails.push(fail!("panic", "proxy_handler panicked: {}", p)),
            Ok(r) => {
                let status = u16::from(r.status_code);
                if kind >= 2 {
                    if status != 403 || !after.is_empty() {
                        fails.push(fail!("refused-request-proxied", "request {} (peer {}, X-Forwarded-For {:?}, 10.9.8.7 blacklisted in forbidden mode) was answered {} and reached targets {:?}", i, peer, xff, status, after));
                    }
                } else {
                    let want = served % k;
                    served += 1;
                    if dead == Some(want) {
                        if status != 502 || !after.is_empty() {
                            fails.push(fail!("rotation-after-refusal", "targets {:?} (target {} is down), script {:?}: proxied request number {} is target {}'s turn and must be answered 502, got {} via {:?}", targets, want, script, served - 1, want, status, after));
                        }
                    } else if status != 200 || r.body != format!("target-{}", want).as_bytes() || after.len() != 1 || after[0].0 != want {
                        fails.push(fail!(
                            "rotation-after-refusal",
                            "round robin over {} targets{}, request kinds so far {:?} (0/1 proxied, 2/3 refused with 403): proxied request number {} must go to target {}, but was answered {} {:?} and reached {:?}",
                            k,
                            dead.map(|d| format!(" (target {} down)", d)).unwrap_or_default(),
                            script,
                            served - 1,
                            want,
                            status,
                            show(&r.body[..r.body.len().min(20)]),
                            after
                        ));
                    }
                }
            }
        }
        if !fails.is_empty() {
            break;
        }
    }
    stop.store(true, Ordering::SeqCst);
    for t in threads {
        let _ = t.join();
    }
    fails.truncate(1);
    (fails, json!({"targets": k, "down": dead, "kinds": script}))
}

fn rotation_refusals(ctx: &Ctx) {
    let runs = ctx.tier.pick(48usize, 1200usize);
    let next = std::sync::atomic::AtomicUsize::new(0);
    let found: std::sync::Mutex<Vec<(Fail, J)>> = std::sync::Mutex::new(Vec::new());
    crate::engine::shards(16, |sh| loop {
        let i = next.fetch_add(1, Ordering::SeqCst);
        if i >= runs {
            break;
        }
        let seed = pt::mix(ctx.seed, 9900 + i as u64);
        let (fails, case) = rotation_with_refusals(seed, &format!("127.0.9.{}", 100 + sh));
        let refused = case["kinds"].as_array().map_or(false, |a| a.iter().any(|x| x.as_u64().unwrap_or(0) >= 2));
        ctx.case(hash_of(&("rotation-refusals", case.to_string())), refused, &["rotation-through-handler", if case["down"].is_null() { "rotation:all-targets-up" } else { "rotation:one-target-down" }]);
        if i == 0 {
            ctx.sample("rotation-through-handler", || case.clone());
        }
        for f in fails {
            if f.sig.starts_with("harness-") {
                ctx.inconclusive(&f.detail);
            } else {
                found.lock().unwrap().push((f, json!({"seed": seed.to_string(), "case": case})));
            }
        }
    });
    for (f, c) in found.into_inner().unwrap() {
        if !ctx.tolerate(&f) {
            ctx.violation(f, "rotation-refusals", c);
        }
    }
}

fn concurrent(ctx: &Ctx) {
    let runs = ctx.tier.pick(2usize, 12usize);
    let next = std::sync::atomic::AtomicUsize::new(0);
    let found: std::sync::Mutex<Vec<(Fail, J)>> = std::sync::Mutex::new(Vec::new());
    crate::engine::shards(runs.min(12), |sh| loop {
        let k = next.fetch_add(1, Ordering::SeqCst);
        if k >= runs {
            break;
        }
        let n = 4 + k % 5;
        ctx.case(hash_of(&("concurrent-route", n, k)), true, &["concurrent-requests-on-one-route"]);
        for f in concurrent_route(n, &format!("127.0.9.{}", 60 + sh)) {
            if f.sig.starts_with("harness-") {
                ctx.inconclusive(&f.detail);
            } else {
                found.lock().unwrap().push((f, json!({"requests": n})));
            }
        }
    });
    ctx.sample("concurrent-requests-on-one-route", || json!({"scenario": "4..8 concurrent requests through proxy_handler on one route whose two targets are a silent and a healthy upstream (round robin)"}));
    for (f, c) in found.into_inner().unwrap() {
        if !ctx.tolerate(&f) {
            ctx.violation(f, "concurrent", c);
        }
    }
}

pub fn run(ctx: &Ctx) {
    ctx.rule("client requests from the HTTP grammar x upstream behaviours: generated valid responses (modelled status codes; Content-Length, chunked, close-delimited) delivered whole or in segments, each valid response cut at every byte offset then closed (fault enumeration), garbage / header-malformed / bare-LF / unmodelled-status responses, connection refused, accept-then-close, accept-then-silence, stall mid-response, one byte per 50 ms; through proxy_request and through the server's proxy_handler (prefix stripping); oracle = reference response parser applied to the bytes the upstream actually sent (complete valid => identical status/headers/body, otherwise 502), a deadline of timeout + active sending time + 2 s, and the reference request parser on what the upstream received (same request, stripped prefix, one added X-Forwarded-For = origin address). Load balancer: strict rotation / exact fairness under 1..8 threads, random within the set; through proxy_handler with 2..4 targets (one possibly down) and a script that interleaves proxied requests with requests refused 403 for a blacklisted peer / forwarded address: proxied request j goes to target j mod k (502 when that target is down), a refused request reaches no target. Concurrent requests on one proxy route with a silent and a healthy target: each answered within the handler's timeout + slack, the healthy ones promptly. Non-trivial = any fault case or chunked / close-delimited framing; distinct by case");
    ctx.assume("scripted loopback upstream; close-delimited bodies cut anywhere and a chunked body cut after its terminal `0\\r\\n` are ambiguous and either reading is accepted; status codes outside Humphrey's StatusCode table only require `502 or faithful, never panic/hang`; proxy_handler's 5 s timeout is hard-coded");
    load_balancer(ctx);
    rotation_refusals(ctx);
    enumerate_cuts(ctx);
    faults_and_random(ctx);
    // both wait for timeouts most of the time: run them side by side
    std::thread::scope(|sc| {
        sc.spawn(|| stalls(ctx));
        sc.spawn(|| concurrent(ctx));
    });
}

pub fn replay(_ctx: &Ctx, kind: &str, case: &J) -> Vec<Fail> {
    match kind {
        "case" => match serde_json::from_value::<Case>(case.clone()) {
            Ok(c) => run_case(&c, "127.0.9.99").fails,
            Err(e) => vec![Fail::new("harness", format!("bad replay case: {}", e))],
        },
        "concurrent" => concurrent_route(case["requests"].as_u64().unwrap_or(4) as usize, "127.0.9.99"),
        "rotation-refusals" => rotation_with_refusals(case["seed"].as_str().and_then(|x| x.parse().ok()).unwrap_or(0), "127.0.9.99").0,
        _ => vec![],
    }
}
