//! C11 — WebSocket endpoint: valid handshake, well-formed frames out, ping/close answered.
//! A real App with `websocket_handler` runs on loopback; a reference RFC 6455 client performs the
//! handshake, sends a generated frame script under a generated delivery, and validates every byte
//! the server writes with the strict reference decoder.

use crate::common::http::{parse_response, RespParse};
use crate::common::net::connect_retry;
use crate::common::net_app::start_app;
use crate::common::ws::{self, Decoded, RFrame};
use crate::engine::{hash_of, hex, pt, show, Ctx, Fail, Lcg};
use humphrey::App;
use humphrey_ws::error::WebsocketError;
use humphrey_ws::restion::Restion;
use humphrey_ws::{websocket_handler, Message, WebsocketStream};
use proptest::prelude::*;
use serde::{Deserialize, Serialize};
use serde_json::{json, Value as J};
use std::io::{Read, Write};
use std::sync::{Arc, Mutex};
use std::time::{Duration, Instant};

#[derive(Clone, Debug, Serialize, Deserialize, PartialEq)]
pub enum Mode {
    RecvLoop,
    NonBlocking,
    /// send k messages first, then receive
    SendThenRecv(u8),
    DropImmediately,
    DropAfter(u8),
    /// poll with recv_nonblocking; whenever that reports `nothing yet`, wait with a blocking recv
    Mixed,
}

#[derive(Clone, Debug, Serialize, Deserialize, PartialEq)]
pub enum Item {
    /// a data message: (text?, payload, fragment cut points as fractions, control frames interleaved after each fragment)
    Message { text: bool, payload: Vec<u8>, cuts: Vec<u16>, pings_between: Vec<Option<Vec<u8>>> },
    Ping(Vec<u8>),
    Pong(Vec<u8>),
}

#[derive(Clone, Debug, Serialize, Deserialize, PartialEq)]
pub enum Ending {
    ClientClose(Vec<u8>),
    /// wait for the server to finish (only with Drop modes) 
    ServerDrop,
    Abrupt,
    /// the client's last frame is a bare two-byte header with a reserved opcode (3..7, 11..15): receive fails, the handler
    /// returns, and dropping the stream must send a Close
    Reserved(u8),
    /// the client writes the first 2 + k % 13 bytes of a 16-byte frame and then shuts down its sending direction only:
    /// receive fails, the handler returns, and the Close sent on drop must reach the still-listening client
    HalfClose(u8),
}

fn reserved_opcode(k: u8) -> u8 {
    [3u8, 4, 5, 6, 7, 11, 12, 13, 14, 15][k as usize % 10]
}

#[derive(Clone, Debug, Serialize, Deserialize, PartialEq)]
pub enum Delivery {
    Whole,
    ByteWise,
    /// split each frame after this many bytes (1 = inside the 2-byte header, 3 = inside a 16-bit length, ...)
    SplitFrameAt(u8),
    Random(u64),
}

#[derive(Clone, Debug, Serialize, Deserialize)]
pub struct Case {
    pub mode: Mode,
    /// None = no Sec-WebSocket-Key header
    pub key: Option<String>,
    pub items: Vec<Item>,
    pub ending: Ending,
    pub delivery: Delivery,
    pub mask_seed: u64,
}

#[derive(Clone, Debug, PartialEq)]
pub enum Ev {
    Msg { text: bool, payload: Vec<u8> },
    Err(String),
    Done,
}

struct State {
    mode: Mutex<Mode>,
    log: Mutex<Vec<Ev>>,
    done: Mutex<bool>,
    /// set by the harness once the client is gone: a polling handler may stop polling
    client_gone: Mutex<bool>,
}

fn server_message(k: u8) -> (bool, Vec<u8>) {
    if k % 2 == 0 {
        (true, format!("server text message #{}", k).into_bytes())
    } else {
        (false, (0..(k as usize * 37 % 300)).map(|i| (i as u8) ^ 0xa5).chain([0xff, 0xfe]).collect())
    }
}

fn handler(mut stream: WebsocketStream, state: Arc<State>) {
    let mode = state.mode.lock().unwrap().clone();
    let log = |e: Ev| state.log.lock().unwrap().push(e);
    let mut received = 0u32;
    let limit: Option<u32> = match mode {
        Mode::DropImmediately => Some(0),
        Mode::DropAfter(j) => Some(1 + j as u32 % 4),
        _ => None,
    };
    if let Mode::SendThenRecv(k) = mode {
        for i in 0..(1 + k % 4) {
            let (text, payload) = server_message(i);
            let m = if text { Message::new(payload) } else { Message::new_binary(payload) };
            if stream.send(m).is_err() {
                break;
            }
        }
    }
    loop {
        if let Some(l) = limit {
            if received >= l {
                break;
            }
        }
        if mode == Mode::Mixed {
            let got = match stream.recv_nonblocking() {
                Restion::Ok(m) => Ok(m),
                Restion::Err(e) => Err(e),
                Restion::None => stream.recv(),
            };
            match got {
                Ok(m) => {
                    received += 1;
                    log(Ev::Msg { text: m.is_text(), payload: m.bytes().to_vec() });
                }
                Err(e) => {
                    log(Ev::Err(format!("{:?}", e)));
                    break;
                }
            }
        } else if mode == Mode::NonBlocking {
            match stream.recv_nonblocking() {
                Restion::Ok(m) => {
                    received += 1;
                    log(Ev::Msg { text: m.is_text(), payload: m.bytes().to_vec() });
                }
                Restion::Err(e) => {
                    log(Ev::Err(format!("{:?}", e)));
                    break;
                }
                Restion::None => {
                    // a non-blocking receive reports a vanished peer as `nothing yet`; the harness tells us when to stop polling
                    if *state.client_gone.lock().unwrap() {
                        log(Ev::Err("ReadError".into()));
                        break;
                    }
                    std::thread::sleep(Duration::from_micros(300))
                }
            }
        } else {
            match stream.recv() {
                Ok(m) => {
                    received += 1;
                    log(Ev::Msg { text: m.is_text(), payload: m.bytes().to_vec() });
                }
                Err(e) => {
                    log(Ev::Err(format!("{:?}", e)));
                    break;
                }
            }
        }
    }
    drop(stream);
    log(Ev::Done);
    *state.done.lock().unwrap() = true;
}

/// client frames for the items, in order
pub fn client_frames(c: &Case) -> Vec<RFrame> {
    let mut rng = Lcg(c.mask_seed);
    let mut key = || {
        let r = rng.next();
        Some([r as u8, (r >> 8) as u8, (r >> 16) as u8, (r >> 24) as u8])
    };
    let mut out = Vec::new();
    for it in &c.items {
        match it {
            Item::Ping(p) => out.push(RFrame { fin: true, rsv: [false; 3], opcode: 9, mask: key(), payload: p.clone() }),
            Item::Pong(p) => out.push(RFrame { fin: true, rsv: [false; 3], opcode: 10, mask: key(), payload: p.clone() }),
            Item::Message { text, payload, cuts, pings_between } => {
                // cut points may coincide with each other and with either end: RFC 6455 allows fragments of zero length
                // (an empty first fragment still carries the message's opcode, an empty last one still carries FIN)
                let mut pts: Vec<usize> = cuts
                    .iter()
                    .map(|x| match x & 7 {
                        0 => 0,
                        1 => payload.len(),
                        _ => pt::idx(*x, payload.len() + 1),
                    })
                    .collect();
                pts.sort();
                let mut bounds = vec![0usize];
                bounds.extend(pts);
                bounds.push(payload.len());
                let n = bounds.len() - 1;
                for k in 0..n {
                    let first = k == 0;
                    let last = k == n - 1;
                    out.push(RFrame { fin: last, rsv: [false; 3], opcode: if first { if *text { 1 } else { 2 } } else { 0 }, mask: key(), payload: payload[bounds[k]..bounds[k + 1]].to_vec() });
                    if !last {
                        if let Some(Some(p)) = pings_between.get(k) {
                            out.push(RFrame { fin: true, rsv: [false; 3], opcode: 9, mask: key(), payload: p.clone() });
                        }
                    }
                }
            }
        }
    }
    if let Ending::ClientClose(p) = &c.ending {
        out.push(RFrame { fin: true, rsv: [false; 3], opcode: 8, mask: key(), payload: p.clone() });
    }
    if let Ending::Reserved(k) = &c.ending {
        // unmasked and empty: exactly the two header bytes, so that nothing is left unread when the server gives up on it
        out.push(RFrame { fin: true, rsv: [false; 3], opcode: reserved_opcode(*k), mask: None, payload: Vec::new() });
    }
    out
}

fn deliver(sock: &mut std::net::TcpStream, frames: &[RFrame], d: &Delivery) {
    let mut rng = Lcg(match d {
        Delivery::Random(s) => *s,
        _ => 7,
    });
    for f in frames {
        let bytes = ws::encode(f);
        match d {
            Delivery::Whole => {
                let _ = sock.write_all(&bytes);
            }
            Delivery::ByteWise => {
                let head = bytes.len().min(200);
                for b in &bytes[..head] {
                    if sock.write_all(&[*b]).is_err() {
                        return;
                    }
                    std::thread::sleep(Duration::from_micros(600));
                }
                let _ = sock.write_all(&bytes[head..]);
            }
            Delivery::SplitFrameAt(k) => {
                let k = (*k as usize).max(1).min(bytes.len());
                let _ = sock.write_all(&bytes[..k]);
                std::thread::sleep(Duration::from_millis(3));
                let _ = sock.write_all(&bytes[k..]);
            }
            Delivery::Random(_) => {
                let mut p = 0;
                let mut pieces = 0;
                while p < bytes.len() {
                    let n = if pieces > 12 { bytes.len() - p } else { (1 + (rng.next() % 9) as usize).min(bytes.len() - p) };
                    if sock.write_all(&bytes[p..p + n]).is_err() {
                        return;
                    }
                    p += n;
                    pieces += 1;
                    std::thread::sleep(Duration::from_millis(1));
                }
            }
        }
    }
}

pub fn run_case(c: &Case, ip: &str) -> Vec<Fail> {
    let state = State { mode: Mutex::new(c.mode.clone()), log: Mutex::new(Vec::new()), done: Mutex::new(false), client_gone: Mutex::new(false) };
    let app: App<State> = App::new_with_config(2, state);
    let st = app.get_state();
    let app = app.with_websocket_route("/ws", websocket_handler(handler));
    let running = match start_app(app, ip) {
        Ok(r) => r,
        Err(e) => return vec![Fail::new("harness-app", e)],
    };
    let mut fails = Vec::new();
    let mut sock = match connect_retry(running.addr, Duration::from_secs(5)) {
        Ok(s) => s,
        Err(e) => return vec![Fail::new("harness-connect", e.to_string())],
    };
    let _ = sock.set_nodelay(true);
    let mut req = String::from("GET /ws HTTP/1.1\r\nHost: c11.test\r\nUpgrade: websocket\r\nConnection: Upgrade\r\nSec-WebSocket-Version: 13\r\n");
    if let Some(k) = &c.key {
        req.push_str(&format!("Sec-WebSocket-Key: {}\r\n", k));
    }
    req.push_str("\r\n");
    let _ = sock.write_all(req.as_bytes());
    // reader thread collects everything the server writes
    let collected = Arc::new((Mutex::new((Vec::<u8>::new(), false)), std::sync::Condvar::new()));
    let col2 = collected.clone();
    let mut rs = sock.try_clone().unwrap();
    let reader = std::thread::spawn(move || {
        let mut tmp = [0u8; 65536];
        loop {
            match rs.read(&mut tmp) {
                Ok(0) | Err(_) => {
                    let mut g = col2.0.lock().unwrap();
                    g.1 = true;
                    col2.1.notify_all();
                    return;
                }
                Ok(n) => {
                    let mut g = col2.0.lock().unwrap();
                    g.0.extend_from_slice(&tmp[..n]);
                    col2.1.notify_all();
                }
            }
        }
    });
    let wait = |pred: &dyn Fn(&[u8], bool) -> bool, max: Duration| -> (Vec<u8>, bool) {
        let deadline = Instant::now() + max;
        let mut g = collected.0.lock().unwrap();
        loop {
            if pred(&g.0, g.1) || Instant::now() >= deadline {
                return (g.0.clone(), g.1);
            }
            let now = Instant::now();
            let (ng, _) = collected.1.wait_timeout(g, deadline.saturating_duration_since(now)).unwrap();
            g = ng;
        }
    };
    // ---- handshake
    let (bytes, eof) = wait(&|b, e| e || matches!(parse_response(b, false), RespParse::Complete(_)), Duration::from_secs(10));
    let head_len;
    match (&c.key, parse_response(&bytes, eof && false)) {
        (None, _) => {
            // no key: the request must not be upgraded
            let (bytes, eof) = wait(&|_, e| e, Duration::from_secs(5));
            if bytes.windows(12).any(|w| w == b"HTTP/1.1 101") {
                fails.push(fail!("upgrade-without-key", "a request without Sec-WebSocket-Key was answered with 101"));
            } else if !eof {
                fails.push(fail!("no-key-not-closed", "a request without Sec-WebSocket-Key left the connection open without an answer"));
            }
            let _ = sock.shutdown(std::net::Shutdown::Both);
            let _ = reader.join();
            let _ = running.stop(Duration::from_secs(10));
            return fails;
        }
        (Some(key), RespParse::Complete(r)) => {
            let accept: Vec<&String> = r.headers.iter().filter(|(n, _)| n == "sec-websocket-accept").map(|(_, v)| v).collect();
            let want = ws::accept_key(key);
            if r.status != 101 {
                fails.push(fail!("handshake-status", "handshake answered {} instead of 101", r.status));
            } else if accept.len() != 1 || *accept[0] != want {
                fails.push(fail!("handshake-accept", "Sec-WebSocket-Accept {:?} for key {:?}, want {:?}", accept, key, want));
            }
            let up: Vec<String> = r.headers.iter().filter(|(n, _)| n == "upgrade").map(|(_, v)| v.to_ascii_lowercase()).collect();
            if up != ["websocket"] {
                fails.push(fail!("handshake-upgrade-header", "Upgrade header {:?}", up));
            }
            head_len = r.consumed;
        }
        (Some(_), other) => {
            fails.push(fail!("handshake-missing", "no valid handshake response: {:?}; bytes: {}", other, show(&bytes[..bytes.len().min(120)])));
            let _ = sock.shutdown(std::net::Shutdown::Both);
            let _ = reader.join();
            let _ = running.stop(Duration::from_secs(10));
            return fails;
        }
    }
    if !fails.is_empty() {
        let _ = sock.shutdown(std::net::Shutdown::Both);
        let _ = reader.join();
        let _ = running.stop(Duration::from_secs(10));
        return fails;
    }
    // ---- frames
    let frames = client_frames(c);
    deliver(&mut sock, &frames, &c.delivery);
    // When the harness itself ends the session by vanishing, it first lets the handler take in what was sent (all of it is
    // in the kernel's buffers by now): vanishing earlier may reset the connection and wipe what the server has not read
    // yet, which would make "the handler got only some of the messages" a property of the harness, not of the server.
    let sent_msgs = frames.iter().filter(|f| f.fin && f.opcode < 3).count();
    let takes_all = !matches!(c.mode, Mode::DropImmediately | Mode::DropAfter(_));
    let wait_taken = |max: Duration| {
        let t = Instant::now();
        while takes_all && t.elapsed() < max && st.log.lock().unwrap().iter().filter(|e| matches!(e, Ev::Msg { .. })).count() < sent_msgs {
            std::thread::sleep(Duration::from_millis(1));
        }
    };
    match &c.ending {
        Ending::Abrupt => {
            // give the server a moment to read what was sent, then vanish
            wait_taken(Duration::from_secs(5));
            std::thread::sleep(Duration::from_millis(30));
            let _ = sock.shutdown(std::net::Shutdown::Both);
            std::thread::sleep(Duration::from_millis(5));
            *st.client_gone.lock().unwrap() = true;
        }
        Ending::HalfClose(k) => {
            wait_taken(Duration::from_secs(5));
            let partial = ws::encode(&RFrame { fin: true, rsv: [false; 3], opcode: 1, mask: Some([9, 8, 7, 6]), payload: b"never done".to_vec() });
            let _ = sock.write_all(&partial[..2 + (*k as usize % 13)]);
            std::thread::sleep(Duration::from_millis(2));
            let _ = sock.shutdown(std::net::Shutdown::Write);
            std::thread::sleep(Duration::from_millis(5));
            *st.client_gone.lock().unwrap() = true;
        }
        _ => {}
    }
    // wait until the handler is done (all modes end: close, drop limit, or disconnect)
    let t0 = Instant::now();
    let n_msgs = frames.iter().filter(|f| f.fin && f.opcode < 3).count();
    let limit_reached = match c.mode {
        Mode::DropImmediately => true,
        Mode::DropAfter(j) => n_msgs >= 1 + j as usize % 4,
        _ => false,
    };
    let handler_ends = limit_reached || matches!(c.ending, Ending::ClientClose(_) | Ending::Reserved(_) | Ending::HalfClose(_));
    while handler_ends && !*st.done.lock().unwrap() && t0.elapsed() < Duration::from_secs(6) {
        std::thread::sleep(Duration::from_millis(1));
    }
    if handler_ends && !*st.done.lock().unwrap() {
        fails.push(fail!("handler-stuck", "the server-side handler did not finish within 10 s (mode {:?}, ending {:?}); log so far {:?}", c.mode, c.ending, st.log.lock().unwrap().iter().map(short_ev).collect::<Vec<_>>()));
    }
    if !handler_ends {
        // recv loop with nothing ending it: end it ourselves after the data went through
        wait_taken(Duration::from_secs(5));
        std::thread::sleep(Duration::from_millis(40));
        let _ = sock.shutdown(std::net::Shutdown::Both);
        std::thread::sleep(Duration::from_millis(5));
        *st.client_gone.lock().unwrap() = true;
        let t1 = Instant::now();
        while !*st.done.lock().unwrap() && t1.elapsed() < Duration::from_secs(10) {
            std::thread::sleep(Duration::from_millis(1));
        }
    }
    let (all, _eof) = if matches!(c.ending, Ending::Abrupt) || !handler_ends { wait(&|_, e| e, Duration::from_millis(300)) } else { wait(&|_, e| e, Duration::from_secs(5)) };
    let _ = sock.shutdown(std::net::Shutdown::Both);
    let _ = reader.join();
    let server_bytes = &all[head_len.min(all.len())..];
    // ---- everything after the 101 must be well-formed unmasked frames
    let mut got: Vec<RFrame> = Vec::new();
    let mut p = 0;
    while p < server_bytes.len() {
        match ws::decode(&server_bytes[p..]) {
            Decoded::Frame(f, n) => {
                if f.mask.is_some() {
                    fails.push(fail!("server-frame-masked", "the server sent a masked frame"));
                }
                if f.rsv.iter().any(|x| *x) {
                    fails.push(fail!("server-frame-rsv", "the server sent a frame with RSV bits set"));
                }
                if f.opcode >= 8 && (f.payload.len() > 125 || !f.fin) {
                    fails.push(fail!("server-control-frame", "the server sent an illegal control frame (opcode {}, {} bytes, fin {})", f.opcode, f.payload.len(), f.fin));
                }
                got.push(f);
                p += n;
            }
            other => {
                fails.push(fail!(
                    "server-bytes-not-frames",
                    "after the handshake the server wrote bytes that are not WebSocket frames ({:?}): {} (offset {} of {})",
                    other,
                    hex(&server_bytes[p..server_bytes.len().min(p + 40)]),
                    p,
                    server_bytes.len()
                ));
                break;
            }
        }
    }
    // ---- expected server frames and expected server-side log
    let limit: Option<usize> = match c.mode {
        Mode::DropImmediately => Some(0),
        Mode::DropAfter(j) => Some(1 + j as usize % 4),
        _ => None,
    };
    let mut want_frames: Vec<RFrame> = Vec::new();
    let mut want_log: Vec<Ev> = Vec::new();
    if let Mode::SendThenRecv(k) = c.mode {
        for i in 0..(1 + k % 4) {
            let (text, payload) = server_message(i);
            want_frames.push(RFrame { fin: true, rsv: [false; 3], opcode: if text { 1 } else { 2 }, mask: None, payload });
        }
    }
    let mut msgs = 0usize;
    let mut cur: Option<(bool, Vec<u8>)> = None;
    let mut closed_by_client = false;
    let mut errored = false;
    let mut stopped = limit == Some(0);
    let mut tail_uncertain = false; // frames the server may or may not have processed before it stopped / the client vanished
    for f in &frames {
        if stopped {
            // the server closes while client bytes are still unread: the kernel resets the connection and the
            // last bytes the server wrote (its Close) may never reach the client
            tail_uncertain = true;
            break;
        }
        match f.opcode {
            9 => want_frames.push(RFrame { fin: true, rsv: [false; 3], opcode: 10, mask: None, payload: f.payload.clone() }),
            10 => {}
            8 => {
                want_frames.push(RFrame { fin: true, rsv: [false; 3], opcode: 8, mask: None, payload: f.payload.clone() });
                want_log.push(Ev::Err("ConnectionClosed".into()));
                closed_by_client = true;
                stopped = true;
            }
            op if op > 2 => {
                // reserved opcode: receive fails, the handler returns
                errored = true;
                stopped = true;
            }
            op => {
                if op != 0 {
                    cur = Some((op == 1, Vec::new()));
                }
                if let Some((_, buf)) = cur.as_mut() {
                    buf.extend_from_slice(&f.payload);
                }
                if f.fin {
                    if let Some((text, payload)) = cur.take() {
                        want_log.push(Ev::Msg { text, payload });
                        msgs += 1;
                        if limit == Some(msgs) {
                            stopped = true;
                        }
                    }
                }
            }
        }
    }
    if matches!(c.ending, Ending::HalfClose(_)) && !stopped {
        // every complete frame was taken in, then the stream ended inside a frame: receive fails, the handler returns
        errored = true;
        stopped = true;
    }
    if (errored || limit.is_some()) && stopped && !closed_by_client {
        // handler returned on its own (its limit, or a receive error): dropping the stream sends a Close
        want_frames.push(RFrame { fin: true, rsv: [false; 3], opcode: 8, mask: None, payload: Vec::new() });
    }
    if matches!(c.ending, Ending::Abrupt) || !handler_ends {
        tail_uncertain = true;
    }
    if matches!(c.ending, Ending::HalfClose(_)) && !errored {
        // the handler had already returned (its limit) when the partial frame arrived: the reset may wipe its Close
        tail_uncertain = true;
    }
    if !closed_by_client && limit.is_none() {
        want_log.push(Ev::Err("ReadError".into()));
    }
    want_log.push(Ev::Done);
    if !fails.iter().any(|f| f.sig == "server-bytes-not-frames") {
        let cmp_len = if tail_uncertain { want_frames.len().min(got.len()) } else { want_frames.len().max(got.len()) };
        let a: Vec<&RFrame> = got.iter().take(cmp_len).collect();
        let b: Vec<&RFrame> = want_frames.iter().take(cmp_len).collect();
        if a != b || (!tail_uncertain && got.len() != want_frames.len()) {
            let first_diff = a.iter().zip(&b).position(|(x, y)| x != y).unwrap_or(a.len().min(b.len()));
            let kind = match (got.get(first_diff), want_frames.get(first_diff)) {
                (_, Some(w)) if w.opcode == 10 => "pong",
                (_, Some(w)) if w.opcode == 8 && closed_by_client => "close-reply",
                (_, Some(w)) if w.opcode == 8 => "close-on-drop",
                (Some(_), None) => "extra-frame",
                _ => "data-frame",
            };
            fails.push(fail!(
                format!("server-frames:{}", kind),
                "server frames differ from what the script requires at frame #{}: got {:?}, want {:?} (all got: {:?}; want: {:?})",
                first_diff,
                got.get(first_diff).map(short_frame),
                want_frames.get(first_diff).map(short_frame),
                got.iter().map(short_frame).collect::<Vec<_>>(),
                want_frames.iter().map(short_frame).collect::<Vec<_>>()
            ));
        }
    }
    // ---- what the handler received
    let log = st.log.lock().unwrap().clone();
    let got_msgs: Vec<&Ev> = log.iter().filter(|e| matches!(e, Ev::Msg { .. })).collect();
    let want_msgs: Vec<&Ev> = want_log.iter().filter(|e| matches!(e, Ev::Msg { .. })).collect();
    if got_msgs != want_msgs {
        let k = got_msgs.iter().zip(&want_msgs).position(|(a, b)| a != b).unwrap_or(got_msgs.len().min(want_msgs.len()));
        fails.push(fail!(
            match c.mode { Mode::NonBlocking => "messages:nonblocking", Mode::Mixed => "messages:mixed", _ => "messages:blocking" },
            "the handler received {} messages, the client sent {}; first difference at #{}: got {:?}, sent {:?} (mode {:?}, delivery {:?})",
            got_msgs.len(),
            want_msgs.len(),
            k,
            got_msgs.get(k).map(|e| short_ev(e)),
            want_msgs.get(k).map(|e| short_ev(e)),
            c.mode,
            c.delivery
        ));
    } else if closed_by_client && limit.is_none() {
        let got_err: Vec<&Ev> = log.iter().filter(|e| matches!(e, Ev::Err(_))).collect();
        if got_err != [&Ev::Err("ConnectionClosed".into())] {
            fails.push(fail!("close-not-reported", "after the client's Close frame receive reported {:?} instead of ConnectionClosed", got_err.iter().map(|e| short_ev(e)).collect::<Vec<_>>()));
        }
    }
    let _ = WebsocketError::ReadError;
    if let Err(e) = running.stop(Duration::from_secs(15)) {
        fails.push(Fail::new("harness-stop", e));
    }
    fails
}

fn short_frame(f: &RFrame) -> String {
    format!("{}op{}[{}]{}", if f.fin { "" } else { "~" }, f.opcode, f.payload.len(), if f.payload.len() <= 8 { format!("={}", hex(&f.payload)) } else { String::new() })
}

fn short_ev(e: &Ev) -> String {
    match e {
        Ev::Msg { text, payload } => format!("{}[{}]{}", if *text { "text" } else { "binary" }, payload.len(), if payload.len() <= 12 { format!("={}", hex(payload)) } else { String::new() }),
        Ev::Err(s) => format!("Err({})", s),
        Ev::Done => "done".into(),
    }
}

fn arb_payload() -> impl Strategy<Value = Vec<u8>> {
    prop_oneof![
        2 => Just(Vec::new()),
        6 => proptest::collection::vec(any::<u8>(), 1..40),
        2 => "[ -~é😀]{1,30}".prop_map(|s| s.into_bytes()),
        1 => prop_oneof![Just(125usize), Just(126), Just(127), Just(200), Just(65535), Just(65536), Just(70000)].prop_map(|n| (0..n).map(|i| (i % 251) as u8).collect()),
    ]
}

fn arb_small() -> impl Strategy<Value = Vec<u8>> {
    prop_oneof![1 => Just(Vec::new()), 3 => proptest::collection::vec(any::<u8>(), 1..20), 1 => Just(vec![0x41; 125])]
}

fn arb_case() -> impl Strategy<Value = Case> {
    let item = prop_oneof![
        6 => (any::<bool>(), arb_payload(), proptest::collection::vec(any::<u16>(), 0..4), proptest::collection::vec(proptest::option::of(arb_small()), 4)).prop_map(|(text, payload, cuts, pings_between)| Item::Message { text, payload, cuts, pings_between }),
        2 => arb_small().prop_map(Item::Ping),
        1 => arb_small().prop_map(Item::Pong),
    ];
    (
        prop_oneof![4 => Just(Mode::RecvLoop), 4 => Just(Mode::NonBlocking), 3 => Just(Mode::Mixed), 2 => any::<u8>().prop_map(Mode::SendThenRecv), 1 => Just(Mode::DropImmediately), 2 => any::<u8>().prop_map(Mode::DropAfter)],
        prop_oneof![
            1 => Just(None),
            6 => Just(Some("dGhlIHNhbXBsZSBub25jZQ==".to_string())),
            3 => "[!-~]{1,24}".prop_map(Some),
            1 => Just(Some(String::new())),
            1 => "[a-zA-Z0-9+/=]{200}".prop_map(Some),
        ],
        proptest::collection::vec(item, 0..6),
        prop_oneof![4 => prop_oneof![Just(Vec::new()), Just(vec![0x03, 0xe8]), Just(vec![0x03, 0xe9, b'b', b'y', b'e'])].prop_map(Ending::ClientClose), 2 => Just(Ending::ServerDrop), 1 => Just(Ending::Abrupt), 1 => any::<u8>().prop_map(Ending::Reserved), 1 => any::<u8>().prop_map(Ending::HalfClose)],
        prop_oneof![3 => Just(Delivery::Whole), 2 => Just(Delivery::ByteWise), 3 => (1u8..9).prop_map(Delivery::SplitFrameAt), 2 => any::<u64>().prop_map(Delivery::Random)],
        any::<u64>(),
    )
        .prop_map(|(mode, key, items, ending, delivery, mask_seed)| Case { mode, key, items, ending, delivery, mask_seed })
}

pub fn run(ctx: &Ctx) {
    ctx.rule("sessions against a real App with websocket_handler: handler behaviour {recv loop, recv_nonblocking polling loop, send k messages then recv, drop immediately, drop after j messages} x client scripts of text/binary messages (0..70 KiB, 1..5 fragments, pings interleaved between fragments), pings, pongs, ended by a client Close (with/without payload), server drop or abrupt disconnect x Sec-WebSocket-Key {absent, sample, any printable, empty, 200 chars} x delivery {whole, byte-wise, each frame split after k bytes (inside header / extended length / key), random}; oracle: reference handshake accept value, every server byte after the 101 must decode as legal unmasked frames equal to the required sequence (k messages, a Pong with equal payload per Ping, Close for Close, Close on drop), and the handler's received messages must equal the client's messages. Non-trivial = fragmented message with an interleaved control frame, a ping, or a split inside a frame header; distinct by case");
    ctx.assume("the reference client waits for the 101 before sending frames (as RFC 6455 requires); frames possibly unprocessed when the client vanishes abruptly are compared as a prefix only");
    let cases = ctx.share(ctx.tier.pick(3200u32, 40_000u32)).max(16);
    let nshards = 16;
    crate::engine::shards(nshards, |i| {
        let ip = format!("127.0.11.{}", 1 + i);
        pt::run(
            ctx,
            "session",
            pt::Opts::new(cases / nshards as u32).salt(ctx.salt_of(1100 + i as u64)).shrink_iters(20),
            arb_case(),
            |c| serde_json::to_value(c).unwrap(),
            |c| {
                let empty_first = c.items.iter().any(|it| matches!(it, Item::Message { cuts, .. } if cuts.iter().any(|x| x & 7 == 0)));
                let frag_ping = c.items.iter().any(|it| matches!(it, Item::Message { cuts, pings_between, payload, .. } if !cuts.is_empty() && payload.len() > 1 && pings_between.iter().any(|p| p.is_some())));
                let ping = c.items.iter().any(|it| matches!(it, Item::Ping(_)));
                let split = matches!(c.delivery, Delivery::SplitFrameAt(_) | Delivery::ByteWise | Delivery::Random(_));
                let mut labels = vec!["session"];
                if frag_ping {
                    labels.push("fragmented+interleaved-control");
                }
                if ping {
                    labels.push("ping");
                }
                if empty_first {
                    labels.push("zero-length-first-fragment");
                }
                if split {
                    labels.push("split-inside-frame");
                }
                labels.push(match c.mode {
                    Mode::RecvLoop => "mode:recv",
                    Mode::NonBlocking => "mode:recv_nonblocking",
                    Mode::SendThenRecv(_) => "mode:send-then-recv",
                    Mode::DropImmediately => "mode:drop-immediately",
                    Mode::DropAfter(_) => "mode:drop-after",
                    Mode::Mixed => "mode:nonblocking-then-blocking",
                });
                match c.ending {
                    Ending::Reserved(_) => labels.push("ending:reserved-opcode-then-drop"),
                    Ending::HalfClose(_) => labels.push("ending:half-close-inside-a-frame-then-drop"),
                    _ => {}
                }
                ctx.case(hash_of(&format!("{:?}", c)), frag_ping || ping || split, &labels);
                ctx.sample(labels.last().unwrap(), || json!({"mode": c.mode, "key": c.key, "frames": client_frames(c).iter().map(short_frame).collect::<Vec<_>>(), "ending": c.ending, "delivery": c.delivery}));
                let f = run_case(c, &ip);
                if let Some(h) = f.iter().find(|x| x.sig.starts_with("harness-")) {
                    ctx.inconclusive(&h.detail);
                    return Vec::new();
                }
                f
            },
        );
    });
    if ctx.chunk.map_or(true, |(k, _)| k == 0) {
        // the WebSocket connection must not inherit the application's connection timeout
        std::thread::scope(|sc| {
            for (i, inside) in [false, true].into_iter().enumerate() {
                sc.spawn(move || {
                    ctx.case(hash_of(&("quiet-client", inside)), true, &["quiet-client-longer-than-the-connection-timeout"]);
                    for f in quiet_client(inside, &format!("127.0.11.{}", 120 + i)) {
                        if f.sig.starts_with("harness-") {
                            ctx.inconclusive(&format!("{}: {}", f.sig, f.detail));
                        } else if !ctx.tolerate(&f) {
                            ctx.violation(f, "quiet", json!({"inside_frame": inside}));
                        }
                    }
                });
            }
        });
        ctx.sample("quiet-client-longer-than-the-connection-timeout", || json!({"scenario": "App with a 500 ms connection timeout and an echoing WebSocket route; the client pauses 900 ms before / inside its frame"}));
    }
}

/// An application with a connection timeout (which is about waiting for HTTP requests) and an echoing WebSocket route:
/// a client that stays quiet for longer than that timeout — between two frames, or in the middle of a frame — must still
/// have its message delivered and echoed; the WebSocket connection must not inherit the HTTP timeout.
pub fn quiet_client(inside_frame: bool, ip: &str) -> Vec<Fail> {
    const TIMEOUT_MS: u64 = 500;
    let app: App<()> = App::new_with_config(2, ())
        .with_connection_timeout(Some(Duration::from_millis(TIMEOUT_MS)))
        .with_websocket_route(
            "/ws",
            websocket_handler(|mut stream: WebsocketStream, _st: Arc<()>| {
                while let Ok(m) = stream.recv() {
                    if stream.send(Message::new(m.bytes().to_vec())).is_err() {
                        break;
                    }
                }
            }),
        );
    let running = match start_app(app, ip) {
        Ok(r) => r,
        Err(e) => return vec![Fail::new("harness-app", e)],
    };
    let mut fails = Vec::new();
    let mut sock = match connect_retry(running.addr, Duration::from_secs(5)) {
        Ok(s) => s,
        Err(e) => return vec![Fail::new("harness-connect", e.to_string())],
    };
    let _ = sock.set_nodelay(true);
    let _ = sock.write_all(b"GET /ws HTTP/1.1\r\nHost: c11\r\nUpgrade: websocket\r\nConnection: Upgrade\r\nSec-WebSocket-Key: dGhlIHNhbXBsZSBub25jZQ==\r\nSec-WebSocket-Version: 13\r\n\r\n");
    let _ = sock.set_read_timeout(Some(Duration::from_secs(5)));
    let mut buf = Vec::new();
    let mut tmp = [0u8; 4096];
    let head = loop {
        match parse_response(&buf, false) {
            RespParse::Complete(r) if r.status == 101 => break r.consumed,
            RespParse::Complete(r) => return vec![Fail::new("harness-handshake", format!("status {}", r.status))],
            RespParse::Invalid(e) => return vec![Fail::new("harness-handshake", e)],
            _ => {}
        }
        match sock.read(&mut tmp) {
            Ok(0) | Err(_) => return vec![Fail::new("harness-handshake", "EOF during handshake".to_string())],
            Ok(n) => buf.extend_from_slice(&tmp[..n]),
        }
    };
    buf.drain(..head);
    let payload = b"after a quiet spell".to_vec();
    let frame = ws::encode(&RFrame { fin: true, rsv: [false; 3], opcode: 1, mask: Some([7, 1, 9, 3]), payload: payload.clone() });
    let pause = Duration::from_millis(TIMEOUT_MS + 400);
    if inside_frame {
        let _ = sock.write_all(&frame[..9]);
        std::thread::sleep(pause);
        let _ = sock.write_all(&frame[9..]);
    } else {
        std::thread::sleep(pause);
        let _ = sock.write_all(&frame);
    }
    // expect the echo as one unmasked text/binary frame
    let t0 = Instant::now();
    let got = loop {
        match ws::decode(&buf) {
            Decoded::Frame(f, _) => break Some(f),
            Decoded::ReservedOpcode => break None,
            Decoded::Truncated { .. } => {}
        }
        if t0.elapsed() > Duration::from_secs(5) {
            break None;
        }
        match sock.read(&mut tmp) {
            Ok(0) => break None,
            Ok(n) => buf.extend_from_slice(&tmp[..n]),
            Err(_) => {}
        }
    };
    match got {
        Some(f) if f.opcode != 8 && f.payload == payload => {}
        Some(f) => fails.push(fail!(
            "quiet-client-not-served",
            "application with a {} ms connection timeout: a WebSocket client that stayed quiet for {:?} {} got opcode {} ({} payload bytes) instead of the echo of its message: the WebSocket connection inherited the HTTP timeout",
            TIMEOUT_MS, pause, if inside_frame { "in the middle of a frame" } else { "before its first frame" }, f.opcode, f.payload.len()
        )),
        None => fails.push(fail!("quiet-client-not-served", "application with a {} ms connection timeout: a WebSocket client that stayed quiet for {:?} {} got no echo of its message", TIMEOUT_MS, pause, if inside_frame { "in the middle of a frame" } else { "before its first frame" })),
    }
    let _ = sock.shutdown(std::net::Shutdown::Both);
    let _ = running.stop(Duration::from_secs(10));
    fails
}

pub fn replay(_ctx: &Ctx, kind: &str, case: &J) -> Vec<Fail> {
    if kind == "quiet" {
        return quiet_client(case["inside_frame"].as_bool().unwrap_or(false), "127.0.11.99");
    }
    match serde_json::from_value::<Case>(case.clone()) {
        Ok(c) => run_case(&c, "127.0.11.99"),
        Err(e) => vec![Fail::new("harness", format!("bad replay case: {}", e))],
    }
}
