//! C03 — no input can crash, wedge or exhaust a parser.
//! Every case runs one parser call in an isolated worker process (RLIMIT_AS, counting allocator,
//! CPU watchdog, small stack); worker death is attributed to the case and confirmed in a fresh worker.

use crate::common::ws;
use crate::engine::worker::{Outcome, Worker, ST_CPU, ST_DIED, ST_ERR, ST_OK, ST_PANIC};
use crate::engine::{hash_of, hex, pt, show, unhex, Ctx, Fail, Lcg};
use crate::props::targets::*;
use serde_json::{json, Value as J};
use std::sync::atomic::{AtomicUsize, Ordering};
use std::sync::Mutex;

#[derive(Clone)]
pub struct Case {
    pub target: u8,
    pub mode: u8,
    pub data: Vec<u8>,
    pub origin: &'static str,
}

fn stack_mb(target: u8) -> u32 {
    if target == T_CONFIG {
        8 // the config parser runs on the main thread
    } else {
        2 // what a pool worker thread has
    }
}

pub fn mem_bound(len: usize) -> u64 {
    1024 * len as u64 + (64 << 10)
}

/// Known finding K4: a `route a, b, c { … }` block becomes one route configuration *per pattern*, each with its own deep
/// copy of the block's settings (value strings, proxy target lists), so the memory for such a block is (patterns) x
/// (size of the settings), not a constant multiple of the input. The allowance that explains it: for every
/// `route` line with more than one pattern, (patterns) x three times the input's own size (bytes + 48 per list element).
pub fn config_route_allowance(data: &[u8]) -> u64 {
    // Robust against odd layouts (comments after the brace, a brace on the next line, stray `route x` lines): every line
    // that starts with `route` counts with its number of comma-separated patterns, and the settings it may copy are bounded
    // by the whole input (its bytes plus 48 bytes per list element). Inputs without a multi-pattern route line get nothing.
    let text = String::from_utf8_lossy(data);
    let settings = 3 * (data.len() as u64 + 48 * (data.iter().filter(|b| **b == b',').count() as u64 + 1)) + 512;
    let mut total = 0u64;
    for line in text.lines() {
        let l = line.trim_start();
        if l.starts_with("route") {
            let patterns = l.matches(',').count() as u64 + 1;
            if patterns > 1 {
                total = total.saturating_add(patterns.saturating_mul(settings));
            }
        }
    }
    total
}

pub fn norm_msg(m: &str) -> String {
    let mut out = String::new();
    let mut last_digit = false;
    for c in m.chars().take(34) {
        if c.is_ascii_digit() {
            if !last_digit {
                out.push('N');
            }
            last_digit = true;
        } else {
            last_digit = false;
            out.push(if c == ' ' { '_' } else { c });
        }
    }
    out
}

pub fn judge(c: &Case, o: &Outcome) -> Option<Fail> {
    let t = TARGET_NAMES[c.target as usize];
    let how = if c.mode == 1 { "byte-by-byte" } else { "all at once" };
    let shown = if c.data.len() > 300 { format!("{}… ({} bytes)", show(&c.data[..300]), c.data.len()) } else { show(&c.data) };
    match o.status {
        ST_PANIC => Some(fail!(format!("panic:{}:{}", t, norm_msg(&o.msg)), "{} parser panicked ({}) on input delivered {}: {}", t, o.msg, how, shown)),
        ST_DIED => Some(fail!(format!("abort:{}", t), "{} parser killed the process ({}) on input delivered {}: {}", t, o.msg, how, shown)),
        ST_CPU => Some(fail!(format!("loop:{}", t), "{} parser did not terminate within 10 s of CPU time on a {}-byte input delivered {}: {}", t, c.data.len(), how, shown)),
        ST_OK | ST_ERR => {
            let bound = mem_bound(c.data.len());
            if o.max_single > bound || o.peak > bound {
                let known_class = c.target == T_CONFIG && o.max_single <= bound && o.peak <= bound + config_route_allowance(&c.data);
                Some(fail!(
                    if known_class { "memory:config:route-patterns-x-settings".to_string() } else { format!("memory:{}", t) },
                    "{} parser allocated peak {} bytes (largest single request {}) for a {}-byte input (bound {}): {}",
                    t, o.peak, o.max_single, c.data.len(), bound, shown
                ))
            } else {
                None
            }
        }
        _ => None,
    }
}

// ------------------------------------------------------------------------------------------ seeds

fn seeds(target: u8) -> Vec<Vec<u8>> {
    let mut v: Vec<Vec<u8>> = Vec::new();
    match target {
        T_REQUEST => {
            v.push(b"GET /testpath?foo=bar HTTP/1.1\r\nHost: localhost\r\n\r\n".to_vec());
            v.push(b"GET / HTTP/1.1\r\nHost: localhost\r\nCookie: foo=bar; baz=qux\r\n\r\n".to_vec());
            v.push(b"GET /testpath HTTP/1.1\r\nHost: localhost\r\nX-Forwarded-For: 9.10.11.12,13.14.15.16\r\n\r\n".to_vec());
            v.push(b"POST /submit HTTP/1.1\r\nHost: a\r\nContent-Length: 11\r\nContent-Type: text/plain\r\n\r\nhello world".to_vec());
            v.push(b"OPTIONS * HTTP/1.0\r\n\r\n".to_vec());
            v.push("PUT /caf\u{e9} HTTP/1.1\r\nX-Name: J\u{fc}rgen \u{1f600}\r\nContent-Length: 2\r\nConnection: keep-alive\r\n\r\nok".as_bytes().to_vec());
            v.push(b"DELETE /a/b/c?x=1&y=2 HTTP/1.1\r\nHost: example.com:8080\r\nUpgrade: websocket\r\nSec-WebSocket-Key: dGhlIHNhbXBsZSBub25jZQ==\r\n\r\n".to_vec());
        }
        T_RESPONSE => {
            v.push(b"HTTP/1.1 404 Not Found\r\nContent-Length: 51\r\n\r\nThe requested resource was not found on the server.\r\n".to_vec());
            v.push(b"HTTP/1.1 200 OK\r\nTransfer-Encoding: chunked\r\nContent-Type: text/plain\r\n\r\n5\r\nhello\r\n6\r\n world\r\n0\r\n\r\n".to_vec());
            v.push(b"HTTP/1.1 204 No Content\r\nServer: Humphrey\r\n\r\n".to_vec());
            v.push(b"HTTP/1.0 301 Moved Permanently\r\nLocation: /new\r\nContent-Length: 0\r\n\r\n".to_vec());
            v.push("HTTP/1.1 200 OK\r\nX-Name: caf\u{e9}\r\nContent-Length: 3\r\n\r\nabc".as_bytes().to_vec());
            v.push(b"HTTP/1.1 200 OK\r\nTransfer-Encoding: chunked\r\n\r\nA\r\n0123456789\r\n1a\r\nabcdefghijklmnopqrstuvwxyz\r\n0\r\n\r\n".to_vec());
        }
        T_FRAME | T_MESSAGE | T_MESSAGE_NB => {
            let f = |fin, op, mask, n: usize| ws::encode(&ws::RFrame { fin, rsv: [false; 3], opcode: op, mask, payload: (0..n).map(|i| b'a' + (i % 26) as u8).collect() });
            v.push(f(true, 1, Some([0x69; 4]), 5));
            v.push(f(true, 2, None, 7));
            v.push(f(true, 1, Some([1, 2, 3, 4]), 256));
            v.push(f(true, 2, Some([9, 8, 7, 6]), 65536));
            v.push(f(true, 9, Some([0; 4]), 3));
            v.push(f(true, 8, Some([5; 4]), 2));
            let mut frag = f(false, 1, Some([0x69; 4]), 6);
            frag.extend(f(true, 9, Some([1; 4]), 0));
            frag.extend(f(true, 0, Some([0x42; 4]), 6));
            v.push(frag);
        }
        T_JSON => {
            v.push(r#"{"name":"w-henderson","favourites":[1,2.5,-3e10,true,null],"nested":{"a":{"b":[]}},"esc":"\né😀\\"}"#.as_bytes().to_vec());
            v.push(b"[1, 2, 3]".to_vec());
            v.push(b"  \"string\"  ".to_vec());
            v.push(b"-0.5e+3".to_vec());
            v.push(b"[[[[[[[[[[{}]]]]]]]]]]".to_vec());
            let dir = "/repo/humphrey-json/src/tests/spec/testcases";
            if let Ok(rd) = std::fs::read_dir(dir) {
                let mut files: Vec<_> = rd.filter_map(|e| e.ok()).map(|e| e.path()).collect();
                files.sort();
                for f in files {
                    if let Ok(b) = std::fs::read(&f) {
                        if b.len() <= 400 {
                            v.push(b);
                        }
                    }
                }
            }
        }
        T_CONFIG => {
            let dir = "/repo/humphrey-server/src/tests/testcases";
            for name in ["valid.conf", "hosts.conf", "routes.conf", "commas.conf", "value_error.conf", "eof_error.conf"] {
                if let Ok(b) = std::fs::read(format!("{}/{}", dir, name)) {
                    v.push(b);
                }
            }
            // `include` lines whose file cannot exist: what the parser does with the line itself (and with its mutants)
            v.push(b"server {\n  include \"/nonexistent-c03/a.conf\"\n  port 8080\n}\n".to_vec());
            v.push(b"include \"/nonexistent-c03/b.conf\"\nserver {\n  host \"a\" {\n    include \"/nonexistent-c03/c.conf\"\n  }\n}\n".to_vec());
            v.push(b"server {\n  address \"127.0.0.1\"\n  port 8080 # comment\n  threads 4\n  cache {\n    size 128M\n    time 60\n  }\n  host \"*.example.com\" {\n    route /a, /b/* {\n      directory \"/var/www\"\n    }\n  }\n  route /* {\n    proxy \"127.0.0.1:8000,127.0.0.1:8001\"\n    load_balancer_mode \"random\"\n  }\n}\n".to_vec());
        }
        _ => {}
    }
    v
}

fn alphabet(target: u8) -> Vec<Vec<u8>> {
    let s = |x: &[u8]| x.to_vec();
    match target {
        T_REQUEST => vec![s(b"G"), s(b"E"), s(b"T"), s(b" "), s(b"/"), s(b":"), s(b"\r"), s(b"\n"), s(b"0"), s(b"9"), s(&[0xc3]), s(&[0xa9]), s(&[0xff])],
        T_RESPONSE => vec![s(b"HTTP/1.1"), s(b"200"), s(b" "), s(b":"), s(b"\r"), s(b"\n"), s(b"0"), s(b"9"), s(b"a"), s(&[0xc3]), s(&[0xa9]), s(&[0xff]), s(b"Transfer-Encoding: chunked\r\n")],
        T_FRAME | T_MESSAGE | T_MESSAGE_NB => vec![s(&[0x81]), s(&[0x01]), s(&[0x89]), s(&[0x88]), s(&[0x00]), s(&[0x80]), s(&[0x7e]), s(&[0x7f]), s(&[0xfe]), s(&[0xff]), s(&[0x05]), s(&[0x41]), s(&[0x83])],
        T_JSON => vec![s(b"{"), s(b"}"), s(b"["), s(b"]"), s(b":"), s(b","), s(b"\""), s(b"\\"), s(b"u"), s(b"0"), s(b"-"), s(b"e"), s("é".as_bytes()), s(b"\\ud800"), s(b"\\udc00")],
        T_CONFIG => vec![s(b"server {"), s(b"\n"), s(b"}"), s(b"{"), s(b" "), s(b"route "), s(b"host "), s(b"\""), s(b"size"), s(b"5"), s(b"G"), s("é".as_bytes()), s(b"#"), s(b"a"), s(b"include ")],
        _ => vec![],
    }
}

fn replace_numbers(seed: &[u8], target: u8) -> Vec<Vec<u8>> {
    // replace each maximal run of ASCII digits (hex digits for chunk-size lines) by boundary and huge values
    const DEC: [&str; 14] = ["0", "1", "65535", "65536", "2147483648", "4294967296", "100000000000000", "9223372036854775807", "9223372036854775808", "18446744073709551615", "18446744073709551616", "-1", "+5", "1e5"];
    const HEX: [&str; 8] = ["0", "FFFFFFFF", "7FFFFFFFFFFFFFFF", "8000000000000000", "FFFFFFFFFFFFFFFF", "10000000000000000", "-1", "+a"];
    let mut out = Vec::new();
    let mut i = 0;
    while i < seed.len() {
        if seed[i].is_ascii_digit() {
            let mut j = i;
            while j < seed.len() && seed[j].is_ascii_digit() {
                j += 1;
            }
            for r in DEC.iter() {
                let mut m = seed[..i].to_vec();
                m.extend_from_slice(r.as_bytes());
                m.extend_from_slice(&seed[j..]);
                out.push(m);
            }
            if target == T_RESPONSE {
                for r in HEX.iter() {
                    let mut m = seed[..i].to_vec();
                    m.extend_from_slice(r.as_bytes());
                    m.extend_from_slice(&seed[j..]);
                    out.push(m);
                }
            }
            i = j;
        } else {
            i += 1;
        }
    }
    out
}

fn structural_mutants(seed: &[u8], target: u8, rng: &mut Lcg, budget: usize) -> Vec<Vec<u8>> {
    let mut out = replace_numbers(seed, target);
    // delete / double each CR, LF, colon, space, quote, brace
    for (i, &c) in seed.iter().enumerate() {
        if matches!(c, b'\r' | b'\n' | b':' | b' ' | b'"' | b'{' | b'}' | b',' | b'[' | b']') {
            let mut d = seed.to_vec();
            d.remove(i);
            out.push(d);
            let mut d = seed.to_vec();
            d.insert(i, c);
            out.push(d);
        }
    }
    // quoted strings replaced by degenerate ones (lone quote, empty, unterminated)
    {
        let mut i = 0;
        while i < seed.len() {
            if seed[i] == b'"' {
                if let Some(j) = seed[i + 1..].iter().position(|&c| c == b'"') {
                    let j = i + 1 + j;
                    for r in [&b"\""[..], b"\"\"", b"\"a", b"a\"", b"\"\"\""] {
                        let mut m = seed[..i].to_vec();
                        m.extend_from_slice(r);
                        m.extend_from_slice(&seed[j + 1..]);
                        out.push(m);
                    }
                    i = j + 1;
                    continue;
                }
            }
            i += 1;
        }
    }
    // multi-byte and invalid UTF-8 at every position (bounded by budget through sampling on long seeds)
    let step = (seed.len() / 120).max(1);
    for i in (0..=seed.len()).step_by(step) {
        for ins in [&"é".as_bytes()[..], "😀".as_bytes(), &[0xff], &[0xc3], &[0x00]] {
            let mut d = seed.to_vec();
            for (k, b) in ins.iter().enumerate() {
                d.insert(i + k, *b);
            }
            out.push(d);
        }
    }
    // frames: patch length bytes
    if matches!(target, T_FRAME | T_MESSAGE | T_MESSAGE_NB) && seed.len() >= 2 {
        for l in [0u8, 1, 125, 126, 127] {
            for m in [0u8, 0x80] {
                let mut d = seed.to_vec();
                d[1] = m | l;
                out.push(d.clone());
                if l == 127 {
                    for ext in [[0u8, 0, 0, 0, 0, 0, 0, 5], [0, 0, 0, 0, 0x80, 0, 0, 0], [0, 0, 0x5a, 0xf3, 0x10, 0x7a, 0x40, 0], [0x7f, 0xff, 0xff, 0xff, 0xff, 0xff, 0xff, 0xff], [0xff; 8]] {
                        let mut e = d[..2].to_vec();
                        e.extend_from_slice(&ext);
                        e.extend_from_slice(&seed[2..seed.len().min(40)]);
                        out.push(e);
                    }
                }
                if l == 126 {
                    for ext in [[0u8, 0], [0, 125], [0xff, 0xff]] {
                        let mut e = d[..2].to_vec();
                        e.extend_from_slice(&ext);
                        e.extend_from_slice(&seed[2..seed.len().min(40)]);
                        out.push(e);
                    }
                }
            }
        }
    }
    // random byte flips
    for _ in 0..budget / 4 {
        let mut d = seed.to_vec();
        if d.is_empty() {
            break;
        }
        let k = 1 + (rng.next() % 3) as usize;
        for _ in 0..k {
            let i = (rng.next() % d.len() as u64) as usize;
            d[i] = rng.next() as u8;
        }
        out.push(d);
    }
    if out.len() > budget {
        // deterministic subsample that keeps the number replacements (first block)
        let keep = budget;
        let stride = out.len() as f64 / keep as f64;
        out = (0..keep).map(|i| out[(i as f64 * stride) as usize].clone()).collect();
    }
    out
}

fn nesting(target: u8, deep: bool) -> Vec<Vec<u8>> {
    let mut v = Vec::new();
    match target {
        T_JSON => {
            for &n in &[10usize, 100, 255, 256, 257, 1000, 10_000, 100_000] {
                if n > 10_000 && !deep {
                    continue;
                }
                v.push("[".repeat(n).into_bytes());
                v.push("{\"a\":".repeat(n).into_bytes());
                let mut closed = "[".repeat(n);
                closed.push_str(&"]".repeat(n));
                v.push(closed.into_bytes());
            }
        }
        T_CONFIG => {
            for &n in &[10usize, 100, 1000, 10_000, 16_000, 30_000, 100_000] {
                if n > 30_000 && !deep {
                    continue;
                }
                let mut s = String::from("server {\n");
                s.push_str(&"a {\n".repeat(n));
                v.push(s.clone().into_bytes());
                s.push_str(&"}\n".repeat(n + 1));
                v.push(s.into_bytes());
                let mut s = String::from("server {\n");
                s.push_str(&"route /a {\n".repeat(n.min(20_000)));
                v.push(s.into_bytes());
            }
        }
        T_REQUEST | T_RESPONSE => {
            // many header lines / very long line
            for &n in &[100usize, 10_000] {
                let mut s = if target == T_REQUEST { b"GET / HTTP/1.1\r\n".to_vec() } else { b"HTTP/1.1 200 OK\r\n".to_vec() };
                for i in 0..n {
                    s.extend_from_slice(format!("X-{}: v\r\n", i % 7).as_bytes());
                }
                s.extend_from_slice(b"\r\n");
                v.push(s);
            }
            let mut s = if target == T_REQUEST { b"GET /".to_vec() } else { b"HTTP/1.1 200 ".to_vec() };
            s.extend(std::iter::repeat(b'a').take(60_000));
            v.push(s);
        }
        _ => {}
    }
    v
}

fn skip_config(data: &[u8]) -> bool {
    let s = String::from_utf8_lossy(data);
    if s.contains("/dev/") || s.contains("/proc/") || s.contains("/sys/") {
        return true;
    }
    // an `include` line is kept only when it cannot name a file that exists: its value is not a complete quoted string
    // (lone quote, unterminated, unquoted), is empty, or points below a directory that does not exist
    s.split(|c| c == '\n' || c == '\r').any(|line| match line.find("include") {
        None => false,
        Some(k) => {
            let v = line[k + 7..].trim();
            let harmless = if line.contains('#') {
                false
            } else if v.len() >= 2 && v.starts_with('"') && v.ends_with('"') {
                let inner = &v[1..v.len() - 1];
                inner.is_empty() || inner == "\"" || (inner.starts_with("/nonexistent-c03/") && !inner.contains(".."))
            } else {
                true
            };
            !harmless
        }
    })
}

/// the input gets past the first token of its grammar (computed from the bytes alone)
fn nontrivial(target: u8, data: &[u8]) -> bool {
    match target {
        T_REQUEST => {
            if let Some(p) = data.iter().position(|&c| c == b'\n') {
                let line = String::from_utf8_lossy(&data[..p]);
                let parts: Vec<&str> = line.split(' ').collect();
                parts.len() >= 3 && ["GET", "POST", "PUT", "DELETE", "OPTIONS"].contains(&parts[0])
            } else {
                false
            }
        }
        T_RESPONSE => {
            if let Some(p) = data.iter().position(|&c| c == b'\n') {
                let line = String::from_utf8_lossy(&data[..p]);
                let parts: Vec<&str> = line.splitn(3, ' ').collect();
                parts.len() == 3 && parts[1].parse::<u16>().is_ok()
            } else {
                false
            }
        }
        T_FRAME | T_MESSAGE | T_MESSAGE_NB => data.len() >= 2 && !ws::is_reserved_opcode(data[0]),
        T_JSON => {
            let t: Vec<u8> = data.iter().copied().skip_while(|c| b" \t\r\n".contains(c)).collect();
            t.len() > 1 && b"{[\"-0123456789tfn".contains(&t[0])
        }
        T_CONFIG => String::from_utf8_lossy(data).lines().any(|l| l.split('#').next().unwrap_or("").trim() == "server {"),
        _ => false,
    }
}

pub fn build_cases(ctx: &Ctx, targets: &[u8]) -> Vec<Case> {
    let mut cases: Vec<Case> = Vec::new();
    let quick = ctx.tier == crate::engine::Tier::Quick;
    let mutant_budget = ctx.tier.pick(8000usize, 60_000usize);
    for &t in targets {
        let sock = matches!(t, T_MESSAGE | T_MESSAGE_NB);
        let mut rng = Lcg(pt::mix(ctx.seed, 300 + t as u64));
        let sds = seeds(t);
        let mut local: Vec<(Vec<u8>, &'static str)> = Vec::new();
        // every prefix of every seed
        for s in &sds {
            let lim = if sock { 80 } else { 700 };
            if s.len() <= lim {
                for k in 0..=s.len() {
                    local.push((s[..k].to_vec(), "seed-prefix"));
                }
            } else {
                // long seeds: every prefix of the first 300 bytes, then sampled
                for k in 0..=300.min(s.len()) {
                    local.push((s[..k].to_vec(), "seed-prefix"));
                }
                for _ in 0..100 {
                    let k = (rng.next() % s.len() as u64) as usize;
                    local.push((s[..k].to_vec(), "seed-prefix"));
                }
                local.push((s.clone(), "seed-prefix"));
            }
        }
        // structure-aware mutants
        let per_seed = (mutant_budget / sds.len().max(1)).max(if sock { 10 } else { 40 });
        for s in &sds {
            if s.len() > 5000 && quick {
                continue;
            }
            for m in structural_mutants(s, t, &mut rng, if sock { per_seed / 6 } else { per_seed }) {
                local.push((m, "mutant"));
            }
        }
        for m in nesting(t, !quick) {
            local.push((m, "nesting"));
        }
        // short strings over the protocol alphabet: exhaustive up to a length, random above
        let alpha = alphabet(t);
        let k = alpha.len();
        let ex_len = if sock { 2 } else if quick { 4 } else { 5 };
        for len in 0..=ex_len {
            let total = k.pow(len as u32);
            for idx in 0..total {
                let mut s = Vec::new();
                let mut x = idx;
                for _ in 0..len {
                    s.extend_from_slice(&alpha[x % k]);
                    x /= k;
                }
                local.push((s, "alphabet-exhaustive"));
            }
        }
        for _ in 0..ctx.tier.pick(if sock { 300 } else { 12_000 }, if sock { 5000 } else { 200_000 }) {
            let len = 4 + (rng.next() % 12) as usize;
            let mut s = Vec::new();
            for _ in 0..len {
                s.extend_from_slice(&alpha[(rng.next() % k as u64) as usize]);
            }
            local.push((s, "alphabet-random"));
        }
        // random bytes
        for _ in 0..ctx.tier.pick(if sock { 150 } else { 6000 }, if sock { 3000 } else { 100_000 }) {
            let len = (rng.next() % 64) as usize;
            local.push((rng.bytes(len), "random-bytes"));
        }
        for (data, origin) in local {
            if t == T_CONFIG && skip_config(&data) {
                ctx.exclude("config input with an `include` line that could name an existing file, or a device path (operator error, not a parser defect)", 1);
                continue;
            }
            let modes: &[u8] = if matches!(t, T_JSON | T_CONFIG) { &[0] } else if sock && data.len() > 300 { &[0] } else { &[0, 1] };
            for &mode in modes {
                cases.push(Case { target: t, mode, data: data.clone(), origin });
            }
        }
        if !sock && !quick {
            ctx.exhaustive_space(&format!("{}: all strings of <=5 symbols over a {}-symbol protocol alphabet", TARGET_NAMES[t as usize], k));
        } else if !sock {
            ctx.exhaustive_space(&format!("{}: all strings of <=4 symbols over a {}-symbol protocol alphabet; every prefix of every seed message", TARGET_NAMES[t as usize], k));
        }
    }
    cases
}

pub fn run_cases(ctx: &Ctx, cases: Vec<Case>) {
    let next = AtomicUsize::new(0);
    let found: Mutex<Vec<(Fail, Case)>> = Mutex::new(Vec::new());
    let cases = &cases;
    let nworkers = 16;
    std::thread::scope(|s| {
        for _ in 0..nworkers {
            let next = &next;
            let found = &found;
            s.spawn(move || {
                let mut w = Worker::spawn();
                loop {
                    let i = next.fetch_add(1, Ordering::SeqCst);
                    if i >= cases.len() {
                        break;
                    }
                    let c = &cases[i];
                    let mut o = w.run(c.target, c.mode, stack_mb(c.target), &c.data);
                    if o.status == ST_DIED || o.status == ST_CPU {
                        // confirm alone in a fresh worker
                        let mut w2 = Worker::spawn();
                        let o2 = w2.run(c.target, c.mode, stack_mb(c.target), &c.data);
                        if o2.status != o.status {
                            ctx.label("unconfirmed-worker-death", 1);
                        }
                        o = o2;
                    }
                    let nt = nontrivial(c.target, &c.data);
                    let tname = TARGET_NAMES[c.target as usize];
                    ctx.case(hash_of(&(c.target, c.mode, &c.data)), nt, &[&format!("{}:{}", tname, c.origin), if o.status == ST_OK { "returned-value" } else { "returned-error" }]);
                    if nt {
                        ctx.sample(&format!("{}:{}", tname, c.origin), || json!({"target": tname, "mode": if c.mode == 1 { "byte-by-byte" } else { "all-at-once" }, "input": show(&c.data[..c.data.len().min(200)]), "len": c.data.len(), "outcome": if o.status == ST_OK { "value" } else { "error" }, "peak_alloc": o.peak}));
                    }
                    if let Some(f) = judge(c, &o) {
                        if !ctx.tolerate(&f) {
                            let mut g = found.lock().unwrap();
                            if !g.iter().any(|(x, _)| x.sig == f.sig) {
                                g.push((f, c.clone()));
                            }
                        }
                    }
                }
            });
        }
    });
    // minimise each finding a little: try shorter prefixes / byte removal while the same signature persists
    let mut w = Worker::spawn();
    for (f, c) in found.into_inner().unwrap() {
        let (fmin, cmin) = minimise(&mut w, f, c);
        ctx.violation(fmin, "parser", case_json(&cmin));
    }
}

fn minimise(w: &mut Worker, f: Fail, c: Case) -> (Fail, Case) {
    let mut best = (f, c);
    let mut budget = 400;
    let mut progress = true;
    while progress && budget > 0 {
        progress = false;
        let n = best.1.data.len();
        let mut cands: Vec<Vec<u8>> = Vec::new();
        // chunk removal
        let mut sz = n / 2;
        while sz >= 1 {
            let mut i = 0;
            while i + sz <= n {
                let mut d = best.1.data.clone();
                d.drain(i..i + sz);
                cands.push(d);
                i += sz;
            }
            if cands.len() > 60 {
                break;
            }
            sz /= 2;
        }
        for d in cands {
            if budget == 0 {
                break;
            }
            budget -= 1;
            let c2 = Case { data: d, ..best.1.clone() };
            let o = w.run(c2.target, c2.mode, stack_mb(c2.target), &c2.data);
            if let Some(f2) = judge(&c2, &o) {
                if f2.sig == best.0.sig {
                    best = (f2, c2);
                    progress = true;
                    break;
                }
            }
        }
    }
    best
}

fn case_json(c: &Case) -> J {
    json!({"target": TARGET_NAMES[c.target as usize], "mode": c.mode, "data": hex(&c.data), "shown": show(&c.data[..c.data.len().min(300)]), "origin": c.origin})
}

pub fn run(ctx: &Ctx) {
    ctx.rule("per parser (HTTP request, HTTP response, WebSocket frame, WebSocket message blocking and non-blocking over a loopback socket pair, JSON, config): every prefix of every seed message, structure-aware mutants (numbers -> boundary/huge values, CR/LF/colon/space/quote/brace deleted or doubled, 2- and 4-byte UTF-8 and invalid UTF-8 at every position, frame length fields patched), deep nesting, bounded-exhaustive and random strings over a protocol alphabet, random bytes; each delivered all-at-once and byte-by-byte. Non-trivial = the input gets past the first token of its grammar (valid start line / complete frame header with a legal opcode / `server {` present / first JSON token); distinct by (target, mode, bytes)");
    ctx.assume("each call runs in a child process under RLIMIT_AS 2 GiB on a 2 MiB stack (8 MiB for the config parser), with a counting global allocator; memory bound = 1024 x input length + 64 KiB for both the peak and the largest single request (honest worst case measured: ~450x for JSON `{},` runs because of with_capacity(16)); termination bound = 10 s CPU time");
    let targets = [T_REQUEST, T_RESPONSE, T_FRAME, T_MESSAGE, T_MESSAGE_NB, T_JSON, T_CONFIG];
    let cases = build_cases(ctx, &targets);
    run_cases(ctx, cases);
}

pub fn replay(_ctx: &Ctx, _kind: &str, case: &J) -> Vec<Fail> {
    let t = TARGET_NAMES.iter().position(|n| Some(*n) == case["target"].as_str()).unwrap_or(0) as u8;
    let c = Case { target: t, mode: case["mode"].as_u64().unwrap_or(0) as u8, data: unhex(case["data"].as_str().unwrap_or("")), origin: "replay" };
    let mut w = Worker::spawn();
    let o = w.run(c.target, c.mode, stack_mb(c.target), &c.data);
    judge(&c, &o).into_iter().collect()
}
