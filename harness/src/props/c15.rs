//! C15 — config files load into exactly what they describe, or are rejected with a line.
//! A ConfModel is rendered by a randomising printer (layout, comments, key order, include splitting);
//! the loaded Config must equal the model. Single-fault mutants must be rejected (file + line for
//! syntax-level faults), never crash, never be accepted with a different meaning.

use crate::engine::{catch, hash_of, pt, Ctx, Fail, Lcg};
use humphrey_server::config::tree::parse_conf;
use humphrey_server::config::{BlacklistMode, Config, LoadBalancerMode, RouteType};
use humphrey_server::logger::LogLevel;
use proptest::prelude::*;
use proptest::strategy::ValueTree;
use serde::{Deserialize, Serialize};
use serde_json::{json, Value as J};
use std::path::PathBuf;

#[derive(Clone, Debug, Serialize, Deserialize, PartialEq)]
pub enum RouteKind {
    File(String),
    Directory(String),
    Proxy(Vec<String>, Option<bool>), // Some(true) = random, Some(false) = round-robin spelled out, None = omitted
    Redirect(String),
    WsOnly,
}

#[derive(Clone, Debug, Serialize, Deserialize, PartialEq)]
pub struct RouteM {
    pub patterns: Vec<String>,
    pub kind: RouteKind,
    pub websocket: Option<String>,
}

#[derive(Clone, Debug, Serialize, Deserialize, PartialEq)]
pub struct HostM {
    pub name: String,
    pub quoted: bool,
    pub routes: Vec<RouteM>,
}

#[derive(Clone, Debug, Serialize, Deserialize, PartialEq)]
pub struct ConfM {
    pub address: Option<String>,
    pub port: Option<u16>,
    pub threads: Option<usize>,
    pub timeout: Option<u64>,
    pub websocket: Option<String>,
    /// (blacklist addresses if a file is configured, mode: Some(true)=forbidden Some(false)=block None=omitted)
    pub blacklist: Option<(Option<Vec<String>>, Option<bool>)>,
    /// (level, console, file)
    pub log: Option<(Option<String>, Option<bool>, Option<String>)>,
    /// ((number, unit) , time)
    pub cache: Option<(Option<(u64, String)>, Option<usize>)>,
    pub hosts: Vec<HostM>,
    pub routes: Vec<RouteM>,
    /// unknown keys / sections sprinkled in as noise
    pub noise: u8,
}

// ------------------------------------------------------------------------------------------ printer

#[derive(Clone, Debug)]
enum Item {
    Kv(String, String),
    Section(String, Vec<Item>),
}

#[derive(Clone, Debug, PartialEq)]
pub enum LineKind {
    ServerOpen,
    Open { plain: bool, route: bool, quoted_host: bool },
    Close,
    Kv { key: String, value: String },
    Include,
    Other,
}

#[derive(Clone, Debug)]
pub struct Line {
    pub text: String,
    pub kind: LineKind,
    /// inside a section the loader ignores (tls / plugins / unknown names): its keys are not validated
    pub noise: bool,
}

#[derive(Clone, Debug)]
pub struct Rendered {
    /// files[0] is the main file
    pub files: Vec<(PathBuf, Vec<Line>)>,
    pub has_include: bool,
}

fn q(s: &str) -> String {
    format!("\"{}\"", s)
}

fn route_items(r: &RouteM) -> Item {
    let mut kids = Vec::new();
    match &r.kind {
        RouteKind::File(p) => kids.push(Item::Kv("file".into(), q(p))),
        RouteKind::Directory(p) => kids.push(Item::Kv("directory".into(), q(p))),
        RouteKind::Proxy(t, mode) => {
            kids.push(Item::Kv("proxy".into(), q(&t.join(","))));
            match mode {
                Some(true) => kids.push(Item::Kv("load_balancer_mode".into(), q("random"))),
                Some(false) => kids.push(Item::Kv("load_balancer_mode".into(), q("round-robin"))),
                None => {}
            }
        }
        RouteKind::Redirect(t) => kids.push(Item::Kv("redirect".into(), q(t))),
        RouteKind::WsOnly => {}
    }
    if let Some(w) = &r.websocket {
        kids.push(Item::Kv("websocket".into(), q(w)));
    }
    // the separator spelling is layout: `/a, /b`, `/a,/b`, `/a ,  /b` denote the same list
    let h = r.patterns.iter().map(|p| p.len()).sum::<usize>() + r.patterns.len();
    let sep = [", ", ",", " , ", ",  "][h % 4];
    Item::Section(format!("route {}", r.patterns.join(sep)), kids)
}

fn shuffle<T>(v: &mut Vec<T>, rng: &mut Lcg) {
    for i in (1..v.len()).rev() {
        let j = (rng.next() % (i as u64 + 1)) as usize;
        v.swap(i, j);
    }
}

/// merge `fixed` (order preserved) with `free` (shuffled) at random positions
fn interleave(fixed: Vec<Item>, mut free: Vec<Item>, rng: &mut Lcg) -> Vec<Item> {
    shuffle(&mut free, rng);
    let mut out = fixed;
    for f in free {
        let at = (rng.next() % (out.len() as u64 + 1)) as usize;
        out.insert(at, f);
    }
    out
}

fn model_items(m: &ConfM, rng: &mut Lcg, blacklist_path: &Option<String>) -> Vec<Item> {
    let mut free = Vec::new();
    if let Some(a) = &m.address {
        free.push(Item::Kv("address".into(), q(a)));
    }
    if let Some(p) = m.port {
        free.push(Item::Kv("port".into(), p.to_string()));
    }
    if let Some(t) = m.threads {
        free.push(Item::Kv("threads".into(), t.to_string()));
    }
    if let Some(t) = m.timeout {
        free.push(Item::Kv("timeout".into(), t.to_string()));
    }
    if let Some(w) = &m.websocket {
        free.push(Item::Kv("websocket".into(), q(w)));
    }
    if let Some((list, mode)) = &m.blacklist {
        let mut kids = Vec::new();
        if list.is_some() {
            kids.push(Item::Kv("file".into(), q(blacklist_path.as_ref().unwrap())));
        }
        match mode {
            Some(true) => kids.push(Item::Kv("mode".into(), q("forbidden"))),
            Some(false) => kids.push(Item::Kv("mode".into(), q("block"))),
            None => {}
        }
        shuffle(&mut kids, rng);
        free.push(Item::Section("blacklist".into(), kids));
    }
    if let Some((level, console, file)) = &m.log {
        let mut kids = Vec::new();
        if let Some(l) = level {
            kids.push(Item::Kv("level".into(), q(l)));
        }
        if let Some(c) = console {
            kids.push(Item::Kv("console".into(), c.to_string()));
        }
        if let Some(f) = file {
            kids.push(Item::Kv("file".into(), q(f)));
        }
        shuffle(&mut kids, rng);
        free.push(Item::Section("log".into(), kids));
    }
    if let Some((size, time)) = &m.cache {
        let mut kids = Vec::new();
        if let Some((n, u)) = size {
            kids.push(Item::Kv("size".into(), format!("{}{}", n, u)));
        }
        if let Some(t) = time {
            kids.push(Item::Kv("time".into(), t.to_string()));
        }
        shuffle(&mut kids, rng);
        free.push(Item::Section("cache".into(), kids));
    }
    // noise: unknown keys and sections must not influence the result
    if m.noise & 1 != 0 {
        free.push(Item::Kv("favourite_colour".into(), q("blue")));
    }
    if m.noise & 2 != 0 {
        free.push(Item::Section("tls".into(), vec![Item::Kv("cert_file".into(), q("cert.pem")), Item::Kv("key_file".into(), q("key.pem")), Item::Kv("force".into(), "false".into())]));
    }
    if m.noise & 4 != 0 {
        free.push(Item::Section("plugins".into(), vec![Item::Section("php".into(), vec![Item::Kv("library".into(), q("php.so")), Item::Kv("port".into(), "9000".into())])]));
    }
    if m.noise & 8 != 0 {
        free.push(Item::Section("zzz".into(), vec![Item::Kv("port".into(), "1".into()), Item::Section("deeper".into(), vec![Item::Kv("threads".into(), "7".into())])]));
    }
    // hosts and routes keep their relative order
    let mut fixed = Vec::new();
    let mut hi = 0;
    let mut ri = 0;
    while hi < m.hosts.len() || ri < m.routes.len() {
        let take_host = if hi >= m.hosts.len() { false } else if ri >= m.routes.len() { true } else { rng.next() % 2 == 0 };
        if take_host {
            let h = &m.hosts[hi];
            hi += 1;
            let name = if h.quoted { q(&h.name) } else { h.name.clone() };
            fixed.push(Item::Section(format!("host {}", name), h.routes.iter().map(route_items).collect()));
        } else {
            fixed.push(route_items(&m.routes[ri]));
            ri += 1;
        }
    }
    interleave(fixed, free, rng)
}

struct Printer<'a> {
    rng: &'a mut Lcg,
    dir: PathBuf,
    files: Vec<(PathBuf, Vec<Line>)>,
    include_budget: usize,
    /// a content-free file (comments and blank lines) that is included at up to three places: including one file more than
    /// once is not a cycle
    shared: Option<PathBuf>,
    shared_left: usize,
    plain_layout: bool,
}

impl<'a> Printer<'a> {
    fn indent(&mut self, depth: usize) -> String {
        if self.plain_layout {
            return "    ".repeat(depth);
        }
        match self.rng.next() % 5 {
            0 => "\t".repeat(depth),
            1 => " ".repeat(depth * 2),
            2 => " ".repeat((self.rng.next() % 9) as usize),
            3 => "\t \t".to_string(),
            _ => "    ".repeat(depth),
        }
    }
    fn comment(&mut self) -> String {
        if self.plain_layout {
            return String::new();
        }
        match self.rng.next() % 6 {
            0 => " # a comment".into(),
            1 => "  #comment with \"quotes\" and { braces }".into(),
            2 => "#x".into(),
            3 => "   ".into(),
            _ => String::new(),
        }
    }
    fn filler(&mut self, out: &mut Vec<Line>) {
        if self.plain_layout {
            return;
        }
        match self.rng.next() % 8 {
            0 => out.push(Line { text: String::new(), kind: LineKind::Other, noise: false }),
            1 => out.push(Line { text: "   # full-line comment { not a section".into(), kind: LineKind::Other, noise: false }),
            2 => out.push(Line { text: "\t".into(), kind: LineKind::Other, noise: false }),
            _ => {}
        }
    }
    fn items(&mut self, items: &[Item], depth: usize, out: &mut Vec<Line>, include_depth: usize, noise: bool) {
        // optionally move a contiguous run of children into an include file
        let mut i = 0;
        let split = if self.include_budget > 0 && items.len() >= 1 && include_depth < 3 && self.rng.next() % 3 == 0 {
            let a = (self.rng.next() % items.len() as u64) as usize;
            let b = a + 1 + (self.rng.next() % (items.len() - a) as u64) as usize;
            self.include_budget -= 1;
            Some((a, b))
        } else {
            None
        };
        while i < items.len() {
            if let Some((a, b)) = split {
                if i == a {
                    let path = self.dir.join(format!("part{}.conf", self.files.len()));
                    let slot = self.files.len();
                    self.files.push((path.clone(), Vec::new()));
                    let mut lines = Vec::new();
                    self.items(&items[a..b], 0, &mut lines, include_depth + 1, noise);
                    self.files[slot].1 = lines;
                    let ind = self.indent(depth);
                    let c = self.comment();
                    let sp = if self.plain_layout { " ".to_string() } else { " ".repeat(1 + (self.rng.next() % 3) as usize) };
                    out.push(Line { text: format!("{}include{}\"{}\"{}", ind, sp, path.display(), c), kind: LineKind::Include, noise });
                    i = b;
                    continue;
                }
            }
            self.filler(out);
            if self.shared_left > 0 && self.rng.next() % 5 == 0 {
                if let Some(path) = self.shared.clone() {
                    self.shared_left -= 1;
                    let ind = self.indent(depth);
                    let c = self.comment();
                    out.push(Line { text: format!("{}include \"{}\"{}", ind, path.display(), c), kind: LineKind::Include, noise });
                }
            }
            match &items[i] {
                Item::Kv(k, v) => {
                    let ind = self.indent(depth);
                    let sp = if self.plain_layout { " ".to_string() } else { " ".repeat(1 + (self.rng.next() % 4) as usize) };
                    let c = self.comment();
                    out.push(Line { text: format!("{}{}{}{}{}", ind, k, sp, v, c), kind: LineKind::Kv { key: k.clone(), value: v.clone() }, noise });
                }
                Item::Section(h, kids) => {
                    let ind = self.indent(depth);
                    let c = self.comment();
                    let sp = if self.plain_layout { " ".to_string() } else { " ".repeat(1 + (self.rng.next() % 2) as usize) };
                    let route = h.starts_with("route ");
                    let host = h.starts_with("host ");
                    out.push(Line { text: format!("{}{}{}{{{}", ind, h, sp, c), kind: LineKind::Open { plain: !route && !host, route, quoted_host: host && h.ends_with('"') }, noise });
                    let kid_noise = noise || ["tls", "plugins", "zzz"].contains(&h.as_str());
                    self.items(kids, depth + 1, out, include_depth, kid_noise);
                    self.filler(out);
                    let ind = self.indent(depth);
                    let c = self.comment();
                    out.push(Line { text: format!("{}}}{}", ind, c), kind: LineKind::Close, noise });
                }
            }
            i += 1;
        }
    }
}

pub fn render(m: &ConfM, seed: u64, dir: &PathBuf, includes: bool, plain: bool) -> Rendered {
    let mut rng = Lcg(seed);
    let blacklist_path = m.blacklist.as_ref().and_then(|(l, _)| l.as_ref()).map(|_| dir.join("blacklist.txt").display().to_string());
    let items = model_items(m, &mut rng, &blacklist_path);
    let main = dir.join("main.conf");
    let mut p = Printer { rng: &mut rng, dir: dir.clone(), files: vec![(main, Vec::new())], include_budget: if includes { 3 } else { 0 }, plain_layout: plain, shared: None, shared_left: 0 };
    if includes && p.rng.next() % 2 == 0 {
        let path = dir.join("shared-comments.conf");
        let lines = vec![
            Line { text: "# included from several places".into(), kind: LineKind::Other, noise: false },
            Line { text: String::new(), kind: LineKind::Other, noise: false },
            Line { text: "   # nothing but comments".into(), kind: LineKind::Other, noise: false },
        ];
        p.files.push((path.clone(), lines));
        p.shared = Some(path);
        p.shared_left = 3;
    }
    let mut lines = Vec::new();
    p.filler(&mut lines);
    if !plain && p.rng.next() % 3 == 0 {
        lines.push(Line { text: "# leading comment".into(), kind: LineKind::Other, noise: false });
    }
    let ind = p.indent(0);
    let c = p.comment();
    lines.push(Line { text: format!("{}server {{{}", ind, c), kind: LineKind::ServerOpen, noise: false });
    p.items(&items, 1, &mut lines, 0, false);
    let c = p.comment();
    lines.push(Line { text: format!("}}{}", c), kind: LineKind::Close, noise: false });
    p.files[0].1 = lines;
    let has_include = p.files.len() > 1;
    Rendered { files: p.files, has_include }
}

fn text_of(lines: &[Line], newline_at_end: bool) -> String {
    let mut s = lines.iter().map(|l| l.text.as_str()).collect::<Vec<_>>().join("\n");
    if newline_at_end {
        s.push('\n');
    }
    s
}

fn write_files(r: &Rendered, m: &ConfM, dir: &PathBuf) {
    for (p, lines) in r.files.iter().skip(1) {
        std::fs::write(p, text_of(lines, true)).unwrap();
    }
    if let Some((Some(list), _)) = &m.blacklist {
        std::fs::write(dir.join("blacklist.txt"), list.join("\n")).unwrap();
    }
}

// ------------------------------------------------------------------------------------------ oracle

fn load(main_text: &str, main_name: &str) -> Result<Result<Config, String>, String> {
    catch(|| match parse_conf(main_text, main_name) {
        Ok(tree) => Config::from_tree(tree).map_err(|e| format!("validation: {}", e)),
        Err(e) => Err(format!("syntax: {}", e)),
    })
}

fn expected_routes(rs: &[RouteM]) -> Vec<(String, RouteType, Option<String>, Option<(Vec<String>, bool)>, Option<String>)> {
    let mut out = Vec::new();
    for r in rs {
        for p in &r.patterns {
            let (t, path, lb) = match &r.kind {
                RouteKind::File(f) => (RouteType::File, Some(f.clone()), None),
                RouteKind::Directory(d) => (RouteType::Directory, Some(d.clone()), None),
                RouteKind::Proxy(t, m) => (RouteType::Proxy, None, Some((t.clone(), m.unwrap_or(false)))),
                RouteKind::Redirect(t) => (RouteType::Redirect, Some(t.clone()), None),
                RouteKind::WsOnly => (RouteType::ExclusiveWebSocket, None, None),
            };
            out.push((p.clone(), t, path, lb, r.websocket.clone()));
        }
    }
    out
}

fn actual_routes(rs: &[humphrey_server::config::RouteConfig]) -> Vec<(String, RouteType, Option<String>, Option<(Vec<String>, bool)>, Option<String>)> {
    rs.iter()
        .map(|r| {
            let lb = r.load_balancer.as_ref().map(|l| {
                let g = l.lock().unwrap();
                (g.targets.clone(), g.mode == LoadBalancerMode::Random)
            });
            (r.matches.clone(), r.route_type, r.path.clone(), lb, r.websocket_proxy.clone())
        })
        .collect()
}

fn compare(m: &ConfM, c: &Config) -> Vec<Fail> {
    let mut f = Vec::new();
    let mut diff = |field: &str, got: String, want: String| {
        if got != want {
            f.push(fail!(format!("field:{}", field), "loaded {} = {} but the file describes {}", field, got, want));
        }
    };
    diff("address", c.address.clone(), m.address.clone().unwrap_or("0.0.0.0".into()));
    diff("port", c.port.to_string(), m.port.unwrap_or(80).to_string());
    diff("threads", c.threads.to_string(), m.threads.unwrap_or(32).to_string());
    let want_timeout = m.timeout.filter(|t| *t > 0);
    diff("timeout", format!("{:?}", c.connection_timeout.map(|d| d.as_secs())), format!("{:?}", want_timeout));
    diff("websocket", format!("{:?}", c.default_websocket_proxy), format!("{:?}", m.websocket));
    let (want_list, want_mode) = match &m.blacklist {
        Some((l, mode)) => (l.clone().unwrap_or_default(), mode.unwrap_or(false)),
        None => (Vec::new(), false),
    };
    let want_ips: Vec<std::net::IpAddr> = want_list.iter().map(|s| s.parse().unwrap()).collect();
    diff("blacklist.list", format!("{:?}", c.blacklist.list), format!("{:?}", want_ips));
    diff("blacklist.mode", format!("{:?}", c.blacklist.mode), format!("{:?}", if want_mode { BlacklistMode::Forbidden } else { BlacklistMode::Block }));
    let (wl, wc, wf) = match &m.log {
        Some((l, c2, fl)) => (l.clone().unwrap_or("warn".into()), c2.unwrap_or(true), fl.clone()),
        None => ("warn".into(), true, None),
    };
    let want_level = match wl.to_ascii_lowercase().as_str() {
        "error" => LogLevel::Error,
        "info" => LogLevel::Info,
        "debug" => LogLevel::Debug,
        _ => LogLevel::Warn,
    };
    diff("log.level", format!("{:?}", c.logging.level), format!("{:?}", want_level));
    diff("log.console", c.logging.console.to_string(), wc.to_string());
    diff("log.file", format!("{:?}", c.logging.file), format!("{:?}", wf));
    let (ws, wt) = match &m.cache {
        Some((s, t)) => (
            s.as_ref().map_or(0u64, |(n, u)| {
                n * match u.to_ascii_uppercase().as_str() {
                    "K" => 1024,
                    "M" => 1024 * 1024,
                    "G" => 1024 * 1024 * 1024,
                    _ => 1,
                }
            }),
            t.unwrap_or(0),
        ),
        None => (0, 0),
    };
    diff("cache.size", c.cache.size_limit.to_string(), ws.to_string());
    diff("cache.time", c.cache.time_limit.to_string(), wt.to_string());
    diff("default_host.matches", c.default_host.matches.clone(), "*".into());
    diff("default_host.routes", format!("{:?}", actual_routes(&c.default_host.routes)), format!("{:?}", expected_routes(&m.routes)));
    diff("hosts.len", c.hosts.len().to_string(), m.hosts.len().to_string());
    for (i, (h, hm)) in c.hosts.iter().zip(&m.hosts).enumerate() {
        diff(&format!("hosts[{}].matches", i), h.matches.clone(), hm.name.clone());
        diff(&format!("hosts[{}].routes", i), format!("{:?}", actual_routes(&h.routes)), format!("{:?}", expected_routes(&hm.routes)));
    }
    // normalise indexed signatures
    for x in f.iter_mut() {
        if x.sig.starts_with("field:hosts[") {
            x.sig = "field:hosts".into();
        }
    }
    f
}

pub use crate::engine::TmpDir;

pub fn check_valid(m: &ConfM, seed: u64, labels: &mut Vec<&'static str>) -> Vec<Fail> {
    let tmp = TmpDir::new("c15");
    let mut fails = Vec::new();
    for (k, (includes, plain)) in [(true, false), (false, false), (false, true)].iter().enumerate() {
        let r = render(m, pt::mix(seed, k as u64), &tmp.0, *includes, *plain);
        write_files(&r, m, &tmp.0);
        if r.has_include && !labels.contains(&"valid:with-include") {
            labels.push("valid:with-include");
        }
        let main_name = r.files[0].0.display().to_string();
        let text = text_of(&r.files[0].1, seed % 2 == 0);
        match load(&text, &main_name) {
            Err(p) => fails.push(fail!("valid-panic", "loading a valid configuration panicked: {}\n{}", p, text)),
            Ok(Err(e)) => fails.push(fail!(
                if r.has_include { "valid-rejected-with-include" } else { "valid-rejected" },
                "valid configuration rejected ({}):\n{}{}",
                e,
                text,
                r.files.iter().skip(1).map(|(p, l)| format!("\n--- {}\n{}", p.display(), text_of(l, true))).collect::<String>()
            )),
            Ok(Ok(c)) => {
                let mut d = compare(m, &c);
                for x in d.iter_mut() {
                    x.detail = format!("{} (layout {}{})\n{}", x.detail, k, if r.has_include { ", with include files" } else { "" }, text);
                }
                fails.extend(d);
            }
        }
        if !fails.is_empty() {
            break;
        }
    }
    fails
}

// ------------------------------------------------------------------------------------------ mutants

#[derive(Clone, Debug, Serialize, Deserialize, PartialEq)]
pub enum Fault {
    MissingOpenBrace,
    MissingCloseBrace,
    MissingValue,
    BadNumber(u8),
    BadEnum,
    UnknownUnit(u8),
    UnterminatedQuote,
    OutOfRange(u8),
    NonAscii(u8),
    /// a value that is not `true` / `false` for a boolean key
    BadBool(u8),
}

fn fault_name(f: &Fault) -> &'static str {
    match f {
        Fault::MissingOpenBrace => "missing-open-brace",
        Fault::MissingCloseBrace => "missing-close-brace",
        Fault::MissingValue => "missing-value",
        Fault::BadNumber(_) => "bad-number",
        Fault::BadEnum => "bad-enum",
        Fault::UnknownUnit(v) if *v >= 128 => "size-overflow",
        Fault::UnknownUnit(_) => "unknown-unit",
        Fault::UnterminatedQuote => "unterminated-quote",
        Fault::OutOfRange(_) => "out-of-range",
        Fault::NonAscii(_) => "non-ascii",
        Fault::BadBool(_) => "bad-boolean",
    }
}

fn strip_comment(s: &str) -> &str {
    s.split_once('#').map_or(s, |x| x.0)
}

/// Applies the fault to a rendered configuration. Returns (file index, 1-based line, what is expected) or None if not applicable.
#[derive(Debug, PartialEq)]
enum Expect {
    /// must be Err; syntax-level: file and line must be named
    SyntaxAt(usize, usize),
    /// EOF-type syntax error in this file (line >= number of lines)
    SyntaxEof(usize),
    /// must be Err (validation, no line)
    Reject,
    /// must be Err, message/line free (known ambiguous fault position)
    RejectAnyhow,
    /// any outcome but a crash; if a syntax error is reported it must name this line
    NoCrash(usize, usize),
}

fn apply_fault(r: &mut Rendered, fault: &Fault, pick: u64) -> Option<Expect> {
    // candidate lines per fault
    let mut cands: Vec<(usize, usize)> = Vec::new();
    for (fi, (_, lines)) in r.files.iter().enumerate() {
        for (li, l) in lines.iter().enumerate() {
            let ok = match (fault, &l.kind) {
                (Fault::MissingOpenBrace, LineKind::Open { .. }) => true,
                (Fault::MissingCloseBrace, LineKind::Close) => true,
                (Fault::MissingValue, LineKind::Kv { .. }) => true,
                (Fault::BadNumber(_), LineKind::Kv { key, value }) => ["port", "threads", "timeout", "time"].contains(&key.as_str()) && value.parse::<i64>().is_ok(),
                (Fault::BadEnum, LineKind::Kv { key, .. }) => ["mode", "load_balancer_mode", "level"].contains(&key.as_str()),
                (Fault::UnknownUnit(_), LineKind::Kv { key, .. }) => key == "size",
                (Fault::UnterminatedQuote, LineKind::Kv { value, .. }) => value.starts_with('"'),
                (Fault::OutOfRange(_), LineKind::Kv { key, value }) => (key == "port" || key == "threads") && value.parse::<i64>().is_ok(),
                (Fault::NonAscii(_), k) => !matches!(k, LineKind::Other),
                (Fault::BadBool(_), LineKind::Kv { key, value }) => key == "console" && (value == "true" || value == "false"),
                _ => false,
            };
            // keys inside noise sections (tls/plugins/zzz) look like real keys but are not validated: skip them
            if ok {
                cands.push((fi, li));
            }
        }
    }
    if cands.is_empty() {
        return None;
    }
    let (fi, li) = cands[(pick % cands.len() as u64) as usize];
    let nlines = r.files[fi].1.len();
    let line = r.files[fi].1[li].clone();
    let body = strip_comment(&line.text).trim_end().to_string();
    let in_noise = line.noise;
    let key_of = |l: &Line| if let LineKind::Kv { key, .. } = &l.kind { key.clone() } else { String::new() };
    let indent: String = line.text.chars().take_while(|c| c.is_whitespace()).collect();
    match fault {
        Fault::MissingOpenBrace => {
            let new = body.trim_end().trim_end_matches('{').trim_end().to_string();
            r.files[fi].1[li].text = new;
            if let LineKind::Open { quoted_host, .. } = line.kind {
                if quoted_host {
                    // `host "x"` reads as a key/value pair: the file is malformed but the fault surfaces elsewhere (or nowhere)
                    return Some(Expect::RejectAnyhow);
                }
            }
            Some(Expect::SyntaxAt(fi, li + 1))
        }
        Fault::MissingCloseBrace => {
            r.files[fi].1.remove(li);
            Some(Expect::SyntaxEof(fi))
        }
        Fault::MissingValue => {
            let k = key_of(&line);
            r.files[fi].1[li].text = format!("{}{}", indent, k);
            Some(Expect::SyntaxAt(fi, li + 1))
        }
        Fault::BadNumber(v) => {
            let bad = ["abc", "12x", "1.5", "0x10", "--3", "1e3", "ten"][*v as usize % 7];
            r.files[fi].1[li].text = format!("{}{} {}", indent, key_of(&line), bad);
            Some(Expect::SyntaxAt(fi, li + 1))
        }
        Fault::BadEnum => {
            // an unknown word, or (for the two case-sensitive enumerations) a valid word in another letter case: a hand-made
            // mutant that also accepted `mode "Forbidden"` went unnoticed
            let key = key_of(&line);
            let word = match (key.as_str(), li % 3) {
                ("mode", 1) => "Forbidden",
                ("mode", 2) => "BLOCK",
                ("load_balancer_mode", 1) => "Round-Robin",
                ("load_balancer_mode", 2) => "RANDOM",
                _ => "sideways",
            };
            r.files[fi].1[li].text = format!("{}{} \"{}\"", indent, key, word);
            if in_noise {
                return None;
            }
            Some(Expect::Reject)
        }
        Fault::UnknownUnit(v) => {
            // an unknown unit, or (upper half of the byte) a size that no integer type holds: 2^34 G = 2^64, 2^43 M = 2^53 K = 2^63,
            // products that wrap to 0, 1 GiB or 1024, a number that is itself too long
            let bad = if *v < 128 {
                ["5X", "5KB", "M", "12T", "3k5", "5 M"][*v as usize % 6]
            } else {
                ["17179869184G", "17179869185G", "18014398509481985K", "8796093022208M", "9007199254740992K", "99999999999999999999", "9223372036854775807K", "17592186044416m"][(*v as usize - 128) % 8]
            };
            r.files[fi].1[li].text = format!("{}size {}", indent, bad);
            Some(Expect::SyntaxAt(fi, li + 1))
        }
        Fault::UnterminatedQuote => {
            if let LineKind::Kv { key, value } = &line.kind {
                let v = value.trim_end_matches('"');
                r.files[fi].1[li].text = format!("{}{} {}", indent, key, v);
                return Some(Expect::SyntaxAt(fi, li + 1));
            }
            None
        }
        Fault::BadBool(v) => {
            let bad = ["1", "0", "\"yes\"", "\"TRUE\"", "2K", "\"on\"", "\"False\"", "-1"][*v as usize % 8];
            r.files[fi].1[li].text = format!("{}{} {}", indent, key_of(&line), bad);
            if in_noise {
                return None;
            }
            Some(Expect::Reject)
        }
        Fault::OutOfRange(v) => {
            let k = key_of(&line);
            let bad = if k == "port" { ["65536", "-1", "70000", "4294967376"][*v as usize % 4] } else { ["0", "-3", "-1"][*v as usize % 3] };
            r.files[fi].1[li].text = format!("{}{} {}", indent, k, bad);
            if in_noise {
                return None;
            }
            Some(Expect::Reject)
        }
        Fault::NonAscii(v) => {
            let chars: Vec<char> = line.text.chars().collect();
            let pos = (pick >> 20) as usize % (chars.len() + 1);
            let ins = ['é', '😀', '\u{a0}', 'ß'][*v as usize % 4];
            let mut c = chars;
            c.insert(pos, ins);
            r.files[fi].1[li].text = c.into_iter().collect();
            let _ = nlines;
            Some(Expect::NoCrash(fi, li + 1))
        }
    }
}

fn parse_error_location(e: &str) -> Option<(String, u64)> {
    // "syntax: Configuration error at <file> line <n>: <message>"
    let rest = e.strip_prefix("syntax: Configuration error at ")?;
    let idx = rest.rfind(" line ")?;
    let file = rest[..idx].to_string();
    let tail = &rest[idx + 6..];
    let n: u64 = tail.split(':').next()?.trim().parse().ok()?;
    Some((file, n))
}

/// Loads through the real entry point: the `humphrey` binary given the path of the main file (`Config::load` reads the
/// file itself). A configuration that is accepted makes the server start, so only "rejected with which message" is
/// observed; a process still running after 3 s counts as accepted and is killed.
pub fn load_via_binary(bin: &str, main_path: &std::path::Path) -> Result<Result<(), String>, String> {
    use std::io::Read;
    let mut child = std::process::Command::new(bin)
        .arg(main_path)
        .current_dir(main_path.parent().unwrap_or(std::path::Path::new("/")))
        .stdout(std::process::Stdio::piped())
        .stderr(std::process::Stdio::piped())
        .spawn()
        .map_err(|e| format!("cannot start the server binary: {}", e))?;
    let t0 = std::time::Instant::now();
    loop {
        match child.try_wait() {
            Ok(Some(_)) => break,
            Ok(None) => {
                if t0.elapsed() > std::time::Duration::from_secs(3) {
                    let _ = child.kill();
                    let _ = child.wait();
                    return Ok(Ok(()));
                }
                std::thread::sleep(std::time::Duration::from_millis(5));
            }
            Err(e) => return Err(e.to_string()),
        }
    }
    let mut out = String::new();
    if let Some(mut o) = child.stdout.take() {
        let _ = o.read_to_string(&mut out);
    }
    if let Some(mut e) = child.stderr.take() {
        let _ = e.read_to_string(&mut out);
    }
    match out.find("Configuration error at ") {
        Some(k) => Ok(Err(format!("syntax: {}", out[k..].lines().next().unwrap_or("").trim()))),
        None if out.contains("[ERROR]") => Ok(Err(format!("validation: {}", out.trim()))),
        None => Ok(Err(format!("validation: server exited without serving: {}", out.trim()))),
    }
}

pub fn check_mutant(m: &ConfM, seed: u64, fault: &Fault, pick: u64, with_includes: bool) -> (Vec<Fail>, bool, bool) {
    check_mutant_with(m, seed, fault, pick, with_includes, None)
}

/// `binary`: load through the server binary (the `Config::load` entry point) instead of parse_conf + from_tree; the main
/// file then starts with `lead` blank / whitespace-only lines.
pub fn check_mutant_with(m: &ConfM, seed: u64, fault: &Fault, pick: u64, with_includes: bool, binary: Option<(&str, usize)>) -> (Vec<Fail>, bool, bool) {
    let tmp = TmpDir::new("c15m");
    let mut r = render(m, seed, &tmp.0, with_includes, false);
    let expect = match apply_fault(&mut r, fault, pick) {
        Some(e) => e,
        None => return (Vec::new(), false, false),
    };
    write_files(&r, m, &tmp.0);
    let main_name = r.files[0].0.display().to_string();
    let mut text = text_of(&r.files[0].1, true);
    // blank lines in front of the main file shift every line number of that file
    let lead = binary.map_or(0, |(_, n)| n);
    if lead > 0 {
        text = format!("{}{}", ["\n", "  \n", "\t\n"].iter().cycle().take(lead).copied().collect::<String>(), text);
    }
    let shift = |fi: usize, line: usize| if fi == 0 { line + lead } else { line };
    let expect = match expect {
        Expect::SyntaxAt(fi, l) => Expect::SyntaxAt(fi, shift(fi, l)),
        Expect::NoCrash(fi, l) => Expect::NoCrash(fi, shift(fi, l)),
        other => other,
    };
    if binary.is_some() && !matches!(expect, Expect::SyntaxAt(..) | Expect::SyntaxEof(..)) {
        // only pure syntax faults go through the binary: anything it accepts would start a server
        return (vec![Fail::new("skipped", "")], false, false);
    }
    let all_text = format!("{}{}", text, r.files.iter().skip(1).map(|(p, l)| format!("\n--- {}\n{}", p.display(), text_of(l, true))).collect::<String>());
    let fname = fault_name(fault);
    let res: Result<Result<(), String>, String> = match binary {
        None => load(&text, &main_name).map(|r| r.map(|_| ())),
        Some((bin, _)) => {
            std::fs::write(&r.files[0].0, &text).unwrap();
            load_via_binary(bin, &r.files[0].0)
        }
    };
    let mut fails = Vec::new();
    let not_first_line = match &expect {
        Expect::SyntaxAt(_, l) | Expect::NoCrash(_, l) => *l > 1,
        _ => true,
    };
    let in_include = match &expect {
        Expect::SyntaxAt(fi, _) | Expect::SyntaxEof(fi) | Expect::NoCrash(fi, _) => *fi > 0,
        _ => false,
    };
    match res {
        Err(p) => fails.push(fail!(format!("mutant-panic:{}", fname), "loading a configuration with fault `{}` panicked: {}\n{}", fname, p, all_text)),
        Ok(Ok(_)) => match expect {
            Expect::NoCrash(..) => {}
            _ => fails.push(fail!(format!("mutant-accepted:{}", fname), "configuration with fault `{}` ({:?}) was accepted:\n{}", fname, expect, all_text)),
        },
        Ok(Err(e)) => {
            let loc = parse_error_location(&e);
            match &expect {
                Expect::SyntaxAt(fi, line) => match loc {
                    Some((file, n)) if file == r.files[*fi].0.display().to_string() && n == *line as u64 => {}
                    _ => fails.push(fail!(
                        format!("mutant-wrong-location:{}", fname),
                        "fault `{}` at {} line {} was reported as: {}\n{}",
                        fname,
                        r.files[*fi].0.display(),
                        line,
                        e,
                        all_text
                    )),
                },
                Expect::SyntaxEof(fi) => {
                    let n = r.files[*fi].1.len() as u64 + if *fi == 0 { lead as u64 } else { 0 };
                    match loc {
                        Some((file, l)) if file == r.files[*fi].0.display().to_string() && l >= n && l <= n + 3 => {}
                        _ => fails.push(fail!(
                            format!("mutant-wrong-location:{}", fname),
                            "missing `}}` in {} ({} lines) was reported as: {}\n{}",
                            r.files[*fi].0.display(),
                            n,
                            e,
                            all_text
                        )),
                    }
                }
                Expect::NoCrash(fi, line) => {
                    if let Some((file, n)) = loc {
                        // a syntax error caused by the insertion must point at it (EOF-type errors excepted)
                        if !(file == r.files[*fi].0.display().to_string() && n == *line as u64) && !e.contains("end of file") && !e.contains("Could not find") {
                            fails.push(fail!(format!("mutant-wrong-location:{}", fname), "non-ASCII insertion at {} line {} was reported as: {}\n{}", r.files[*fi].0.display(), line, e, all_text));
                        }
                    }
                }
                Expect::Reject | Expect::RejectAnyhow => {}
            }
        }
    }
    (fails, not_first_line, in_include)
}

// ------------------------------------------------------------------------------------------ generators

fn arb_pattern() -> impl Strategy<Value = String> {
    prop_oneof![
        3 => "/[a-z]{1,6}(/[a-z0-9_.-]{1,5}){0,2}",
        3 => "/[a-z]{1,6}/\\*",
        1 => Just("/*".to_string()),
        1 => "/\\*\\.[a-z]{2,4}",
        1 => "/[a-z]{1,3}\\*[a-z]{1,3}/\\*",
        1 => Just("/".to_string()),
    ]
}

fn arb_target() -> impl Strategy<Value = String> {
    prop_oneof!["127\\.0\\.0\\.[0-9]{1,2}:[0-9]{2,4}", "localhost:[0-9]{2,4}", "[a-z]{3,8}\\.internal:80"]
}

fn arb_route() -> impl Strategy<Value = RouteM> {
    let kind = prop_oneof![
        2 => prop_oneof![3 => "/[a-z/]{1,12}\\.(html|png|txt)", 1 => "/[a-z]{1,5}( {1,3}|\t| \t )[a-z]{1,5}\\.(html|txt)", 1 => " {1,2}/[a-z]{1,6}\\.txt {1,2}"].prop_map(RouteKind::File),
        3 => prop_oneof![3 => "(/[a-z]{1,6}){1,3}/?", 1 => "/[a-z]{1,4}( {1,3}|\t)[a-z]{1,4}(/[a-z]{1,4} {2}[a-z]{1,3})?/?"].prop_map(RouteKind::Directory),
        2 => (proptest::collection::vec(arb_target(), 1..4), proptest::option::of(any::<bool>())).prop_map(|(t, m)| RouteKind::Proxy(t, m)),
        2 => prop_oneof![Just("/".to_string()), Just("http://localhost/".to_string()), "https://[a-z]{3,8}\\.example/[a-z]{0,5}"].prop_map(RouteKind::Redirect),
        1 => Just(RouteKind::WsOnly),
    ];
    (proptest::collection::vec(arb_pattern(), 1..4), kind, proptest::option::weighted(0.2, arb_target())).prop_map(|(patterns, kind, ws)| {
        let websocket = if kind == RouteKind::WsOnly { Some(ws.unwrap_or_else(|| "localhost:1234".into())) } else { ws };
        RouteM { patterns, kind, websocket }
    })
}

fn arb_host() -> impl Strategy<Value = HostM> {
    (prop_oneof!["[a-z]{1,8}\\.(com|org|dev)", "\\*\\.[a-z]{1,8}\\.com", "127\\.0\\.0\\.[0-9]{1,3}", "[a-z]{2,5}\\.\\*"], any::<bool>(), proptest::collection::vec(arb_route(), 0..5))
        .prop_map(|(name, quoted, routes)| HostM { name, quoted, routes })
}

pub fn arb_model() -> impl Strategy<Value = ConfM> {
    let unit = prop_oneof![Just("".to_string()), Just("K".to_string()), Just("k".to_string()), Just("M".to_string()), Just("m".to_string()), Just("G".to_string()), Just("g".to_string())];
    (
        (
            proptest::option::of(prop_oneof![Just("0.0.0.0".to_string()), Just("127.0.0.1".to_string()), Just("::1".to_string()), "10\\.[0-9]{1,3}\\.0\\.1"]),
            proptest::option::of(prop_oneof![Just(80u16), Just(443), Just(0), Just(1), Just(65535), any::<u16>()]),
            proptest::option::of(prop_oneof![Just(1usize), Just(32), 1usize..512]),
            proptest::option::of(prop_oneof![Just(0u64), Just(1), Just(2), Just(5), 0u64..100000]),
            proptest::option::of(arb_target()),
        ),
        proptest::option::of((proptest::option::of(proptest::collection::vec(crate::common::http::arb_ip().prop_map(|i| i.to_string()), 0..5)), proptest::option::of(any::<bool>()))),
        proptest::option::of((
            proptest::option::of(prop_oneof![Just("error".to_string()), Just("warn".to_string()), Just("info".to_string()), Just("debug".to_string()), Just("INFO".to_string()), Just("Debug".to_string())]),
            proptest::option::of(any::<bool>()),
            proptest::option::of(prop_oneof![3 => "[a-z]{1,8}\\.log", 1 => "[a-z]{1,4}( {1,3}|\t)[a-z]{1,4}\\.log"]),
        )),
        proptest::option::of((proptest::option::of((prop_oneof![Just(0u64), Just(1), Just(128), 0u64..5000], unit)), proptest::option::of(prop_oneof![Just(0usize), Just(1), Just(60), 0usize..100000]))),
        proptest::collection::vec(arb_host(), 0..5),
        proptest::collection::vec(arb_route(), 0..9),
        0u8..16,
    )
        .prop_map(|((address, port, threads, timeout, websocket), blacklist, log, cache, hosts, routes, noise)| ConfM { address, port, threads, timeout, websocket, blacklist, log, cache, hosts, routes, noise })
}

fn arb_fault() -> impl Strategy<Value = Fault> {
    prop_oneof![
        1 => Just(Fault::MissingOpenBrace),
        1 => Just(Fault::MissingCloseBrace),
        1 => Just(Fault::MissingValue),
        1 => any::<u8>().prop_map(Fault::BadNumber),
        1 => Just(Fault::BadEnum),
        1 => any::<u8>().prop_map(Fault::UnknownUnit),
        1 => Just(Fault::UnterminatedQuote),
        1 => any::<u8>().prop_map(Fault::OutOfRange),
        3 => any::<u8>().prop_map(Fault::NonAscii),
        1 => any::<u8>().prop_map(Fault::BadBool),
    ]
}

fn model_nontrivial(m: &ConfM) -> bool {
    let multi = m.routes.iter().chain(m.hosts.iter().flat_map(|h| h.routes.iter())).any(|r| r.patterns.len() > 1);
    let unit = m.cache.as_ref().and_then(|c| c.0.as_ref()).map_or(false, |(_, u)| !u.is_empty());
    (!m.hosts.is_empty() && multi) || unit
}

pub fn run(ctx: &Ctx) {
    ctx.rule("a ConfModel (address, port, threads, timeout, websocket, blacklist file+mode, log, cache size with K/M/G in either case + time, 0..4 hosts, 0..8 routes of every type incl. multi-pattern routes and proxy target lists, noise keys/sections) is rendered with random indentation, comments, blank lines, key order and include-file splitting (nested to 3, plus a comments-only file included at up to three places), in three layouts; the loaded Config must equal the model field by field. Single-fault mutants (missing { / }, missing value, bad number, bad enum, unknown unit, unterminated quote, out-of-range port/threads, a non-ASCII character at a random position) must be rejected with file and line for syntax faults and never crash. Non-trivial: model with >=1 host and a multi-pattern route, or a size unit, or an include; mutants: fault not on the first line; distinct by model/mutant");
    ctx.assume("no duplicate keys within a section, no `#` inside quoted values (runs of spaces and tabs inside quoted file, directory and log-file values are generated and must survive), single spaces only as key/value separator, tabs only in indentation, `server {` spelled exactly; proxy target lists without spaces");
    ctx.exclude("`#` inside quoted strings (documented comment rule makes it ambiguous)", 0);
    let cases = ctx.tier.pick(1_600u32, 48_000u32);
    crate::engine::shards(16, |i| {
        pt::run(
            ctx,
            "valid",
            pt::Opts::new(cases / 16).salt(1500 + i as u64),
            (arb_model(), any::<u64>()),
            |(m, s)| json!({"model": serde_json::to_value(m).unwrap(), "seed": s.to_string()}),
            |(m, s)| {
                let mut labels = vec!["valid"];
                let f = check_valid(m, *s, &mut labels);
                let nt = model_nontrivial(m) || labels.contains(&"valid:with-include");
                if !m.hosts.is_empty() {
                    labels.push("valid:hosts");
                }
                ctx.case(hash_of(&format!("{:?}{}", m, s)), nt, &labels);
                ctx.sample(labels.last().unwrap(), || {
                    let tmp = TmpDir::new("c15s");
                    let r = render(m, *s, &tmp.0, false, false);
                    json!({"rendered": text_of(&r.files[0].1, true)})
                });
                f
            },
        );
    });
    let mcases = ctx.tier.pick(6_400u32, 200_000u32);
    crate::engine::shards(16, |i| {
        pt::run(
            ctx,
            "mutant",
            pt::Opts::new(mcases / 16).salt(1550 + i as u64),
            (arb_model(), any::<u64>(), arb_fault(), any::<u64>(), any::<bool>()),
            |(m, s, f, p, inc)| json!({"model": serde_json::to_value(m).unwrap(), "seed": s.to_string(), "fault": serde_json::to_value(f).unwrap(), "pick": p.to_string(), "includes": inc}),
            |(m, s, f, p, inc)| {
                let (fails, nt, in_include) = check_mutant(m, *s, f, *p, *inc);
                let name = fault_name(f);
                let label = format!("mutant:{}", name);
                let mut labels = vec![label.as_str()];
                if in_include {
                    labels.push("mutant:fault-inside-include-file");
                }
                ctx.case(hash_of(&format!("{:?}{}{:?}{}{}", m, s, f, p, inc)), nt, &labels);
                ctx.sample(&label, || json!({"fault": name, "pick": p.to_string()}));
                fails
            },
        );
    });    binary_mutants(ctx);
}

/// Syntax faults through the real entry point (`Config::load` inside the server binary), the main file preceded by
/// 0..7 blank or whitespace-only lines.
fn binary_mutants(ctx: &Ctx) {
    let bin = match crate::props::c19::build_server_binary() {
        Ok(b) => b,
        Err(e) => {
            ctx.inconclusive(&format!("entry-point level skipped: {}", e));
            return;
        }
    };
    let n = ctx.tier.pick(64usize, 800usize);
    let next = std::sync::atomic::AtomicUsize::new(0);
    let found: std::sync::Mutex<Vec<(Fail, J)>> = std::sync::Mutex::new(Vec::new());
    crate::engine::shards(16, |sh| {
        let mut runner = proptest::test_runner::TestRunner::new(proptest::test_runner::Config { rng_seed: proptest::test_runner::RngSeed::Fixed(pt::mix(ctx.seed, 1580 + sh as u64)), failure_persistence: None, ..Default::default() });
        loop {
            let k = next.fetch_add(1, std::sync::atomic::Ordering::SeqCst);
            if k >= n {
                break;
            }
            let m = arb_model().new_tree(&mut runner).unwrap().current();
            let fault = arb_fault().new_tree(&mut runner).unwrap().current();
            let seed = pt::mix(ctx.seed, 15_800 + k as u64);
            let lead = [0usize, 1, 3, 7][k % 4];
            let (fails, _, in_include) = check_mutant_with(&m, seed, &fault, seed >> 7, k % 2 == 0, Some((&bin, lead)));
            if fails.iter().any(|f| f.sig == "skipped") {
                ctx.exclude("entry-point level: generated fault is not a pure syntax fault (the binary would start serving)", 1);
                continue;
            }
            ctx.case(hash_of(&("binary", k, seed)), true, &["entry-point:syntax-fault", if lead > 0 { "entry-point:leading-blank-lines" } else { "entry-point:no-leading-lines" }, if in_include { "entry-point:fault-in-include" } else { "entry-point:fault-in-main-file" }]);
            for f in fails {
                found.lock().unwrap().push((Fail { sig: format!("entry-point:{}", f.sig), detail: f.detail }, json!({"model_seed": seed.to_string(), "lead": lead, "k": k})));
            }
        }
    });
    ctx.sample("entry-point:syntax-fault", || json!({"how": "humphrey <main file> with one syntax fault; the error message must name the file and line", "leading_blank_lines": [0, 1, 3, 7]}));
    let mut seen = std::collections::BTreeSet::new();
    for (f, c) in found.into_inner().unwrap() {
        if seen.insert(f.sig.clone()) && !ctx.tolerate(&f) {
            ctx.violation(f, "entry-point", c);
        }
    }
}

pub fn replay(_ctx: &Ctx, kind: &str, case: &J) -> Vec<Fail> {
    let m: ConfM = match serde_json::from_value(case["model"].clone()) {
        Ok(m) => m,
        Err(e) => return vec![Fail::new("harness", format!("bad replay case: {}", e))],
    };
    let seed: u64 = case["seed"].as_str().and_then(|s| s.parse().ok()).unwrap_or(0);
    match kind {
        "valid" => check_valid(&m, seed, &mut Vec::new()),
        "mutant" => {
            let f: Fault = serde_json::from_value(case["fault"].clone()).unwrap_or(Fault::MissingValue);
            let p: u64 = case["pick"].as_str().and_then(|s| s.parse().ok()).unwrap_or(0);
            check_mutant(&m, seed, &f, p, case["includes"].as_bool().unwrap_or(false)).0
        }
        _ => vec![Fail::new("harness", format!("unknown replay kind {}", kind))],
    }
}
