//! Parser entry points run inside isolated workers (C03, C10 huge-claim cases).

use crate::common::http::PlanReader;
use std::io::Write;
use std::net::{TcpListener, TcpStream};

pub const T_REQUEST: u8 = 0;
pub const T_RESPONSE: u8 = 1;
pub const T_FRAME: u8 = 2;
pub const T_MESSAGE: u8 = 3;
pub const T_MESSAGE_NB: u8 = 4;
pub const T_JSON: u8 = 5;
pub const T_CONFIG: u8 = 6;

pub const TARGET_NAMES: [&str; 7] = ["http-request", "http-response", "ws-frame", "ws-message", "ws-message-nonblocking", "json", "config"];

fn sizes(mode: u8) -> Vec<usize> {
    if mode == 1 {
        vec![1]
    } else {
        vec![usize::MAX]
    }
}

static WRITER_DONE: std::sync::atomic::AtomicBool = std::sync::atomic::AtomicBool::new(false);

fn socket_pair(data: &[u8], mode: u8) -> Option<(humphrey::stream::Stream, std::thread::JoinHandle<()>)> {
    WRITER_DONE.store(false, std::sync::atomic::Ordering::SeqCst);
    let l = TcpListener::bind("127.0.0.1:0").ok()?;
    let addr = l.local_addr().ok()?;
    let data = data.to_vec();
    let h = std::thread::spawn(move || {
        if let Ok(mut c) = TcpStream::connect(addr) {
            let _ = c.set_nodelay(true);
            if mode == 1 && data.len() <= 4096 {
                for b in &data {
                    let _ = c.write_all(&[*b]);
                }
            } else {
                let _ = c.write_all(&data);
            }
            let _ = c.shutdown(std::net::Shutdown::Write);
            WRITER_DONE.store(true, std::sync::atomic::Ordering::SeqCst);
            // keep the socket open until the reader is done (it closes its end)
            let mut sink = [0u8; 1024];
            use std::io::Read;
            let _ = c.set_read_timeout(Some(std::time::Duration::from_secs(20)));
            loop {
                match c.read(&mut sink) {
                    Ok(0) | Err(_) => break,
                    Ok(_) => {}
                }
            }
        }
    });
    let (s, _) = l.accept().ok()?;
    Some((humphrey::stream::Stream::Tcp(s), h))
}

/// (returned a value?, progress, message)
pub fn parser_target(target: u8, mode: u8, data: &[u8]) -> (bool, u8, String) {
    match target {
        T_REQUEST => {
            let mut rd = PlanReader::new(data.to_vec(), sizes(mode));
            match humphrey::http::Request::from_stream(&mut rd, "1.2.3.4:5678".parse().unwrap()) {
                Ok(r) => (true, 0, format!("{} {} {}", r.method, r.uri, r.headers.len())),
                Err(e) => (false, 0, format!("{:?}", e)),
            }
        }
        T_RESPONSE => {
            let mut rd = PlanReader::new(data.to_vec(), sizes(mode));
            match humphrey::http::Response::from_stream(&mut rd) {
                Ok(r) => (true, 0, format!("{} {}", u16::from(r.status_code), r.body.len())),
                Err(e) => (false, 0, format!("{:?}", e)),
            }
        }
        T_FRAME => {
            let rd = PlanReader::new(data.to_vec(), sizes(mode));
            match humphrey_ws::verif_hooks::decode(rd) {
                Ok(f) => (true, 0, format!("op{} len{}", f.opcode, f.payload.len())),
                Err(e) => (false, 0, format!("{:?}", e)),
            }
        }
        T_MESSAGE | T_MESSAGE_NB => {
            let (stream, h) = match socket_pair(data, mode) {
                Some(x) => x,
                None => return (false, 9, "harness: socket pair failed".into()),
            };
            let mut ws = humphrey_ws::WebsocketStream::new(stream);
            let out = if target == T_MESSAGE {
                match ws.recv() {
                    Ok(m) => (true, 0, format!("msg {}", m.bytes().len())),
                    Err(e) => (false, 0, format!("{:?}", e)),
                }
            } else {
                let mut nones = 0;
                loop {
                    match ws.recv_nonblocking() {
                        humphrey_ws::restion::Restion::Ok(m) => break (true, 0, format!("msg {}", m.bytes().len())),
                        humphrey_ws::restion::Restion::Err(e) => break (false, 0, format!("{:?}", e)),
                        humphrey_ws::restion::Restion::None => {
                            if WRITER_DONE.load(std::sync::atomic::Ordering::SeqCst) {
                                nones += 1;
                            }
                            if nones > 6 {
                                break (false, 1, "None (nothing more arrives)".into());
                            }
                            std::thread::sleep(std::time::Duration::from_micros(300));
                        }
                    }
                }
            };
            drop(ws);
            let _ = h.join();
            out
        }
        T_JSON => {
            let s = String::from_utf8_lossy(data);
            match humphrey_json::Value::parse(s.as_ref()) {
                Ok(_) => (true, 0, String::new()),
                Err(e) => (false, 0, e.to_string()),
            }
        }
        T_CONFIG => {
            let s = String::from_utf8_lossy(data);
            match humphrey_server::config::tree::parse_conf(s.as_ref(), "fuzz.conf") {
                Ok(tree) => match humphrey_server::config::Config::from_tree(tree) {
                    Ok(_) => (true, 0, String::new()),
                    Err(e) => (false, 1, e.to_string()),
                },
                Err(e) => (false, 0, e.to_string()),
            }
        }
        _ => (false, 9, "unknown target".into()),
    }
}
