//! C13 — JSON parser accepts exactly RFC 8259 (depth <= 256), serialiser emits it, round trip.
//! Oracle: strict reference recogniser/evaluator (common/json.rs), serde_json as second opinion.

use crate::common::json::{self, JV};
use crate::engine::{catch, hash_of, par, pt, Ctx, Fail, Lcg};
use humphrey_json::Value;
use proptest::prelude::*;
use serde_json::{json, Value as J};

const LIMIT: usize = 256;

fn harness_error(msg: String) -> ! {
    eprintln!("HARNESS ERROR: {}", msg);
    std::process::exit(2);
}

fn cut(s: &str) -> String {
    if s.chars().count() > 300 {
        let t: String = s.chars().take(300).collect();
        format!("{}…(+{} chars)", t, s.chars().count() - 300)
    } else {
        s.to_string()
    }
}

/// why the reference rejects: coarse class used in the signature
fn invalid_class(s: &str) -> &'static str {
    let t = s.trim_matches(|c| c == ' ' || c == '\t' || c == '\n' || c == '\r');
    if json::parse(s, usize::MAX).is_some() {
        return "too-deep";
    }
    if !t.is_empty()
        && t.chars().all(|c| c.is_ascii_alphanumeric() || "+-.".contains(c))
        && !matches!(t, "null" | "true" | "false")
    {
        return "number-or-literal";
    }
    if t.contains("\\u") {
        // may be an escape problem; refine: does it become valid when all \uXXXX-like escapes are removed?
        return "structure-or-escape";
    }
    "structure"
}

pub fn check_text(s: &str) -> Option<Fail> {
    let r = json::parse(s, LIMIT);
    let h = match catch(|| Value::parse(s)) {
        Ok(h) => h,
        Err(p) => return Some(fail!("parse-panic", "Value::parse({:?}) panicked: {}", cut(s), p)),
    };
    // second opinion on accept/reject
    {
        let serde_ok = serde_json::from_str::<serde_json::Value>(s).is_ok();
        match &r {
            None => {
                // reference rejects; serde may accept only if the sole fault is depth (>256 never fits serde's 128) — so it must reject
                if serde_ok {
                    harness_error(format!("reference JSON recogniser rejects but serde_json accepts: {:?}", cut(s)));
                }
            }
            Some((_, f)) => {
                if !f.lone_surrogate && !f.overflow_number && !f.extreme_number && f.max_depth <= 100 && !serde_ok {
                    let e = serde_json::from_str::<serde_json::Value>(s).err().map(|e| e.to_string()).unwrap_or_default();
                    harness_error(format!("reference JSON recogniser accepts but serde_json rejects ({}): {:?}", e, cut(s)));
                }
            }
        }
    }
    match (r, h) {
        (None, Err(_)) => None,
        (None, Ok(v)) => Some(fail!(
            format!("accepts-invalid:{}", invalid_class(s)),
            "Value::parse accepts {:?}, which is not a JSON text per RFC 8259 (depth limit {}), as {}",
            cut(s),
            LIMIT,
            cut(&format!("{:?}", v))
        )),
        (Some((_, f)), Err(e)) => {
            if f.lone_surrogate || f.overflow_number {
                None
            } else {
                Some(fail!(
                    "rejects-valid",
                    "Value::parse rejects valid JSON text {:?}: {}",
                    cut(s),
                    e
                ))
            }
        }
        (Some((want, f)), Ok(v)) => {
            if f.overflow_number {
                return None;
            }
            if f.lone_surrogate {
                // accepting is optional; when the text is accepted, a String cannot hold the unpaired surrogate itself
                // (the reference puts U+FFFD there), but everything else the text denotes must be there unchanged:
                // compare with the replacement characters taken out of both sides (substituted or dropped are both fine)
                fn strip(v: &JV) -> JV {
                    let st = |s: &str| s.chars().filter(|c| *c != '\u{FFFD}').collect::<String>();
                    match v {
                        JV::Str(s) => JV::Str(st(s)),
                        JV::Arr(a) => JV::Arr(a.iter().map(strip).collect()),
                        JV::Obj(o) => JV::Obj(o.iter().map(|(k, v)| (st(k), strip(v))).collect()),
                        other => other.clone(),
                    }
                }
                let got = json::from_humphrey(&v);
                return if strip(&got) == strip(&want) {
                    None
                } else {
                    Some(fail!(
                        "wrong-value:around-unpaired-surrogate",
                        "Value::parse({:?}) = {} : apart from the unpaired surrogate(s) the text denotes {}",
                        cut(s),
                        cut(&format!("{:?}", got)),
                        cut(&format!("{:?}", want))
                    ))
                };
            }
            let got = json::from_humphrey(&v);
            if got == want {
                None
            } else {
                Some(fail!(
                    "wrong-value",
                    "Value::parse({:?}) = {} but the text denotes {}",
                    cut(s),
                    cut(&format!("{:?}", got)),
                    cut(&format!("{:?}", want))
                ))
            }
        }
    }
}

pub fn check_value(v: &JV, indent: Option<usize>) -> Option<Fail> {
    let hv = json::to_humphrey(v);
    let text = match catch(|| match indent {
        None => hv.serialize(),
        Some(i) => hv.serialize_pretty(i),
    }) {
        Ok(t) => t,
        Err(p) => return Some(fail!("serialize-panic", "serialize({:?}) panicked: {}", cut(&format!("{:?}", v)), p)),
    };
    match json::parse(&text, usize::MAX) {
        None => {
            return Some(fail!(
                "serialize-invalid",
                "serialize{} of {} emitted {:?}, which is not RFC 8259 text",
                indent.map(|i| format!("_pretty({})", i)).unwrap_or_default(),
                cut(&format!("{:?}", v)),
                cut(&text)
            ))
        }
        Some((back, _)) => {
            if &back != v {
                return Some(fail!(
                    "serialize-wrong-value",
                    "serialize{} of {} emitted {:?}, which denotes {}",
                    indent.map(|i| format!("_pretty({})", i)).unwrap_or_default(),
                    cut(&format!("{:?}", v)),
                    cut(&text),
                    cut(&format!("{:?}", back))
                ));
            }
        }
    }
    if json::depth(v) <= LIMIT {
        match catch(|| Value::parse(&text)) {
            Err(p) => return Some(fail!("parse-panic", "Value::parse({:?}) panicked: {}", cut(&text), p)),
            Ok(Err(e)) => {
                return Some(fail!(
                    "roundtrip-rejected",
                    "Value::parse rejects the serialiser's own output {:?}: {}",
                    cut(&text),
                    e
                ))
            }
            Ok(Ok(back)) => {
                if back != hv {
                    return Some(fail!(
                        "roundtrip-value",
                        "parse(serialize(v)) != v for v = {} (text {:?})",
                        cut(&format!("{:?}", v)),
                        cut(&text)
                    ));
                }
            }
        }
    }
    None
}

// ------------------------------------------------------------------------------------------ exhaustive

const TOKENS: [&str; 16] = ["{", "}", "[", "]", ":", ",", "\"", "\\", "0", "1", "-", ".", "e", "true", "null", " "];
const NUMSYMS: [&str; 8] = ["+", "-", ".", "0", "1", "9", "e", "E"];

fn enumerate_strings(ctx: &Ctx, syms: &'static [&'static str], max_len: usize, what: &str) {
    let k = syms.len();
    par(ctx, |shard, n, a| {
        let mut s = String::new();
        for len in 0..=max_len {
            let total = k.pow(len as u32);
            for idx in (0..total).filter(|x| x % n == shard) {
                s.clear();
                let mut x = idx;
                for _ in 0..len {
                    s.push_str(syms[x % k]);
                    x /= k;
                }
                let r = json::parse(&s, LIMIT);
                // non-trivial: goes beyond a single token (len>=2) ; valid ones are always interesting
                let nt = len >= 2;
                let _ = r;
                a.add(nt, check_text(&s), "text", || json!({"text": s}));
            }
        }
    });
    ctx.exhaustive_space(what);
}

// ------------------------------------------------------------------------------------------ generators

fn arb_string() -> impl Strategy<Value = String> {
    proptest::collection::vec(
        prop_oneof![
            6 => "[a-zA-Z0-9 _-]".prop_map(|s| s.chars().next().unwrap()),
            2 => prop_oneof![Just('"'), Just('\\'), Just('/'), Just('\u{8}'), Just('\u{c}'), Just('\n'), Just('\r'), Just('\t')],
            2 => (0u32..0x20).prop_map(|c| char::from_u32(c).unwrap()),
            1 => Just('\u{7f}'),
            2 => any::<char>(),
            1 => prop_oneof![Just('é'), Just('😀'), Just('\u{ffff}'), Just('\u{10ffff}'), Just('\u{d7ff}'), Just('\u{e000}'), Just('\u{2028}')],
        ],
        0..8,
    )
    .prop_map(|v| v.into_iter().collect())
}

fn arb_number() -> impl Strategy<Value = f64> {
    prop_oneof![
        3 => (-1000i64..1000).prop_map(|i| i as f64),
        2 => any::<u64>().prop_map(f64::from_bits).prop_filter_map("finite", |f| if f.is_finite() { Some(f) } else { None }),
        1 => prop_oneof![Just(0.0), Just(-0.0), Just(f64::MAX), Just(f64::MIN), Just(f64::MIN_POSITIVE), Just(5e-324), Just(9007199254740993.0), Just(-9007199254740992.0), Just(1e21), Just(1e-7), Just(0.1), Just(1.5e300)],
        1 => (any::<i64>()).prop_map(|i| i as f64),
        1 => (0u64..(1u64 << 52)).prop_map(|m| f64::from_bits(m)), // subnormals
    ]
}

pub fn arb_value() -> impl Strategy<Value = JV> {
    let leaf = prop_oneof![
        1 => Just(JV::Null),
        1 => any::<bool>().prop_map(JV::Bool),
        3 => arb_number().prop_map(JV::Num),
        3 => arb_string().prop_map(JV::Str),
    ];
    leaf.prop_recursive(5, 48, 6, |inner| {
        prop_oneof![
            proptest::collection::vec(inner.clone(), 0..6).prop_map(JV::Arr),
            proptest::collection::vec((arb_string(), inner), 0..6).prop_map(JV::Obj),
        ]
    })
}

/// Renders a value as JSON text with generated layout: whitespace placements, escape forms, number spellings.
#[derive(Clone, Debug)]
struct Layout(Vec<u16>);

struct Render<'a> {
    choices: &'a [u16],
    pos: usize,
    out: String,
}

impl<'a> Render<'a> {
    fn pick(&mut self, n: usize) -> usize {
        let c = if self.choices.is_empty() { 0 } else { self.choices[self.pos % self.choices.len()] };
        self.pos += 1;
        pt::idx(c, n)
    }
    fn ws(&mut self) {
        match self.pick(8) {
            0..=3 => {}
            4 => self.out.push(' '),
            5 => self.out.push('\n'),
            6 => self.out.push_str("\t\r\n"),
            _ => self.out.push_str("  "),
        }
    }
    fn string(&mut self, s: &str) {
        self.out.push('"');
        for c in s.chars() {
            let cp = c as u32;
            let must_escape = cp < 0x20 || c == '"' || c == '\\';
            let style = self.pick(6);
            let short = match c {
                '"' => Some("\\\""),
                '\\' => Some("\\\\"),
                '/' => Some("\\/"),
                '\u{8}' => Some("\\b"),
                '\u{c}' => Some("\\f"),
                '\n' => Some("\\n"),
                '\r' => Some("\\r"),
                '\t' => Some("\\t"),
                _ => None,
            };
            if must_escape || style >= 4 {
                if let (Some(sh), true) = (short, style % 2 == 0) {
                    self.out.push_str(sh);
                } else {
                    let mut buf = [0u16; 2];
                    for u in c.encode_utf16(&mut buf) {
                        if style == 5 {
                            self.out.push_str(&format!("\\u{:04X}", u));
                        } else {
                            self.out.push_str(&format!("\\u{:04x}", u));
                        }
                    }
                }
            } else {
                self.out.push(c);
            }
        }
        self.out.push('"');
    }
    fn number(&mut self, n: f64) {
        let plain = format!("{}", n);
        match self.pick(5) {
            0 | 1 => self.out.push_str(&plain),
            2 => self.out.push_str(&format!("{:e}", n)),
            3 => self.out.push_str(&format!("{:E}", n).replace('E', "E+").replace("E+-", "E-")),
            _ => {
                if n.fract() == 0.0 && n.abs() < 1e15 {
                    self.out.push_str(&format!("{}.0", plain));
                } else {
                    self.out.push_str(&plain)
                }
            }
        }
    }
    fn value(&mut self, v: &JV) {
        match v {
            JV::Null => self.out.push_str("null"),
            JV::Bool(b) => self.out.push_str(if *b { "true" } else { "false" }),
            JV::Num(n) => self.number(*n),
            JV::Str(s) => self.string(s),
            JV::Arr(a) => {
                self.out.push('[');
                self.ws();
                for (i, x) in a.iter().enumerate() {
                    if i > 0 {
                        self.out.push(',');
                        self.ws();
                    }
                    self.value(x);
                    self.ws();
                }
                self.out.push(']');
            }
            JV::Obj(o) => {
                self.out.push('{');
                self.ws();
                for (i, (k, x)) in o.iter().enumerate() {
                    if i > 0 {
                        self.out.push(',');
                        self.ws();
                    }
                    self.string(k);
                    self.ws();
                    self.out.push(':');
                    self.ws();
                    self.value(x);
                    self.ws();
                }
                self.out.push('}');
            }
        }
    }
}

fn render(v: &JV, layout: &Layout) -> String {
    let mut r = Render { choices: &layout.0, pos: 0, out: String::new() };
    r.ws();
    r.value(v);
    r.ws();
    r.out
}

#[derive(Clone, Debug)]
enum Edit {
    None,
    Delete(u16),
    Insert(u16, char),
    Replace(u16, char),
    Dup(u16),
}

const EDIT_CHARS: &[char] = &[',', ':', '"', '\\', '[', ']', '{', '}', '0', '1', '-', '+', '.', 'e', 'E', ' ', 'u', 'n', 't', 'a', '\n', '\u{1}', 'é'];

fn arb_edit() -> impl Strategy<Value = Edit> {
    let ch = any::<u16>().prop_map(|i| EDIT_CHARS[pt::idx(i, EDIT_CHARS.len())]);
    prop_oneof![
        2 => Just(Edit::None),
        3 => any::<u16>().prop_map(Edit::Delete),
        3 => (any::<u16>(), ch.clone()).prop_map(|(p, c)| Edit::Insert(p, c)),
        3 => (any::<u16>(), ch).prop_map(|(p, c)| Edit::Replace(p, c)),
        1 => any::<u16>().prop_map(Edit::Dup),
    ]
}

fn apply_edit(s: &str, e: &Edit) -> String {
    let mut chars: Vec<char> = s.chars().collect();
    match e {
        Edit::None => {}
        Edit::Delete(p) => {
            if !chars.is_empty() {
                chars.remove(pt::idx(*p, chars.len()));
            }
        }
        Edit::Insert(p, c) => {
            let k = pt::idx(*p, chars.len() + 1);
            chars.insert(k, *c);
        }
        Edit::Replace(p, c) => {
            if !chars.is_empty() {
                let k = pt::idx(*p, chars.len());
                chars[k] = *c;
            }
        }
        Edit::Dup(p) => {
            if !chars.is_empty() {
                let k = pt::idx(*p, chars.len());
                let c = chars[k];
                chars.insert(k, c);
            }
        }
    }
    chars.into_iter().collect()
}

fn documents(ctx: &Ctx) {
    let cases = ctx.tier.pick(24_000u32, 480_000u32);
    crate::engine::shards(8, |i| {
        let strat = (arb_value(), proptest::collection::vec(any::<u16>(), 1..40).prop_map(Layout), arb_edit());
        pt::run(
            ctx,
            "text",
            pt::Opts::new(cases / 8).salt(1300 + i as u64),
            strat,
            |(v, l, e)| json!({"text": apply_edit(&render(v, l), e)}),
            |(v, l, e)| {
                let original = render(v, l);
                let text = apply_edit(&original, e);
                let orig_ok = json::parse(&original, LIMIT);
                if orig_ok.is_none() {
                    harness_error(format!("generator rendered a document the reference rejects: {:?}", original));
                }
                let r = json::parse(&text, LIMIT);
                let is_mutant = !matches!(e, Edit::None);
                let flips = is_mutant && r.is_none();
                let (num, esc, depth) = orig_ok.as_ref().map(|(_, f)| (f.has_number, f.has_escape, f.max_depth)).unwrap_or((false, false, 0));
                let nt = if is_mutant { flips } else { num || esc || depth >= 2 };
                let class = if !is_mutant {
                    "doc:valid"
                } else if flips {
                    "doc:mutant-invalid"
                } else {
                    "doc:mutant-still-valid"
                };
                ctx.case(hash_of(&text), nt, &[class]);
                ctx.sample(class, || json!({"text": cut(&text), "reference_accepts": r.is_some()}));
                let mut fails: Vec<Fail> = check_text(&text).into_iter().collect();
                if is_mutant {
                    fails.extend(check_text(&original));
                }
                fails
            },
        );
    });
}

fn deep(ctx: &Ctx) {
    // nesting depth 1..300 with forced 255/256/257, arrays/objects mixed, closed and unclosed
    let mut rng = Lcg(pt::mix(ctx.seed, 1390));
    let mut depths: Vec<usize> = vec![1, 2, 100, 127, 128, 129, 254, 255, 256, 257, 258, 299, 300, 1000, 5000];
    for _ in 0..ctx.tier.pick(40, 400) {
        depths.push(1 + (rng.next() % 300) as usize);
    }
    for d in depths {
        for variant in 0..4 {
            let mut open = String::new();
            let mut close = String::new();
            for k in 0..d {
                let obj = match variant {
                    0 => false,
                    1 => true,
                    _ => (rng.next() >> 7) % 2 == 0 || (variant == 3 && k % 2 == 0),
                };
                if obj {
                    open.push_str("{\"k\":");
                    close.insert(0, '}');
                } else {
                    open.push('[');
                    close.insert(0, ']');
                }
            }
            for inner in ["1", "", "\"x\""] {
                if inner.is_empty() && variant == 1 {
                    continue;
                }
                let text = format!("{}{}{}", open, inner, close);
                let nt = (250..=260).contains(&d);
                ctx.case(hash_of(&text), nt, &["deep"]);
                if d == 257 && variant == 0 && inner == "1" {
                    ctx.sample("deep", || json!({"text": "[ x257 1 ] x257", "reference_accepts": false}));
                }
                if let Some(f) = check_text_deep(&text) {
                    if !ctx.tolerate(&f) {
                        ctx.violation(f, "text", json!({"text": text}));
                    }
                }
                // unclosed variant (truncated)
                let t2 = format!("{}{}", open, inner);
                ctx.case(hash_of(&t2), nt, &["deep-unclosed"]);
                if let Some(f) = check_text_deep(&t2) {
                    if !ctx.tolerate(&f) {
                        ctx.violation(f, "text", json!({"text": t2}));
                    }
                }
            }
        }
    }
}

/// Deeply nested values through `serialize_pretty` with every indent 0..8 (and through `serialize`): the indentation grows
/// with indent x depth.
fn pretty_deep(ctx: &Ctx) {
    let mut n = 0u64;
    for depth in [1usize, 2, 8, 9, 16, 17, 32, 33, 64, 65, 66, 100, 200] {
        for shape in 0..3 {
            let mut v = if shape == 1 { JV::Str("x".into()) } else { JV::Num(1.0) };
            for k in 0..depth {
                v = match (shape, k % 2) {
                    (0, _) => JV::Arr(vec![v]),
                    (1, _) => JV::Obj(vec![("k".into(), v)]),
                    (_, 0) => JV::Arr(vec![JV::Null, v]),
                    _ => JV::Obj(vec![("a".into(), JV::Bool(true)), ("b".into(), v)]),
                };
            }
            for indent in [None, Some(0usize), Some(1), Some(2), Some(3), Some(4), Some(5), Some(6), Some(7), Some(8)] {
                n += 1;
                // on a big stack: the reference evaluator recurses too
                let v2 = v.clone();
                let r = std::thread::Builder::new().stack_size(256 << 20).spawn(move || check_value(&v2, indent)).unwrap().join().unwrap_or_else(|_| Some(Fail::new("harness", "pretty_deep thread panicked")));
                if let Some(f) = r {
                    if !ctx.tolerate(&f) {
                        ctx.violation(Fail { sig: f.sig, detail: format!("{} [value nested {} deep, indent {:?}]", f.detail, depth, indent) }, "value", json!({"value": jv_to_serde(&v), "indent": indent}));
                    }
                }
            }
        }
    }
    ctx.bulk_n(n, n);
    ctx.label("value:deep x indent 0..8", n);
    ctx.sample("value:deep", || json!({"value": "[[[…1…]]] nested 65 deep", "indent": 1}));
}

/// Every string of up to four units from a set of escape forms (high / low surrogates at both ends of their ranges, an
/// ordinary escape, NUL, a literal, an escaped quote): valid pairs must give the scalar value, unpaired surrogates may be
/// rejected, nothing may panic.
fn escapes(ctx: &Ctx) {
    const UNITS: [&str; 9] = ["\\ud800", "\\udbff", "\\udc00", "\\udfff", "\\u0041", "\\u0000", "a", "\\\"", "\\uD83D"];
    let mut n = 0u64;
    for len in 1..=4usize {
        let total = UNITS.len().pow(len as u32);
        for idx in 0..total {
            let mut body = String::new();
            let mut x = idx;
            for _ in 0..len {
                body.push_str(UNITS[x % UNITS.len()]);
                x /= UNITS.len();
            }
            for text in [format!("\"{}\"", body), format!("{{\"{}\":0}}", body)] {
                n += 1;
                if let Some(f) = check_text(&text) {
                    if !ctx.tolerate(&f) {
                        ctx.violation(f, "text", json!({"text": text}));
                    }
                }
            }
        }
    }
    ctx.bulk_n(n, n);
    ctx.label("escape-sequences", n);
    ctx.exhaustive_space("JSON strings: all sequences of <=4 units over 9 escape forms (high/low surrogates, ordinary escapes, NUL, literal, escaped quote), as a value and as an object key (14 760 texts)");
    ctx.sample("escape-sequences", || json!({"text": "\"\\udc00\\udc00\"", "expect": "rejected or accepted as unpaired surrogates, never a panic"}));
}

/// Wide documents: many containers, little depth. The depth limit is about nesting, not about how many containers a
/// document holds, so sibling containers (empty ones in particular) must not use it up.
fn wide(ctx: &Ctx) {
    let mut rng = Lcg(pt::mix(ctx.seed, 1391));
    const ITEMS: [&str; 9] = ["[]", "{}", "[[]]", "{\"a\":{}}", "[1]", "{\"a\":[]}", "1", "[{},[]]", "\"s\""];
    for n in [1usize, 10, 200, 255, 256, 257, 300, 1000] {
        for tail_depth in [0usize, 1, 128, 250, 254, 255] {
            for variant in 0..ctx.tier.pick(3, 12) {
                let mut items: Vec<String> = (0..n).map(|k| if variant == 0 { ITEMS[k % 2].to_string() } else { ITEMS[(rng.next() % ITEMS.len() as u64) as usize].to_string() }).collect();
                if tail_depth > 0 {
                    // a chain nested to `tail_depth` below the top-level array: total depth tail_depth + 1 <= 256
                    let obj = variant % 2 == 1;
                    let (o, c) = if obj { ("{\"k\":", "}") } else { ("[", "]") };
                    items.push(format!("{}{}{}", o.repeat(tail_depth), if obj { "1" } else { "" }, c.repeat(tail_depth)));
                }
                let text = if variant % 3 == 2 {
                    format!("{{{}}}", items.iter().enumerate().map(|(k, v)| format!("\"k{}\":{}", k, v)).collect::<Vec<_>>().join(","))
                } else {
                    format!("[{}]", items.join(","))
                };
                ctx.case(hash_of(&text), n >= 200, &[if tail_depth > 0 { "wide+deep-tail" } else { "wide" }]);
                ctx.sample("wide", || json!({"shape": format!("top-level container with {} sibling containers, then a chain nested to depth {}", n, tail_depth + 1), "reference_accepts": true}));
                if let Some(f) = check_text_deep(&text) {
                    if !ctx.tolerate(&f) {
                        let shown: String = text.chars().take(200).collect();
                        ctx.violation(Fail { sig: f.sig, detail: format!("{} [wide document: {} sibling containers, tail nested to {}; text starts {}]", f.detail, n, tail_depth + 1, shown) }, "text", json!({"text": text}));
                    }
                }
            }
        }
    }
}

/// run on a big-stack thread: depth tests must not depend on the caller's stack
fn check_text_deep(s: &str) -> Option<Fail> {
    let s = s.to_string();
    std::thread::Builder::new()
        .stack_size(64 << 20)
        .spawn(move || check_text(&s))
        .unwrap()
        .join()
        .unwrap_or_else(|_| Some(Fail::new("parse-panic", "parser thread died")))
}

fn values(ctx: &Ctx) {
    let cases = ctx.tier.pick(24_000u32, 480_000u32);
    crate::engine::shards(8, |i| {
        let strat = (arb_value(), prop_oneof![2 => Just(None), 3 => (0usize..=8).prop_map(Some)]);
        pt::run(
            ctx,
            "value",
            pt::Opts::new(cases / 8).salt(1350 + i as u64),
            strat,
            |(v, ind)| json!({"value": jv_to_serde(v), "indent": ind}),
            |(v, ind)| {
                let nt = json::depth(v) >= 1 || matches!(v, JV::Num(_) | JV::Str(_));
                let class = if ind.is_some() { "value:pretty" } else { "value:compact" };
                ctx.case(hash_of(&format!("{:?}{:?}", v, ind)), nt, &[class]);
                ctx.sample(class, || json!({"value": cut(&format!("{:?}", v)), "indent": ind}));
                check_value(v, *ind).into_iter().collect()
            },
        );
    });
}

/// lossless encoding of a JV for replay files (numbers as bit patterns)
fn jv_to_serde(v: &JV) -> J {
    match v {
        JV::Null => json!({"t": "null"}),
        JV::Bool(b) => json!({"t": "bool", "v": b}),
        JV::Num(n) => json!({"t": "num", "bits": n.to_bits().to_string(), "approx": format!("{:e}", n)}),
        JV::Str(s) => json!({"t": "str", "utf16": s.encode_utf16().collect::<Vec<u16>>()}),
        JV::Arr(a) => json!({"t": "arr", "v": a.iter().map(jv_to_serde).collect::<Vec<_>>()}),
        JV::Obj(o) => json!({"t": "obj", "v": o.iter().map(|(k, v)| json!([k.encode_utf16().collect::<Vec<u16>>(), jv_to_serde(v)])).collect::<Vec<_>>()}),
    }
}

fn u16s(j: &J) -> String {
    let v: Vec<u16> = j.as_array().map(|a| a.iter().map(|x| x.as_u64().unwrap_or(0) as u16).collect()).unwrap_or_default();
    String::from_utf16_lossy(&v)
}

fn serde_to_jv(j: &J) -> JV {
    match j["t"].as_str().unwrap_or("null") {
        "bool" => JV::Bool(j["v"].as_bool().unwrap_or(false)),
        "num" => JV::Num(f64::from_bits(j["bits"].as_str().and_then(|s| s.parse().ok()).unwrap_or(0))),
        "str" => JV::Str(u16s(&j["utf16"])),
        "arr" => JV::Arr(j["v"].as_array().map(|a| a.iter().map(serde_to_jv).collect()).unwrap_or_default()),
        "obj" => JV::Obj(
            j["v"]
                .as_array()
                .map(|a| a.iter().map(|kv| (u16s(&kv[0]), serde_to_jv(&kv[1]))).collect())
                .unwrap_or_default(),
        ),
        _ => JV::Null,
    }
}

fn seeds(ctx: &Ctx) {
    // the repo's JSONTestSuite files (shipped but #[ignore]d): checked against the reference like any other text
    let dir = "/repo/humphrey-json/src/tests/spec/testcases";
    let mut n = 0u64;
    if let Ok(rd) = std::fs::read_dir(dir) {
        let mut files: Vec<_> = rd.filter_map(|e| e.ok()).map(|e| e.path()).collect();
        files.sort();
        for f in files {
            if let Ok(bytes) = std::fs::read(&f) {
                if let Ok(text) = String::from_utf8(bytes) {
                    n += 1;
                    let name = f.file_name().unwrap().to_string_lossy().to_string();
                    let r = json::parse(&text, LIMIT);
                    // suite expectations double as a reference self-test
                    if name.starts_with("y_") && r.is_none() {
                        harness_error(format!("reference rejects JSONTestSuite {}", name));
                    }
                    if name.starts_with("n_") && r.is_some() {
                        harness_error(format!("reference accepts JSONTestSuite {}", name));
                    }
                    ctx.case(hash_of(&text), true, &["jsontestsuite"]);
                    if let Some(fl) = check_text_deep(&text) {
                        if !ctx.tolerate(&fl) {
                            ctx.violation(fl, "text", json!({"text": text, "file": name}));
                        }
                    }
                }
            }
        }
    }
    if n == 0 {
        ctx.exclude("JSONTestSuite seed files not found under /repo", 1);
    }
}

pub fn run(ctx: &Ctx) {
    ctx.rule("exhaustive token strings (len<=5 over 16 JSON tokens; number-like len<=7 over {+,-,.,0,1,9,e,E}) + grammar-generated documents with generated layout/escape forms/number spellings and single-edit mutants + forced nesting depths + generated Values serialised compact/pretty(0..8); non-trivial: enumerated string of >=2 tokens; document with a number, an escape or nesting>=2; mutant whose validity differs from its original; value that is a container, number or string; distinct by text / value");
    ctx.assume("reference RFC 8259 recogniser in harness/src/common/json.rs; numeric value of a valid number token = Rust's correctly-rounded str::parse::<f64>; serde_json agrees on accept/reject (checked on every case outside depth>100, f64-overflowing numbers and lone surrogates; disagreement = exit 2)");
    ctx.assume("texts whose only fault is an unpaired-surrogate escape, or that contain a number overflowing f64, may be accepted or rejected");
    seeds(ctx);
    enumerate_strings(ctx, &TOKENS, 5, "JSON: all token strings of length <=5 over the 16 tokens { } [ ] : , \" \\ 0 1 - . e true null space (1 118 481 strings)");
    enumerate_strings(ctx, &NUMSYMS, 7, "JSON numbers: all strings of length <=7 over {+,-,.,0,1,9,e,E} (2 396 745 strings)");
    deep(ctx);
    wide(ctx);
    escapes(ctx);
    pretty_deep(ctx);
    documents(ctx);
    values(ctx);
}

pub fn replay(_ctx: &Ctx, kind: &str, case: &J) -> Vec<Fail> {
    match kind {
        "text" => check_text_deep(case["text"].as_str().unwrap_or("")).into_iter().collect(),
        "value" => {
            let v = serde_to_jv(&case["value"]);
            let ind = case["indent"].as_u64().map(|x| x as usize);
            check_value(&v, ind).into_iter().collect()
        }
        _ => vec![Fail::new("harness", format!("unknown replay kind {}", kind))],
    }
}
