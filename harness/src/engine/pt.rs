//! proptest driver: fixed seed, no persistence, shrink to a minimal case, write the replay file.

use super::{Ctx, Fail};
use proptest::strategy::Strategy;
use proptest::test_runner::{Config, RngSeed, TestCaseError, TestError, TestRunner};
use serde_json::Value as J;
use std::sync::atomic::Ordering;

pub struct Opts {
    pub cases: u32,
    pub max_shrink_iters: u32,
    /// salt mixed with VERIF_SEED so sub-checks / shards draw different streams
    pub salt: u64,
}

impl Opts {
    pub fn new(cases: u32) -> Opts {
        Opts {
            cases,
            max_shrink_iters: 4000,
            salt: 0,
        }
    }
    pub fn salt(mut self, s: u64) -> Opts {
        self.salt = s;
        self
    }
    pub fn shrink_iters(mut self, n: u32) -> Opts {
        self.max_shrink_iters = n;
        self
    }
}

pub fn mix(seed: u64, salt: u64) -> u64 {
    let mut z = seed ^ salt.wrapping_mul(0x9E3779B97F4A7C15);
    z = (z ^ (z >> 30)).wrapping_mul(0xBF58476D1CE4E5B9);
    z = (z ^ (z >> 27)).wrapping_mul(0x94D049BB133111EB);
    z ^ (z >> 31)
}

/// Run `oracle` over `cases` values of `strat`. The oracle does its own `ctx.case(..)` accounting
/// and returns every violation it sees; known findings are tolerated, anything else is shrunk
/// and reported. Returns true if no unknown violation was found.
pub fn run<S, O, T>(ctx: &Ctx, kind: &str, opts: Opts, strat: S, to_json: T, oracle: O) -> bool
where
    S: Strategy,
    S::Value: Clone + std::fmt::Debug,
    O: Fn(&S::Value) -> Vec<Fail>,
    T: Fn(&S::Value) -> J,
{
    let mut config = Config::default();
    config.cases = opts.cases;
    config.failure_persistence = None;
    config.rng_seed = RngSeed::Fixed(mix(ctx.seed, opts.salt));
    config.max_shrink_iters = opts.max_shrink_iters;
    config.max_shrink_time = 0;
    config.verbose = 0;
    config.max_global_rejects = 1 << 30;
    config.max_local_rejects = 1 << 30;
    let mut runner = TestRunner::new(config);
    let local_failed = std::sync::atomic::AtomicBool::new(false);
    // last failing (case, failure) seen: reported if the shrunk case does not fail again (timing-dependent failures)
    let last_failure: std::sync::Mutex<Option<(J, Fail)>> = std::sync::Mutex::new(None);
    let result = runner.run(&strat, |v| {
        let fails = oracle(&v);
        match ctx.triage(fails) {
            None => Ok(()),
            Some(f) => {
                *last_failure.lock().unwrap() = Some((to_json(&v), f.clone()));
                local_failed.store(true, Ordering::SeqCst);
                ctx.failed.store(true, Ordering::SeqCst);
                Err(TestCaseError::fail(f.sig))
            }
        }
    });
    let ok = match result {
        Ok(()) => true,
        Err(TestError::Fail(_reason, minimal)) => {
            // re-evaluate the minimal case to get its failure detail
            let fails = oracle(&minimal);
            match fails.into_iter().find(|f| !ctx.is_known(&f.sig)) {
                Some(f) => ctx.violation(f, kind, to_json(&minimal)),
                None => {
                    // not reproducible on re-evaluation: report the last observed failure with the case that showed it
                    let (case, mut f) = last_failure.lock().unwrap().take().unwrap_or((to_json(&minimal), Fail::new("unstable", "failure did not reproduce")));
                    f.detail = format!("{} [observed once; did not fail again when the shrunk case was re-run: timing-dependent]", f.detail);
                    ctx.violation(f, kind, case);
                }
            }
            false
        }
        Err(TestError::Abort(reason)) => {
            ctx.inconclusive(&format!("{}: proptest aborted: {}", kind, reason));
            true
        }
    };
    if local_failed.load(Ordering::SeqCst) {
        ctx.failed.store(false, Ordering::SeqCst);
    }
    ok
}

/// Map a u16 index monotonically into 0..len (shrinks towards 0), never `%`.
pub fn idx(i: u16, len: usize) -> usize {
    if len == 0 {
        0
    } else {
        ((i as usize) * len) >> 16
    }
}
