//! Shared engine: case accounting, known-findings matching, replay files, evidence, exit codes.
//!
//! Every property module drives one `Ctx`. Oracles report violations as `(signature, detail)`;
//! a signature listed as `known:` in /verif/known_findings.txt is counted and tolerated, any
//! other one is a VIOLATION (replay file written, exit 1).

use serde_json::{json, Value as J};
use std::collections::{BTreeMap, HashSet};
use std::hash::{Hash, Hasher};
use std::sync::atomic::{AtomicBool, Ordering};
use std::sync::Mutex;
use std::time::Instant;

pub mod pt;
pub mod worker;

pub const VERIF_DIR: &str = "/verif";

#[derive(Clone, Copy, PartialEq, Eq, Debug)]
pub enum Tier {
    Quick,
    Thorough,
}

impl Tier {
    pub fn name(&self) -> &'static str {
        match self {
            Tier::Quick => "quick",
            Tier::Thorough => "thorough",
        }
    }
    /// pick a size by tier
    pub fn pick<T>(&self, quick: T, thorough: T) -> T {
        match self {
            Tier::Quick => quick,
            Tier::Thorough => thorough,
        }
    }
}

/// One violation of the property as seen by an oracle.
#[derive(Clone, Debug)]
pub struct Fail {
    /// specific signature: input class + call site + symptom (matched against known_findings.txt)
    pub sig: String,
    /// human-readable detail
    pub detail: String,
}

impl Fail {
    pub fn new(sig: impl Into<String>, detail: impl Into<String>) -> Fail {
        Fail {
            sig: sig.into(),
            detail: detail.into(),
        }
    }
}

#[macro_export]
macro_rules! fail {
    ($sig:expr, $($arg:tt)*) => {
        $crate::engine::Fail::new($sig, format!($($arg)*))
    };
}

#[derive(Default)]
struct Inner {
    evaluations: u64,
    distinct: HashSet<u64>,
    nontrivial: HashSet<u64>,
    /// distinct non-trivial cases counted by enumeration (distinct by construction), not hashed
    nontrivial_enum: u64,
    labels: BTreeMap<String, u64>,
    samples: Vec<J>,
    sample_labels: HashSet<String>,
    excluded: BTreeMap<String, u64>,
    known_hits: BTreeMap<String, (u64, String)>,
    violations: Vec<(Fail, String)>,
    assumptions: Vec<String>,
    rules: Vec<String>,
    exhaustive_spaces: Vec<String>,
    all_exhaustive: bool,
    extra: BTreeMap<String, J>,
    inconclusive: Vec<String>,
}

pub struct Known {
    /// (property, key, text)
    known: Vec<(String, String, String)>,
}

impl Known {
    pub fn load() -> Known {
        let path = format!("{}/known_findings.txt", VERIF_DIR);
        let mut known = Vec::new();
        if let Ok(text) = std::fs::read_to_string(&path) {
            for line in text.lines() {
                let line = line.trim();
                if let Some(rest) = line.strip_prefix("known:") {
                    let rest = rest.trim();
                    let mut prop = String::new();
                    let mut key = String::new();
                    let mut words = rest.splitn(3, ' ');
                    for _ in 0..2 {
                        if let Some(w) = words.next() {
                            if let Some(p) = w.strip_prefix("property=") {
                                prop = p.to_string();
                            } else if let Some(k) = w.strip_prefix("key=") {
                                key = k.to_string();
                            }
                        }
                    }
                    let text = words.next().unwrap_or("").to_string();
                    if !prop.is_empty() && !key.is_empty() {
                        known.push((prop, key, text));
                    }
                }
            }
        }
        Known { known }
    }
    pub fn lookup(&self, prop: &str, sig: &str) -> Option<&str> {
        self.known
            .iter()
            .find(|(p, k, _)| p == prop && k == sig)
            .map(|(_, _, t)| t.as_str())
    }
}

pub struct Ctx {
    pub id: String,
    pub tier: Tier,
    pub seed: u64,
    pub level: &'static str,
    pub replay_mode: bool,
    /// write the evidence to this path instead of /verif/evidence/<id>.json (side summaries of the tokio twin)
    pub evidence_path: Option<String>,
    /// prefix for replay file names
    pub replay_tag: &'static str,
    start: Instant,
    inner: Mutex<Inner>,
    known: Known,
    /// set at first unknown violation: stop counting (proptest re-runs closures while shrinking)
    pub failed: AtomicBool,
    /// violations reported (with their own VIOLATION lines and replay files) by child processes of this run
    pub side_violations: std::sync::atomic::AtomicU64,
    /// Some((k, n)): this process is child k of n of a chunked run and does 1/n of the generated cases
    pub chunk: Option<(usize, usize)>,
}

pub fn hash_of<T: Hash + ?Sized>(t: &T) -> u64 {
    let mut h = std::collections::hash_map::DefaultHasher::new();
    t.hash(&mut h);
    h.finish()
}

const MAX_SAMPLES: usize = 12;

impl Ctx {
    pub fn new(id: &str, tier: Tier, seed: u64, level: &'static str) -> Ctx {
        Ctx {
            id: id.to_string(),
            tier,
            seed,
            level,
            replay_mode: false,
            evidence_path: None,
            replay_tag: "",
            start: Instant::now(),
            inner: Mutex::new(Inner {
                all_exhaustive: false,
                ..Default::default()
            }),
            known: Known::load(),
            failed: AtomicBool::new(false),
            side_violations: std::sync::atomic::AtomicU64::new(0),
            chunk: None,
        }
    }

    /// This process's share of `total` generated cases (all of them unless it is one chunk of a chunked run).
    pub fn share(&self, total: u32) -> u32 {
        match self.chunk {
            None => total,
            Some((k, n)) => total / n as u32 + if (k as u32) < total % n as u32 { 1 } else { 0 },
        }
    }

    /// A generator salt that differs between the chunks of a chunked run.
    pub fn salt_of(&self, base: u64) -> u64 {
        match self.chunk {
            None => base,
            Some((k, _)) => base + 100_003 * (k as u64 + 1),
        }
    }

    /// A child process found (and printed) `n` violations: this run exits 1.
    pub fn side_violation(&self, n: u64) {
        self.side_violations.fetch_add(n, Ordering::SeqCst);
        self.failed.store(true, Ordering::SeqCst);
    }

    pub fn has_failed(&self) -> bool {
        self.failed.load(Ordering::SeqCst)
    }

    /// Count one generated case. `h` identifies the case for distinctness.
    pub fn case(&self, h: u64, nontrivial: bool, labels: &[&str]) {
        if self.has_failed() {
            return;
        }
        let mut g = self.inner.lock().unwrap();
        g.evaluations += 1;
        g.distinct.insert(h);
        if nontrivial {
            g.nontrivial.insert(h);
        }
        for l in labels {
            *g.labels.entry((*l).to_string()).or_insert(0) += 1;
        }
    }

    /// Count many cases at once (for tight exhaustive loops that keep their own counters).
    pub fn bulk(&self, evaluations: u64, distinct_nontrivial_hashes: impl IntoIterator<Item = u64>) {
        let mut g = self.inner.lock().unwrap();
        g.evaluations += evaluations;
        for h in distinct_nontrivial_hashes {
            g.nontrivial.insert(h);
        }
    }

    /// Count cases of an enumeration whose elements are distinct by construction.
    pub fn bulk_n(&self, evaluations: u64, distinct_nontrivial: u64) {
        let mut g = self.inner.lock().unwrap();
        g.evaluations += evaluations;
        g.nontrivial_enum += distinct_nontrivial;
    }

    pub fn label(&self, l: &str, n: u64) {
        if self.has_failed() {
            return;
        }
        let mut g = self.inner.lock().unwrap();
        *g.labels.entry(l.to_string()).or_insert(0) += n;
    }

    /// Offer a sample; kept if we have room, preferring one per `class`.
    pub fn sample(&self, class: &str, s: impl FnOnce() -> J) {
        if self.has_failed() {
            return;
        }
        let mut g = self.inner.lock().unwrap();
        if g.samples.len() >= MAX_SAMPLES || g.sample_labels.contains(class) {
            return;
        }
        g.sample_labels.insert(class.to_string());
        let v = s();
        g.samples.push(json!({"class": class, "case": v}));
    }

    pub fn exclude(&self, reason: &str, n: u64) {
        let mut g = self.inner.lock().unwrap();
        *g.excluded.entry(reason.to_string()).or_insert(0) += n;
    }

    pub fn assume(&self, text: &str) {
        let mut g = self.inner.lock().unwrap();
        if !g.assumptions.iter().any(|a| a == text) {
            g.assumptions.push(text.to_string());
        }
    }

    pub fn rule(&self, text: &str) {
        let mut g = self.inner.lock().unwrap();
        g.rules.push(text.to_string());
    }

    pub fn exhaustive_space(&self, text: &str) {
        let mut g = self.inner.lock().unwrap();
        g.exhaustive_spaces.push(text.to_string());
    }

    pub fn extra(&self, key: &str, v: J) {
        let mut g = self.inner.lock().unwrap();
        g.extra.insert(key.to_string(), v);
    }

    pub fn inconclusive(&self, text: &str) {
        let mut g = self.inner.lock().unwrap();
        g.inconclusive.push(text.to_string());
    }

    /// Is this signature a listed known finding? If so count it (excluded from search) and return true.
    pub fn tolerate(&self, f: &Fail) -> bool {
        if let Some(text) = self.known.lookup(&self.id, &f.sig) {
            if self.has_failed() {
                return true;
            }
            let mut g = self.inner.lock().unwrap();
            let e = g
                .known_hits
                .entry(f.sig.clone())
                .or_insert((0, text.to_string()));
            e.0 += 1;
            true
        } else {
            false
        }
    }

    /// Count occurrences of a listed known finding reported by a child process.
    pub fn known_hit(&self, sig: &str, n: u64) {
        if let Some(text) = self.known.lookup(&self.id, sig) {
            let mut g = self.inner.lock().unwrap();
            let e = g.known_hits.entry(sig.to_string()).or_insert((0, text.to_string()));
            e.0 += n;
        }
    }

    pub fn is_known(&self, sig: &str) -> bool {
        self.known.lookup(&self.id, sig).is_some()
    }

    /// Filter an oracle's result: known findings are tolerated and counted; returns the first unknown failure.
    pub fn triage(&self, fails: Vec<Fail>) -> Option<Fail> {
        let mut out = None;
        for f in fails {
            if !self.tolerate(&f) && out.is_none() {
                out = Some(f);
            }
        }
        out
    }

    /// Record a (minimal) violation with its replay payload. Writes the replay file.
    pub fn violation(&self, f: Fail, kind: &str, case: J) {
        let payload = json!({
            "property": self.id,
            "kind": kind,
            "signature": f.sig,
            "detail": f.detail,
            "case": case,
        });
        let text = serde_json::to_string_pretty(&payload).unwrap();
        let path = if self.replay_mode {
            "(replayed)".to_string()
        } else {
            let h = hash_of(&text);
            let dir = format!("{}/replay", VERIF_DIR);
            let _ = std::fs::create_dir_all(&dir);
            let path = format!("{}/{}-{}{:016x}.json", dir, self.id, self.replay_tag, h);
            let _ = std::fs::write(&path, text);
            path
        };
        let mut g = self.inner.lock().unwrap();
        // one violation per signature is enough
        if g.violations.iter().any(|(x, _)| x.sig == f.sig) {
            return;
        }
        g.violations.push((f, path));
    }

    /// Record a violation whose replay file already exists (a saved fuzz input).
    pub fn violation_file(&self, f: Fail, path: String) {
        let mut g = self.inner.lock().unwrap();
        if g.violations.iter().any(|(x, _)| x.sig == f.sig) {
            return;
        }
        g.violations.push((f, path));
    }

    /// Merge the summary written by a sibling runner (the tokio twin) into this run's accounting.
    pub fn merge_side(&self, path: &str, prefix: &str) -> Option<i64> {
        let text = std::fs::read_to_string(path).ok()?;
        let v: J = serde_json::from_str(&text).ok()?;
        let cov = &v["coverage"];
        let mut g = self.inner.lock().unwrap();
        g.evaluations += cov["evaluations"].as_u64().unwrap_or(0);
        g.nontrivial_enum += cov["distinct_nontrivial"].as_u64().unwrap_or(0);
        if let Some(l) = cov["labels"].as_object() {
            for (k, n) in l {
                *g.labels.entry(format!("{}{}", prefix, k)).or_insert(0) += n.as_u64().unwrap_or(0);
            }
        }
        if let Some(sm) = cov["samples"].as_array() {
            for x in sm.iter().take(3) {
                g.samples.push(json!({"class": format!("{}{}", prefix, x["class"].as_str().unwrap_or("")), "case": x["case"].clone()}));
            }
        }
        if let Some(r) = cov["rule"].as_str() {
            g.rules.push(format!("[{}] {}", prefix.trim_end_matches(':'), r));
        }
        if let Some(a) = v["assumptions"].as_array() {
            for x in a {
                if let Some(t) = x.as_str() {
                    g.assumptions.push(format!("[{}] {}", prefix.trim_end_matches(':'), t));
                }
            }
        }
        let viol = v["violations"].as_i64().unwrap_or(0);
        g.extra.insert(format!("{}violations", prefix), json!(viol));
        g.extra.insert(format!("{}wall_s", prefix), v["wall_s"].clone());
        Some(viol)
    }

    pub fn n_violations(&self) -> usize {
        self.inner.lock().unwrap().violations.len()
    }

    /// Write evidence, print result lines, return exit code.
    pub fn finish(&self) -> i32 {
        let g = self.inner.lock().unwrap();
        let wall = self.start.elapsed().as_secs_f64();
        for (sig, (n, text)) in &g.known_hits {
            println!(
                "KNOWN-FINDING: property={} key={} occurrences={} {}",
                self.id, sig, n, text
            );
        }
        for (f, path) in &g.violations {
            println!("VIOLATION property={} replay={}", self.id, path);
            println!("  signature: {}", f.sig);
            let d: String = f.detail.chars().take(2000).collect();
            println!("  detail: {}", d);
        }
        let mut coverage = serde_json::Map::new();
        coverage.insert("evaluations".into(), json!(g.evaluations));
        coverage.insert("distinct".into(), json!(g.distinct.len()));
        coverage.insert(
            "distinct_nontrivial".into(),
            json!(g.nontrivial.len() as u64 + g.nontrivial_enum),
        );
        coverage.insert("rule".into(), json!(g.rules.join(" | ")));
        coverage.insert("samples".into(), J::Array(g.samples.clone()));
        coverage.insert("labels".into(), json!(g.labels));
        coverage.insert("excluded".into(), json!(g.excluded));
        if !g.exhaustive_spaces.is_empty() {
            coverage.insert("exhaustive".into(), json!(true));
            coverage.insert("exhaustive_spaces".into(), json!(g.exhaustive_spaces));
        }
        let kh: BTreeMap<&String, u64> = g.known_hits.iter().map(|(k, v)| (k, v.0)).collect();
        coverage.insert("known_findings_hit".into(), json!(kh));
        if !g.inconclusive.is_empty() {
            coverage.insert("inconclusive".into(), json!(g.inconclusive));
        }
        for (k, v) in &g.extra {
            coverage.insert(k.clone(), v.clone());
        }
        let ev = json!({
            "property_id": self.id,
            "tier": self.tier.name(),
            "seed": self.seed,
            "level": self.level,
            "coverage": J::Object(coverage),
            "assumptions": g.assumptions,
            "wall_s": (wall * 1000.0).round() / 1000.0,
            "violations": g.violations.len() as u64 + self.side_violations.load(Ordering::SeqCst),
        });
        if !self.replay_mode {
            let dir = format!("{}/evidence", VERIF_DIR);
            let _ = std::fs::create_dir_all(&dir);
            let path = self.evidence_path.clone().unwrap_or_else(|| format!("{}/{}.json", dir, self.id));
            if let Err(e) = std::fs::write(&path, serde_json::to_string_pretty(&ev).unwrap() + "\n")
            {
                eprintln!("cannot write evidence {}: {}", path, e);
                return 2;
            }
        }
        println!(
            "{} {}: evaluations={} distinct_nontrivial={} known_findings={} violations={} wall={:.1}s",
            self.id,
            self.tier.name(),
            g.evaluations,
            g.nontrivial.len() as u64 + g.nontrivial_enum,
            g.known_hits.len(),
            g.violations.len() as u64 + self.side_violations.load(Ordering::SeqCst),
            wall
        );
        if !g.violations.is_empty() || self.side_violations.load(Ordering::SeqCst) > 0 {
            1
        } else if !g.inconclusive.is_empty() && g.evaluations == 0 {
            for i in &g.inconclusive {
                println!("INCONCLUSIVE: {}", i);
            }
            2
        } else {
            0
        }
    }
}

/// hex helpers for replay payloads
pub fn hex(b: &[u8]) -> String {
    let mut s = String::with_capacity(b.len() * 2);
    for x in b {
        s.push_str(&format!("{:02x}", x));
    }
    s
}

pub fn unhex(s: &str) -> Vec<u8> {
    let b = s.as_bytes();
    let mut out = Vec::with_capacity(b.len() / 2);
    let mut i = 0;
    while i + 1 < b.len() {
        let v = u8::from_str_radix(std::str::from_utf8(&b[i..i + 2]).unwrap_or("00"), 16).unwrap_or(0);
        out.push(v);
        i += 2;
    }
    out
}

/// printable rendering of bytes for samples (lossy, escaped)
pub fn show(b: &[u8]) -> String {
    let mut s = String::new();
    for &c in b.iter().take(400) {
        match c {
            b'\r' => s.push_str("\\r"),
            b'\n' => s.push_str("\\n"),
            b'\\' => s.push_str("\\\\"),
            0x20..=0x7e => s.push(c as char),
            _ => s.push_str(&format!("\\x{:02x}", c)),
        }
    }
    if b.len() > 400 {
        s.push_str(&format!("…(+{} bytes)", b.len() - 400));
    }
    s
}

/// Run `f` over `n` shards in parallel threads; each shard gets its index.
pub fn shards<F: Fn(usize) + Sync>(n: usize, f: F) {
    std::thread::scope(|s| {
        for i in 0..n {
            let f = &f;
            std::thread::Builder::new()
                .name(format!("hv-shard-{}", i))
                .stack_size(16 << 20)
                .spawn_scoped(s, move || f(i))
                .unwrap();
        }
    });
}

/// catch a panic, returning its message
pub fn catch<R>(f: impl FnOnce() -> R) -> Result<R, String> {
    match std::panic::catch_unwind(std::panic::AssertUnwindSafe(f)) {
        Ok(r) => Ok(r),
        Err(e) => {
            let msg = if let Some(s) = e.downcast_ref::<&str>() {
                s.to_string()
            } else if let Some(s) = e.downcast_ref::<String>() {
                s.clone()
            } else {
                "<non-string panic>".to_string()
            };
            Err(msg)
        }
    }
}

/// Install a panic hook that stays silent (oracles use catch_unwind a lot).
pub fn quiet_panics() {
    if std::env::var("HV_DEBUG").is_ok() {
        return;
    }
    // silent for panics caught by oracles; a panic of the harness itself (main thread / scoped shard) still reports
    std::panic::set_hook(Box::new(|info| {
        let name = std::thread::current().name().map(|s| s.to_string()).unwrap_or_default();
        if name == "main" || name.starts_with("hv-shard") {
            eprintln!("HARNESS PANIC in thread {}: {}", name, info);
        }
    }));
}

// ---------------------------------------------------------------- enumeration helpers

pub struct Acc {
    pub evals: u64,
    pub nontrivial: u64,
    pub first: Option<(Fail, &'static str, J)>,
}

impl Acc {
    pub fn new() -> Acc {
        Acc { evals: 0, nontrivial: 0, first: None }
    }
    pub fn add(&mut self, nt: bool, f: Option<Fail>, kind: &'static str, case: impl FnOnce() -> J) {
        self.evals += 1;
        if nt {
            self.nontrivial += 1;
        }
        if let Some(f) = f {
            if self.first.is_none() {
                self.first = Some((f, kind, case()));
            }
        }
    }
}

pub fn merge(ctx: &Ctx, accs: Vec<Acc>) {
    for a in accs {
        ctx.bulk_n(a.evals, a.nontrivial);
        if let Some((f, kind, case)) = a.first {
            if !ctx.tolerate(&f) {
                ctx.violation(f, kind, case);
            }
        }
    }
}

/// run `f(shard, nshards, &mut Acc)` on 16 threads
pub fn par(ctx: &Ctx, f: impl Fn(usize, usize, &mut Acc) + Sync) {
    let n = 16;
    let out = Mutex::new(Vec::new());
    std::thread::scope(|s| {
        for i in 0..n {
            let f = &f;
            let out = &out;
            s.spawn(move || {
                let mut a = Acc::new();
                f(i, n, &mut a);
                out.lock().unwrap().push(a);
            });
        }
    });
    merge(ctx, out.into_inner().unwrap());
}

pub struct Lcg(pub u64);
impl Lcg {
    pub fn next(&mut self) -> u64 {
        self.0 = pt::mix(self.0, 0x1234567);
        self.0
    }
    pub fn bytes(&mut self, n: usize) -> Vec<u8> {
        let mut v = Vec::with_capacity(n + 8);
        while v.len() < n {
            v.extend_from_slice(&self.next().to_le_bytes());
        }
        v.truncate(n);
        v
    }
}

/// A scratch directory under the system temp dir, removed on drop.
pub struct TmpDir(pub std::path::PathBuf);
impl TmpDir {
    pub fn new(tag: &str) -> TmpDir {
        static N: std::sync::atomic::AtomicU64 = std::sync::atomic::AtomicU64::new(0);
        let n = N.fetch_add(1, std::sync::atomic::Ordering::SeqCst);
        let p = std::env::temp_dir().join(format!("hv-{}-{}-{}", tag, std::process::id(), n));
        let _ = std::fs::remove_dir_all(&p);
        std::fs::create_dir_all(&p).unwrap();
        TmpDir(p)
    }
}
impl Drop for TmpDir {
    fn drop(&mut self) {
        let _ = std::fs::remove_dir_all(&self.0);
    }
}


/// Runs a check as `nchunks` child processes of this binary (`hv worker chunk <ID> <tier> <k> <n>`), one after the other,
/// each doing 1/n of the generated cases, and merges their summaries into `ctx`. For checks that start thousands of
/// applications: every started thread pool leaves its detached recovery thread behind, so one process cannot start them all.
pub fn run_chunked(ctx: &Ctx, nchunks: usize) {
    let exe = match std::env::current_exe() {
        Ok(e) => e,
        Err(e) => {
            ctx.inconclusive(&format!("chunked run: cannot find own executable: {}", e));
            return;
        }
    };
    let mut printed: std::collections::HashSet<String> = std::collections::HashSet::new();
    for k in 0..nchunks {
        if ctx.has_failed() {
            break;
        }
        let path = format!("{}/target/chunk-{}-{}.json", VERIF_DIR, ctx.id, k);
        let _ = std::fs::remove_file(&path);
        let out = std::process::Command::new(&exe).args(["worker", "chunk", &ctx.id, ctx.tier.name(), &k.to_string(), &nchunks.to_string()]).env("VERIF_SEED", ctx.seed.to_string()).output();
        let out = match out {
            Ok(o) => o,
            Err(e) => {
                ctx.inconclusive(&format!("chunked run: cannot start child: {}", e));
                break;
            }
        };
        let text = String::from_utf8_lossy(&out.stdout);
        let lines: Vec<&str> = text.lines().collect();
        let mut i = 0;
        while i < lines.len() {
            let l = lines[i];
            if l.starts_with("VIOLATION") {
                let sig = lines.get(i + 1).map(|x| x.trim().to_string()).unwrap_or_default();
                let fresh = printed.insert(sig);
                let mut m = i;
                loop {
                    if fresh {
                        println!("{}", lines[m]);
                    }
                    m += 1;
                    if m >= lines.len() || !(lines[m].starts_with("  signature") || lines[m].starts_with("  detail")) {
                        break;
                    }
                }
                i = m;
                continue;
            }
            i += 1;
        }
        let v: J = match std::fs::read_to_string(&path).ok().and_then(|t| serde_json::from_str(&t).ok()) {
            Some(v) => v,
            None => {
                ctx.inconclusive(&format!("chunked run: child {} of {} left no summary (exit {:?})", k, nchunks, out.status.code()));
                continue;
            }
        };
        let _ = std::fs::remove_file(&path);
        let cov = &v["coverage"];
        ctx.bulk_n(cov["evaluations"].as_u64().unwrap_or(0), cov["distinct_nontrivial"].as_u64().unwrap_or(0));
        if let Some(l) = cov["labels"].as_object() {
            for (name, n) in l {
                ctx.label(name, n.as_u64().unwrap_or(0));
            }
        }
        if let Some(sm) = cov["samples"].as_array() {
            for x in sm {
                ctx.sample(x["class"].as_str().unwrap_or("case"), || x["case"].clone());
            }
        }
        if let Some(ex) = cov["excluded"].as_object() {
            for (name, n) in ex {
                ctx.exclude(name, n.as_u64().unwrap_or(0));
            }
        }
        if let Some(inc) = cov["inconclusive"].as_array() {
            for x in inc {
                ctx.inconclusive(x.as_str().unwrap_or("?"));
            }
        }
        if let Some(kh) = cov["known_findings_hit"].as_object() {
            for (sig, n) in kh {
                ctx.known_hit(sig, n.as_u64().unwrap_or(0));
            }
        }
        if k == 0 {
            if let Some(r) = cov["rule"].as_str() {
                ctx.rule(r);
            }
            if let Some(a) = v["assumptions"].as_array() {
                for x in a {
                    ctx.assume(x.as_str().unwrap_or(""));
                }
            }
            if let Some(es) = cov["exhaustive_spaces"].as_array() {
                for x in es {
                    ctx.exhaustive_space(x.as_str().unwrap_or(""));
                }
            }
        }
        let viol = v["violations"].as_u64().unwrap_or(0);
        if viol > 0 {
            ctx.side_violation(viol);
        }
    }
    ctx.extra("chunked", json!({"child_processes": nchunks, "why": "every started thread pool leaves its detached recovery thread behind; the thorough tier starts more applications than one process has threads for"}));
}
