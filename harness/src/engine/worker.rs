//! Isolated worker processes: run one parser call per case under an address-space limit with a
//! counting allocator; the parent attributes a worker's death (abort, SIGSEGV, CPU watchdog) to the
//! case it was running.

use std::alloc::{GlobalAlloc, Layout, System};
use std::io::{Read, Write};
use std::process::{Child, ChildStdin, ChildStdout, Command, Stdio};
use std::sync::atomic::{AtomicBool, AtomicU64, Ordering};

pub struct CountingAlloc;

static ENABLED: AtomicBool = AtomicBool::new(false);
static CUR: AtomicU64 = AtomicU64::new(0);
static PEAK: AtomicU64 = AtomicU64::new(0);
static MAX_SINGLE: AtomicU64 = AtomicU64::new(0);

unsafe impl GlobalAlloc for CountingAlloc {
    unsafe fn alloc(&self, l: Layout) -> *mut u8 {
        if ENABLED.load(Ordering::Relaxed) {
            note_alloc(l.size() as u64);
        }
        System.alloc(l)
    }
    unsafe fn alloc_zeroed(&self, l: Layout) -> *mut u8 {
        if ENABLED.load(Ordering::Relaxed) {
            note_alloc(l.size() as u64);
        }
        System.alloc_zeroed(l)
    }
    unsafe fn dealloc(&self, p: *mut u8, l: Layout) {
        if ENABLED.load(Ordering::Relaxed) {
            let s = l.size() as u64;
            let _ = CUR.fetch_update(Ordering::Relaxed, Ordering::Relaxed, |c| Some(c.saturating_sub(s)));
        }
        System.dealloc(p, l)
    }
    unsafe fn realloc(&self, p: *mut u8, l: Layout, new: usize) -> *mut u8 {
        if ENABLED.load(Ordering::Relaxed) {
            let old = l.size() as u64;
            let _ = CUR.fetch_update(Ordering::Relaxed, Ordering::Relaxed, |c| Some(c.saturating_sub(old)));
            note_alloc(new as u64);
        }
        System.realloc(p, l, new)
    }
}

fn note_alloc(s: u64) {
    let c = CUR.fetch_add(s, Ordering::Relaxed) + s;
    PEAK.fetch_max(c, Ordering::Relaxed);
    MAX_SINGLE.fetch_max(s, Ordering::Relaxed);
}

fn counters_reset() {
    CUR.store(0, Ordering::Relaxed);
    PEAK.store(0, Ordering::Relaxed);
    MAX_SINGLE.store(0, Ordering::Relaxed);
}

/// Runs `f` with allocation counting on: (result, peak live bytes, largest single request). Not re-entrant.
pub fn measure<R>(f: impl FnOnce() -> R) -> (R, u64, u64) {
    counters_reset();
    ENABLED.store(true, Ordering::SeqCst);
    let r = f();
    ENABLED.store(false, Ordering::SeqCst);
    (r, PEAK.load(Ordering::Relaxed), MAX_SINGLE.load(Ordering::Relaxed))
}

fn process_cpu_us() -> u64 {
    let mut ts = libc::timespec { tv_sec: 0, tv_nsec: 0 };
    unsafe { libc::clock_gettime(libc::CLOCK_PROCESS_CPUTIME_ID, &mut ts) };
    ts.tv_sec as u64 * 1_000_000 + ts.tv_nsec as u64 / 1000
}

pub const ST_OK: u8 = 0; // parser returned a value
pub const ST_ERR: u8 = 1; // parser returned an error
pub const ST_PANIC: u8 = 2;
pub const ST_CPU: u8 = 3; // CPU watchdog inside the worker
pub const ST_DIED: u8 = 4; // worker process died (signal / abort / exit)
pub const ST_STALL: u8 = 5; // no answer but no CPU burnt either: inconclusive

#[derive(Clone, Debug)]
pub struct Outcome {
    pub status: u8,
    pub peak: u64,
    pub max_single: u64,
    pub cpu_us: u64,
    /// how far the parser got (target-specific progress class)
    pub progress: u8,
    pub msg: String,
}

/// What a target function returns: (is_ok_value, progress class, message)
pub type TargetFn = fn(u8, u8, &[u8]) -> (bool, u8, String);

const CPU_LIMIT_US: u64 = 10_000_000;

/// Worker side: read cases from stdin, answer on stdout. Never returns normally.
pub fn worker_loop(target_fn: TargetFn) -> i32 {
    unsafe {
        let lim = libc::rlimit { rlim_cur: 2 << 30, rlim_max: 2 << 30 };
        libc::setrlimit(libc::RLIMIT_AS, &lim);
        // no core dumps
        let z = libc::rlimit { rlim_cur: 0, rlim_max: 0 };
        libc::setrlimit(libc::RLIMIT_CORE, &z);
    }
    std::panic::set_hook(Box::new(|_| {}));
    let stdin = std::io::stdin();
    let mut stdin = stdin.lock();
    let stdout = std::io::stdout();
    let mut stdout = stdout.lock();
    let mut runners: std::collections::HashMap<usize, std::sync::mpsc::Sender<(u8, u8, Vec<u8>, std::sync::mpsc::Sender<(Result<(bool, u8, String), String>, u64, u64)>)>> = std::collections::HashMap::new();
    loop {
        let mut head = [0u8; 10];
        if stdin.read_exact(&mut head).is_err() {
            return 0;
        }
        let target = head[0];
        let mode = head[1];
        let stack_mb = u32::from_le_bytes([head[2], head[3], head[4], head[5]]) as usize;
        let len = u32::from_le_bytes([head[6], head[7], head[8], head[9]]) as usize;
        let mut data = vec![0u8; len];
        if stdin.read_exact(&mut data).is_err() {
            return 0;
        }
        let (tx, rx) = std::sync::mpsc::channel();
        let cpu0 = process_cpu_us();
        // persistent runner thread per stack size (a fresh thread per case costs an mmap/munmap pair)
        let runner = runners.entry(stack_mb.max(1)).or_insert_with(|| {
            let (jtx, jrx) = std::sync::mpsc::channel::<(u8, u8, Vec<u8>, std::sync::mpsc::Sender<(Result<(bool, u8, String), String>, u64, u64)>)>();
            std::thread::Builder::new()
                .stack_size(stack_mb.max(1) << 20)
                .spawn(move || {
                    while let Ok((target, mode, data, tx)) = jrx.recv() {
                        counters_reset();
                        ENABLED.store(true, Ordering::SeqCst);
                        let r = std::panic::catch_unwind(|| target_fn(target, mode, &data));
                        ENABLED.store(false, Ordering::SeqCst);
                        let peak = PEAK.load(Ordering::Relaxed);
                        let ms = MAX_SINGLE.load(Ordering::Relaxed);
                        let _ = tx.send((
                            r.map_err(|e| {
                                if let Some(s) = e.downcast_ref::<&str>() {
                                    s.to_string()
                                } else if let Some(s) = e.downcast_ref::<String>() {
                                    s.clone()
                                } else {
                                    "<panic>".to_string()
                                }
                            }),
                            peak,
                            ms,
                        ));
                    }
                })
                .unwrap();
            jtx
        });
        let _ = runner.send((target, mode, data, tx));
        // wait with a CPU watchdog
        let result = loop {
            match rx.recv_timeout(std::time::Duration::from_millis(250)) {
                Ok(r) => break Some(r),
                Err(std::sync::mpsc::RecvTimeoutError::Timeout) => {
                    if process_cpu_us() - cpu0 > CPU_LIMIT_US {
                        break None;
                    }
                }
                Err(_) => break None,
            }
        };
        let cpu = process_cpu_us() - cpu0;
        let (status, peak, ms, progress, msg) = match result {
            Some((Ok((okv, progress, msg)), peak, ms)) => (if okv { ST_OK } else { ST_ERR }, peak, ms, progress, msg),
            Some((Err(p), peak, ms)) => (ST_PANIC, peak, ms, 0, p),
            None => (ST_CPU, 0, 0, 0, format!("no result after {} us of CPU time", cpu)),
        };
        let msg = msg.into_bytes();
        let msg = &msg[..msg.len().min(60000)];
        let mut out = Vec::with_capacity(32 + msg.len());
        out.push(status);
        out.extend_from_slice(&peak.to_le_bytes());
        out.extend_from_slice(&ms.to_le_bytes());
        out.extend_from_slice(&cpu.to_le_bytes());
        out.push(progress);
        out.extend_from_slice(&(msg.len() as u16).to_le_bytes());
        out.extend_from_slice(msg);
        if stdout.write_all(&out).is_err() || stdout.flush().is_err() {
            return 0;
        }
        if status == ST_CPU {
            // the runaway thread cannot be stopped: leave
            std::process::exit(3);
        }
    }
}

pub struct Worker {
    child: Child,
    stdin: ChildStdin,
    stdout: ChildStdout,
}

impl Worker {
    pub fn spawn() -> Worker {
        let exe = std::env::current_exe().expect("current_exe");
        let mut child = Command::new(exe)
            .arg("worker")
            .arg("parsers")
            .stdin(Stdio::piped())
            .stdout(Stdio::piped())
            .stderr(Stdio::null())
            .spawn()
            .expect("spawn worker");
        let stdin = child.stdin.take().unwrap();
        let stdout = child.stdout.take().unwrap();
        Worker { child, stdin, stdout }
    }

    fn read_reply(&mut self) -> std::io::Result<Outcome> {
        let mut head = [0u8; 28];
        self.stdout.read_exact(&mut head)?;
        let status = head[0];
        let peak = u64::from_le_bytes(head[1..9].try_into().unwrap());
        let max_single = u64::from_le_bytes(head[9..17].try_into().unwrap());
        let cpu_us = u64::from_le_bytes(head[17..25].try_into().unwrap());
        let progress = head[25];
        let n = u16::from_le_bytes([head[26], head[27]]) as usize;
        let mut msg = vec![0u8; n];
        self.stdout.read_exact(&mut msg)?;
        Ok(Outcome { status, peak, max_single, cpu_us, progress, msg: String::from_utf8_lossy(&msg).to_string() })
    }

    /// Run one case; on worker death returns ST_DIED with the exit status and respawns.
    pub fn run(&mut self, target: u8, mode: u8, stack_mb: u32, data: &[u8]) -> Outcome {
        let mut head = Vec::with_capacity(10 + data.len());
        head.push(target);
        head.push(mode);
        head.extend_from_slice(&stack_mb.to_le_bytes());
        head.extend_from_slice(&(data.len() as u32).to_le_bytes());
        head.extend_from_slice(data);
        let sent = self.stdin.write_all(&head).and_then(|_| self.stdin.flush());
        let reply = if sent.is_ok() { self.read_reply() } else { Err(std::io::Error::new(std::io::ErrorKind::Other, "write failed")) };
        match reply {
            Ok(o) => {
                if o.status == ST_CPU {
                    let _ = self.child.wait();
                    *self = Worker::spawn();
                }
                o
            }
            Err(_) => {
                let st = self.child.wait();
                let msg = match st {
                    Ok(s) => {
                        use std::os::unix::process::ExitStatusExt;
                        match s.signal() {
                            Some(sig) => format!("worker killed by signal {} ({})", sig, match sig { 6 => "SIGABRT: abort, e.g. allocation failure", 11 => "SIGSEGV: e.g. stack overflow", 9 => "SIGKILL", _ => "" }),
                            None => format!("worker exited with status {:?}", s.code()),
                        }
                    }
                    Err(e) => format!("worker wait failed: {}", e),
                };
                *self = Worker::spawn();
                Outcome { status: ST_DIED, peak: 0, max_single: 0, cpu_us: 0, progress: 0, msg }
            }
        }
    }
}

impl Drop for Worker {
    fn drop(&mut self) {
        let _ = self.child.kill();
        let _ = self.child.wait();
    }
}
