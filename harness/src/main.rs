//! hv — property checks for w-henderson/Humphrey (see /verif/DESIGN.md).
//! usage: hv <ID> <quick|thorough>  |  hv <ID> --replay <file>  |  hv worker <...>

use hv::engine::{self, Ctx, Tier};
use hv::props;

#[global_allocator]
static ALLOC: engine::worker::CountingAlloc = engine::worker::CountingAlloc;

fn main() {
    let args: Vec<String> = std::env::args().collect();
    if args.len() < 3 && args.get(1).map(|s| s.as_str()) != Some("fuzz-targets") {
        eprintln!("usage: hv <ID> <quick|thorough> | hv <ID> --replay <file>");
        std::process::exit(2);
    }
    if args[1] == "worker" {
        std::process::exit(props::worker_main(&args[2..]));
    }
    if args[1] == "fuzz-targets" {
        // the table of libFuzzer targets, for tools/fuzz_tier.py
        let t: Vec<serde_json::Value> = props::fuzzers::TARGETS.iter().map(|t| serde_json::json!({"target": t.0, "property": t.1, "max_len": t.2, "input": t.3, "runs_thorough": t.4})).collect();
        println!("{}", serde_json::to_string(&t).unwrap());
        std::process::exit(0);
    }
    if args[1] == "fuzzcase" {
        // hv fuzzcase <target> <file>: evaluate one saved fuzz input with the target's oracle, outside libFuzzer
        engine::quiet_panics();
        std::process::exit(fuzzcase(&args[2], args.get(3).map(|s| s.as_str()).unwrap_or("")));
    }
    let id = args[1].to_uppercase();
    let seed: u64 = std::env::var("VERIF_SEED")
        .ok()
        .and_then(|s| s.trim().parse::<u64>().ok())
        .unwrap_or(20260928);
    engine::quiet_panics();
    if args[2] == "--replay" {
        let path = args.get(3).cloned().unwrap_or_default();
        let text = match std::fs::read(&path) {
            Ok(t) => String::from_utf8_lossy(&t).into_owned(),
            Err(e) => {
                eprintln!("cannot read replay file {}: {}", path, e);
                std::process::exit(2);
            }
        };
        // a saved libFuzzer input: /verif/replay/<ID>-fuzz-<target>-<crash|timeout|oom>-<sha>
        if let Some(t) = props::fuzzers::TARGETS.iter().find(|t| path.contains(&format!("-fuzz-{}-", t.0))) {
            std::process::exit(fuzzcase(t.0, &path));
        }
        let v: serde_json::Value = match serde_json::from_str(&text) {
            Ok(v) => v,
            Err(e) => {
                eprintln!("bad replay file {}: {}", path, e);
                std::process::exit(2);
            }
        };
        let mut ctx = Ctx::new(&id, Tier::Quick, seed, props::level_of(&id));
        ctx.replay_mode = true;
        let kind = v["kind"].as_str().unwrap_or("").to_string();
        let fails = props::replay(&ctx, &id, &kind, &v["case"]);
        let mut code = 0;
        for f in fails {
            if ctx.tolerate(&f) {
                println!("KNOWN-FINDING: property={} key={} {}", id, f.sig, f.detail);
            } else {
                println!("VIOLATION property={} replay={}", id, path);
                println!("  signature: {}", f.sig);
                println!("  detail: {}", f.detail);
                code = 1;
            }
        }
        if code == 0 {
            println!("{} replay {}: property held", id, path);
        }
        std::process::exit(code);
    }
    let tier = match args[2].as_str() {
        "quick" => Tier::Quick,
        "thorough" => Tier::Thorough,
        other => {
            eprintln!("unknown tier {}", other);
            std::process::exit(2);
        }
    };
    let ctx = Ctx::new(&id, tier, seed, props::level_of(&id));
    // saved replays for this property are re-run first (seconds-long regression tier)
    props::run_saved_replays(&ctx);
    if !props::run(&ctx) {
        eprintln!("unknown property {}", id);
        std::process::exit(2);
    }
    // committed fuzz corpus of the property's libFuzzer targets, re-evaluated in-process
    props::fuzzers::replay_corpus(&ctx);
    // the libFuzzer campaign (tools/fuzz_tier.py, thorough tier) runs first and leaves a summary
    let fz = format!("/verif/target/fuzz-{}.json", id);
    let mut fz_viol = 0;
    if std::path::Path::new(&fz).exists() {
        fz_viol = ctx.merge_side(&fz, "fuzz:").unwrap_or(0);
        if let Ok(t) = std::fs::read_to_string(&fz) {
            if let Ok(v) = serde_json::from_str::<serde_json::Value>(&t) {
                ctx.extra("fuzz_targets", v["targets"].clone());
            }
        }
    }
    if fz_viol > 0 {
        ctx.side_violation(fz_viol as u64);
    }
    // the tokio twin (crate hvt) runs first and leaves a summary that becomes part of this property's evidence
    let side = format!("/verif/target/tokio-{}.json", id);
    let mut side_viol = 0;
    if std::path::Path::new(&side).exists() {
        side_viol = ctx.merge_side(&side, "tokio:").unwrap_or(0);
    }
    let code = ctx.finish();
    std::process::exit(if code == 0 && side_viol > 0 { 1 } else { code });
}

/// Evaluates one saved fuzz input. Exit code as for a replay: 0 held / known finding, 1 violation, 2 cannot tell.
fn fuzzcase(target: &str, path: &str) -> i32 {
    let data = match std::fs::read(path) {
        Ok(d) => d,
        Err(e) => {
            eprintln!("cannot read {}: {}", path, e);
            return 2;
        }
    };
    let prop = match props::fuzzers::property_of(target) {
        Some(p) => p,
        None => {
            eprintln!("unknown fuzz target {}", target);
            return 2;
        }
    };
    let known = engine::Known::load();
    let r = props::fuzzers::fuzz_one(target, &data);
    let mut code = 0;
    for f in r.fails {
        if f.sig == "harness" {
            println!("INCONCLUSIVE: {}", f.detail);
            return 2;
        }
        if let Some(t) = known.lookup(prop, &f.sig) {
            println!("KNOWN-FINDING: property={} key={} {}", prop, f.sig, t);
        } else {
            println!("VIOLATION property={} replay={}", prop, path);
            println!("  signature: {}", f.sig);
            println!("  detail: {}", f.detail);
            code = 1;
        }
    }
    if code == 0 {
        println!("{} fuzz input {} ({}): property held", prop, path, r.label);
    }
    code
}
