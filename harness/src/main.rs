//! hv — property checks for w-henderson/Humphrey (see /verif/DESIGN.md).
//! usage: hv <ID> <quick|thorough>  |  hv <ID> --replay <file>  |  hv worker <...>

use hv::engine::{self, Ctx, Tier};
use hv::props;

#[global_allocator]
static ALLOC: engine::worker::CountingAlloc = engine::worker::CountingAlloc;

fn main() {
    let args: Vec<String> = std::env::args().collect();
    if args.len() < 3 {
        eprintln!("usage: hv <ID> <quick|thorough> | hv <ID> --replay <file>");
        std::process::exit(2);
    }
    if args[1] == "worker" {
        std::process::exit(props::worker_main(&args[2..]));
    }
    let id = args[1].to_uppercase();
    let seed: u64 = std::env::var("VERIF_SEED")
        .ok()
        .and_then(|s| s.trim().parse::<u64>().ok())
        .unwrap_or(20260928);
    engine::quiet_panics();
    if args[2] == "--replay" {
        let path = args.get(3).cloned().unwrap_or_default();
        let text = match std::fs::read_to_string(&path) {
            Ok(t) => t,
            Err(e) => {
                eprintln!("cannot read replay file {}: {}", path, e);
                std::process::exit(2);
            }
        };
        let v: serde_json::Value = match serde_json::from_str(&text) {
            Ok(v) => v,
            Err(e) => {
                eprintln!("bad replay file {}: {}", path, e);
                std::process::exit(2);
            }
        };
        let mut ctx = Ctx::new(&id, Tier::Quick, seed, props::level_of(&id));
        ctx.replay_mode = true;
        let kind = v["kind"].as_str().unwrap_or("").to_string();
        let fails = props::replay(&ctx, &id, &kind, &v["case"]);
        let mut code = 0;
        for f in fails {
            if ctx.tolerate(&f) {
                println!("KNOWN-FINDING: property={} key={} {}", id, f.sig, f.detail);
            } else {
                println!("VIOLATION property={} replay={}", id, path);
                println!("  signature: {}", f.sig);
                println!("  detail: {}", f.detail);
                code = 1;
            }
        }
        if code == 0 {
            println!("{} replay {}: property held", id, path);
        }
        std::process::exit(code);
    }
    let tier = match args[2].as_str() {
        "quick" => Tier::Quick,
        "thorough" => Tier::Thorough,
        other => {
            eprintln!("unknown tier {}", other);
            std::process::exit(2);
        }
    };
    let ctx = Ctx::new(&id, tier, seed, props::level_of(&id));
    // saved replays for this property are re-run first (seconds-long regression tier)
    props::run_saved_replays(&ctx);
    if !props::run(&ctx) {
        eprintln!("unknown property {}", id);
        std::process::exit(2);
    }
    // the tokio twin (crate hvt) runs first and leaves a summary that becomes part of this property's evidence
    let side = format!("/verif/target/tokio-{}.json", id);
    let mut side_viol = 0;
    if std::path::Path::new(&side).exists() {
        side_viol = ctx.merge_side(&side, "tokio:").unwrap_or(0);
    }
    let code = ctx.finish();
    std::process::exit(if code == 0 && side_viol > 0 { 1 } else { code });
}
