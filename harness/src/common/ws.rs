//! RFC 6455 reference frame codec (section 5.2), written from the RFC.

use serde::{Deserialize, Serialize};

#[derive(Clone, Debug, PartialEq, Eq, Serialize, Deserialize, Hash)]
pub struct RFrame {
    pub fin: bool,
    pub rsv: [bool; 3],
    pub opcode: u8,
    pub mask: Option<[u8; 4]>,
    /// application payload (unmasked)
    pub payload: Vec<u8>,
}

pub const OPCODES: [u8; 6] = [0x0, 0x1, 0x2, 0x8, 0x9, 0xA];

pub fn is_reserved_opcode(op: u8) -> bool {
    !OPCODES.contains(&(op & 0xF))
}

/// Wire bytes of a frame whose *wire* payload bytes are `wire_payload` (already masked if mask is on).
pub fn encode_raw(fin: bool, rsv: [bool; 3], opcode: u8, mask: Option<[u8; 4]>, wire_payload: &[u8]) -> Vec<u8> {
    let mut out = Vec::with_capacity(wire_payload.len() + 14);
    let b0 = ((fin as u8) << 7) | ((rsv[0] as u8) << 6) | ((rsv[1] as u8) << 5) | ((rsv[2] as u8) << 4) | (opcode & 0xF);
    out.push(b0);
    let m = if mask.is_some() { 0x80u8 } else { 0 };
    let n = wire_payload.len();
    if n <= 125 {
        out.push(m | n as u8);
    } else if n <= 0xFFFF {
        out.push(m | 126);
        out.push((n >> 8) as u8);
        out.push(n as u8);
    } else {
        out.push(m | 127);
        for i in (0..8).rev() {
            out.push(((n as u64) >> (8 * i)) as u8);
        }
    }
    if let Some(k) = mask {
        out.extend_from_slice(&k);
    }
    out.extend_from_slice(wire_payload);
    out
}

pub fn xor_mask(data: &[u8], key: [u8; 4]) -> Vec<u8> {
    data.iter().enumerate().map(|(i, b)| b ^ key[i % 4]).collect()
}

/// Encode a frame the way a sender does: payload masked on the wire when a key is present.
pub fn encode(f: &RFrame) -> Vec<u8> {
    match f.mask {
        Some(k) => encode_raw(f.fin, f.rsv, f.opcode, Some(k), &xor_mask(&f.payload, k)),
        None => encode_raw(f.fin, f.rsv, f.opcode, None, &f.payload),
    }
}

#[derive(Clone, Debug, PartialEq, Eq)]
pub enum Decoded {
    Frame(RFrame, usize),
    /// more bytes needed; `reserved` tells whether the opcode (if visible) is reserved as well
    Truncated { reserved_opcode: bool },
    ReservedOpcode,
}

pub fn decode(b: &[u8]) -> Decoded {
    if b.len() < 2 {
        let reserved = b.first().map_or(false, |x| is_reserved_opcode(*x));
        return Decoded::Truncated { reserved_opcode: reserved };
    }
    let reserved = is_reserved_opcode(b[0]);
    let fin = b[0] & 0x80 != 0;
    let rsv = [b[0] & 0x40 != 0, b[0] & 0x20 != 0, b[0] & 0x10 != 0];
    let opcode = b[0] & 0xF;
    let masked = b[1] & 0x80 != 0;
    let mut pos = 2;
    let mut len = (b[1] & 0x7F) as u64;
    if len == 126 {
        if b.len() < pos + 2 {
            return Decoded::Truncated { reserved_opcode: reserved };
        }
        len = ((b[2] as u64) << 8) | b[3] as u64;
        pos += 2;
    } else if len == 127 {
        if b.len() < pos + 8 {
            return Decoded::Truncated { reserved_opcode: reserved };
        }
        len = 0;
        for i in 0..8 {
            len = (len << 8) | b[2 + i] as u64;
        }
        pos += 8;
    }
    let mut key = None;
    if masked {
        if b.len() < pos + 4 {
            return Decoded::Truncated { reserved_opcode: reserved };
        }
        key = Some([b[pos], b[pos + 1], b[pos + 2], b[pos + 3]]);
        pos += 4;
    }
    if ((b.len() - pos) as u64) < len {
        return Decoded::Truncated { reserved_opcode: reserved };
    }
    if reserved {
        return Decoded::ReservedOpcode;
    }
    let wire = &b[pos..pos + len as usize];
    let payload = match key {
        Some(k) => xor_mask(wire, k),
        None => wire.to_vec(),
    };
    Decoded::Frame(RFrame { fin, rsv, opcode, mask: key, payload }, pos + len as usize)
}

/// Sec-WebSocket-Accept for a key (RFC 6455 §4.2.2)
pub fn accept_key(key: &str) -> String {
    let mut s = key.as_bytes().to_vec();
    s.extend_from_slice(b"258EAFA5-E914-47DA-95CA-C5AB0DC85B11");
    crate::common::refs::b64_encode(&crate::common::refs::sha1(&s))
}
