//! Loopback helpers: scripted servers, request readers, free ports.

use crate::common::http::{parse_request, RefRequest};
use std::io::{Read, Write};
use std::net::{SocketAddr, TcpListener, TcpStream};
use std::time::{Duration, Instant};

/// Reads one HTTP request from a socket with the strict reference parser (Content-Length framing).
/// Returns the request (with any extra bytes in `leftover`) or an error text.
pub fn read_request(s: &mut TcpStream, deadline: Duration) -> Result<RefRequest, String> {
    let start = Instant::now();
    let _ = s.set_read_timeout(Some(Duration::from_millis(200)));
    let mut buf = Vec::new();
    let mut tmp = [0u8; 65536];
    loop {
        match parse_request(&buf) {
            Ok(r) => return Ok(r),
            Err(e) => {
                if start.elapsed() > deadline {
                    return Err(format!("no complete request within {:?} (last parse error: {}; {} bytes)", deadline, e, buf.len()));
                }
            }
        }
        match s.read(&mut tmp) {
            Ok(0) => return Err(format!("EOF before a complete request ({} bytes: {})", buf.len(), crate::engine::show(&buf))),
            Ok(n) => buf.extend_from_slice(&tmp[..n]),
            Err(e) if e.kind() == std::io::ErrorKind::WouldBlock || e.kind() == std::io::ErrorKind::TimedOut => {}
            Err(e) => return Err(format!("read error {}", e)),
        }
    }
}

pub fn write_all_close(mut s: TcpStream, bytes: &[u8]) {
    let _ = s.write_all(bytes);
    let _ = s.flush();
    let _ = s.shutdown(std::net::Shutdown::Write);
    // drain until the peer closes so that no RST cuts the response short
    let _ = s.set_read_timeout(Some(Duration::from_millis(500)));
    let mut tmp = [0u8; 4096];
    for _ in 0..8 {
        match s.read(&mut tmp) {
            Ok(0) | Err(_) => break,
            Ok(_) => {}
        }
    }
}

/// Finds a free TCP port on `ip` (bind to port 0, read it back, close).
pub fn free_port(ip: &str) -> u16 {
    let l = TcpListener::bind((ip, 0)).expect("bind port 0");
    l.local_addr().unwrap().port()
}

/// A port nobody else in this process will be handed: taken from a private range below the ephemeral range with a
/// process-wide counter. (`free_port` asks the kernel, which may give the same number to two threads that both close
/// their probe socket before their servers bind.)
pub fn reserved_port(ip: &str) -> u16 {
    static NEXT: std::sync::atomic::AtomicUsize = std::sync::atomic::AtomicUsize::new(0);
    for _ in 0..1800 {
        let k = NEXT.fetch_add(1, std::sync::atomic::Ordering::SeqCst);
        let p = 30900 + (k % 1800) as u16;
        if TcpListener::bind((ip, p)).is_ok() {
            return p;
        }
    }
    free_port(ip)
}

pub fn can_bind_80() -> bool {
    TcpListener::bind("127.0.0.77:80").is_ok()
}

/// Connect with retries (server thread may not be listening yet).
pub fn connect_retry(addr: SocketAddr, total: Duration) -> std::io::Result<TcpStream> {
    let start = Instant::now();
    loop {
        match TcpStream::connect_timeout(&addr, Duration::from_secs(2)) {
            Ok(s) => return Ok(s),
            Err(e) => {
                if start.elapsed() > total {
                    return Err(e);
                }
                std::thread::sleep(Duration::from_millis(5));
            }
        }
    }
}

/// One request/response exchange on a fresh connection; reads until EOF (requests must say `Connection: close` or omit it).
pub fn exchange(addr: SocketAddr, request: &[u8], timeout: Duration) -> Result<Vec<u8>, String> {
    let mut s = connect_retry(addr, Duration::from_secs(5)).map_err(|e| format!("connect: {}", e))?;
    let _ = s.set_nodelay(true);
    s.write_all(request).map_err(|e| format!("write: {}", e))?;
    let _ = s.set_read_timeout(Some(timeout));
    let mut out = Vec::new();
    let mut tmp = [0u8; 65536];
    loop {
        match s.read(&mut tmp) {
            Ok(0) => return Ok(out),
            Ok(n) => out.extend_from_slice(&tmp[..n]),
            Err(e) if e.kind() == std::io::ErrorKind::ConnectionReset => return Ok(out),
            Err(e) => return Err(format!("read: {} (after {} bytes)", e, out.len())),
        }
    }
}
