//! Loopback helpers: scripted servers, request readers, free ports.

use crate::common::http::{parse_request, RefRequest};
use std::io::{Read, Write};
use std::net::{SocketAddr, TcpListener, TcpStream};
use std::time::{Duration, Instant};

/// Reads one HTTP request from a socket with the strict reference parser (Content-Length framing).
/// Returns the request (with any extra bytes in `leftover`) or an error text.
pub fn read_request(s: &mut TcpStream, deadline: Duration) -> Result<RefRequest, String> {
    let start = Instant::now();
    let _ = s.set_read_timeout(Some(Duration::from_millis(200)));
    let mut buf = Vec::new();
    let mut tmp = [0u8; 65536];
    loop {
        match parse_request(&buf) {
            Ok(r) => return Ok(r),
            Err(e) => {
                if start.elapsed() > deadline {
                    return Err(format!("no complete request within {:?} (last parse error: {}; {} bytes)", deadline, e, buf.len()));
                }
            }
        }
        match s.read(&mut tmp) {
            Ok(0) => return Err(format!("EOF before a complete request ({} bytes: {})", buf.len(), crate::engine::show(&buf))),
            Ok(n) => buf.extend_from_slice(&tmp[..n]),
            Err(e) if e.kind() == std::io::ErrorKind::WouldBlock || e.kind() == std::io::ErrorKind::TimedOut => {}
            Err(e) => return Err(format!("read error {}", e)),
        }
    }
}

pub fn write_all_close(mut s: TcpStream, bytes: &[u8]) {
    let _ = s.write_all(bytes);
    let _ = s.flush();
    let _ = s.shutdown(std::net::Shutdown::Write);
    // drain until the peer closes so that no RST cuts the response short
    let _ = s.set_read_timeout(Some(Duration::from_millis(500)));
    let mut tmp = [0u8; 4096];
    for _ in 0..8 {
        match s.read(&mut tmp) {
            Ok(0) | Err(_) => break,
            Ok(_) => {}
        }
    }
}

/// Finds a free TCP port on `ip` (bind to port 0, read it back, close).
pub fn free_port(ip: &str) -> u16 {
    let l = TcpListener::bind((ip, 0)).expect("bind port 0");
    l.local_addr().unwrap().port()
}

pub fn can_bind_80() -> bool {
    TcpListener::bind("127.0.0.77:80").is_ok()
}

/// Connect with retries (server thread may not be listening yet).
pub fn connect_retry(addr: SocketAddr, total: Duration) -> std::io::Result<TcpStream> {
    let start = Instant::now();
    loop {
        match TcpStream::connect_timeout(&addr, Duration::from_secs(2)) {
            Ok(s) => return Ok(s),
            Err(e) => {
                if start.elapsed() > total {
                    return Err(e);
                }
                std::thread::sleep(Duration::from_millis(5));
            }
        }
    }
}

// ---------------------------------------------------------------------------------- running a real App

pub struct RunningApp {
    pub addr: SocketAddr,
    shutdown: Option<std::sync::mpsc::Sender<()>>,
    done: std::sync::mpsc::Receiver<Result<(), String>>,
}

/// Starts `app` (already configured, without shutdown receiver) on `ip`:<free port> in a thread.
pub fn start_app<S: Send + Sync + 'static>(app: humphrey::App<S>, ip: &str) -> Result<RunningApp, String> {
    let (tx, rx) = std::sync::mpsc::channel();
    let app = app.with_shutdown(rx);
    for _attempt in 0..5 {
        let port = free_port(ip);
        let addr: SocketAddr = format!("{}:{}", if ip.contains(':') { format!("[{}]", ip) } else { ip.to_string() }, port).parse().map_err(|e| format!("{}", e))?;
        // probe that the port is still free by binding it ourselves right before run() would; run() binds again
        let (dtx, drx) = std::sync::mpsc::channel();
        let h = std::thread::Builder::new().name("app-run".into()).spawn(move || {
            let r = app.run(addr).map_err(|e| e.to_string());
            let _ = dtx.send(r);
        });
        if h.is_err() {
            return Err("cannot spawn app thread".into());
        }
        // wait until it accepts connections (or run() failed)
        let start = Instant::now();
        loop {
            if let Ok(r) = drx.try_recv() {
                return Err(format!("App::run returned early: {:?}", r));
            }
            if let Ok(s) = TcpStream::connect_timeout(&addr, Duration::from_millis(200)) {
                drop(s);
                return Ok(RunningApp { addr, shutdown: Some(tx), done: drx });
            }
            if start.elapsed() > Duration::from_secs(10) {
                return Err("app did not start listening within 10 s".into());
            }
            std::thread::sleep(Duration::from_millis(2));
        }
    }
    Err("no free port".into())
}

impl RunningApp {
    /// Sends the shutdown signal and waits for `run` to return. Returns the time it took, or an error text.
    pub fn stop(mut self, max: Duration) -> Result<Duration, String> {
        let t0 = Instant::now();
        if let Some(tx) = self.shutdown.take() {
            let _ = tx.send(());
        }
        match self.done.recv_timeout(max) {
            Ok(Ok(())) => Ok(t0.elapsed()),
            Ok(Err(e)) => Err(format!("run returned an error: {}", e)),
            Err(_) => Err(format!("run did not return within {:?} of the shutdown signal", max)),
        }
    }
}

impl Drop for RunningApp {
    fn drop(&mut self) {
        if let Some(tx) = self.shutdown.take() {
            let _ = tx.send(());
        }
    }
}

/// One request/response exchange on a fresh connection; reads until EOF (requests must say `Connection: close` or omit it).
pub fn exchange(addr: SocketAddr, request: &[u8], timeout: Duration) -> Result<Vec<u8>, String> {
    let mut s = connect_retry(addr, Duration::from_secs(5)).map_err(|e| format!("connect: {}", e))?;
    let _ = s.set_nodelay(true);
    s.write_all(request).map_err(|e| format!("write: {}", e))?;
    let _ = s.set_read_timeout(Some(timeout));
    let mut out = Vec::new();
    let mut tmp = [0u8; 65536];
    loop {
        match s.read(&mut tmp) {
            Ok(0) => return Ok(out),
            Ok(n) => out.extend_from_slice(&tmp[..n]),
            Err(e) if e.kind() == std::io::ErrorKind::ConnectionReset => return Ok(out),
            Err(e) => return Err(format!("read: {} (after {} bytes)", e, out.len())),
        }
    }
}
