//! Reference glob matcher: `*` = any (possibly empty) char sequence; every other char matches itself.
//! O(n*m) dynamic programming over chars — deliberately nothing like Krauss' algorithm.

pub fn glob_match(pattern: &str, text: &str) -> bool {
    let p: Vec<char> = pattern.chars().collect();
    let t: Vec<char> = text.chars().collect();
    // reach[j] = pattern[..i] matches text[..j]
    let mut reach = vec![false; t.len() + 1];
    reach[0] = true;
    for &pc in &p {
        let mut next = vec![false; t.len() + 1];
        if pc == '*' {
            let mut any = false;
            for j in 0..=t.len() {
                any |= reach[j];
                next[j] = any;
            }
        } else {
            for j in 0..t.len() {
                if reach[j] && t[j] == pc {
                    next[j + 1] = true;
                }
            }
        }
        reach = next;
    }
    reach[t.len()]
}

/// Second, independent formulation (naive recursion) used to cross-check the DP on small inputs.
pub fn glob_match_naive(p: &[char], t: &[char]) -> bool {
    match p.split_first() {
        None => t.is_empty(),
        Some((&'*', rest)) => (0..=t.len()).any(|k| glob_match_naive(rest, &t[k..])),
        Some((&c, rest)) => !t.is_empty() && t[0] == c && glob_match_naive(rest, &t[1..]),
    }
}
