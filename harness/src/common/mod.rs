//! Reference models and generators shared by the property checks (written from the RFCs).
pub mod glob;
pub mod refs;
pub mod json;
pub mod http;
pub mod net;
pub mod ws;
#[cfg(not(hvt))]
pub mod net_app;
