//! Strict RFC 8259 reference recogniser + evaluator (own recursive descent with a depth counter).

#[derive(Clone, Debug, PartialEq)]
pub enum JV {
    Null,
    Bool(bool),
    Num(f64),
    Str(String),
    Arr(Vec<JV>),
    Obj(Vec<(String, JV)>),
}

#[derive(Default, Clone, Debug)]
pub struct Flags {
    /// an escape denoted an unpaired surrogate (acceptance is then optional)
    pub lone_surrogate: bool,
    /// a number's magnitude exceeds f64 (value comparison is skipped, acceptance optional)
    pub overflow_number: bool,
    /// maximum container nesting reached
    pub max_depth: usize,
    pub has_number: bool,
    pub has_escape: bool,
    /// a number token is very long or of extreme magnitude (serde_json's float path legitimately differs there)
    pub extreme_number: bool,
}

struct P<'a> {
    b: &'a [u8],
    s: &'a str,
    i: usize,
    depth: usize,
    f: Flags,
}

/// Validates the JSON number grammar at the start of `b`; returns its length.
pub fn number_len(b: &[u8]) -> Option<usize> {
    let mut i = 0;
    if b.get(i) == Some(&b'-') {
        i += 1;
    }
    match b.get(i) {
        Some(b'0') => i += 1,
        Some(b'1'..=b'9') => {
            while matches!(b.get(i), Some(b'0'..=b'9')) {
                i += 1;
            }
        }
        _ => return None,
    }
    if b.get(i) == Some(&b'.') {
        i += 1;
        if !matches!(b.get(i), Some(b'0'..=b'9')) {
            return None;
        }
        while matches!(b.get(i), Some(b'0'..=b'9')) {
            i += 1;
        }
    }
    if matches!(b.get(i), Some(b'e') | Some(b'E')) {
        i += 1;
        if matches!(b.get(i), Some(b'+') | Some(b'-')) {
            i += 1;
        }
        if !matches!(b.get(i), Some(b'0'..=b'9')) {
            return None;
        }
        while matches!(b.get(i), Some(b'0'..=b'9')) {
            i += 1;
        }
    }
    Some(i)
}

impl<'a> P<'a> {
    fn ws(&mut self) {
        while matches!(self.b.get(self.i), Some(b' ') | Some(b'\t') | Some(b'\n') | Some(b'\r')) {
            self.i += 1;
        }
    }
    fn lit(&mut self, word: &str, v: JV) -> Option<JV> {
        if self.b[self.i..].starts_with(word.as_bytes()) {
            self.i += word.len();
            Some(v)
        } else {
            None
        }
    }
    fn hex4(&mut self) -> Option<u32> {
        let h = self.b.get(self.i..self.i + 4)?;
        let mut v = 0u32;
        for &c in h {
            let d = match c {
                b'0'..=b'9' => c - b'0',
                b'a'..=b'f' => c - b'a' + 10,
                b'A'..=b'F' => c - b'A' + 10,
                _ => return None,
            };
            v = v * 16 + d as u32;
        }
        self.i += 4;
        Some(v)
    }
    fn string(&mut self) -> Option<String> {
        // at opening quote
        self.i += 1;
        let mut out = String::new();
        loop {
            let rest = &self.s[self.i..];
            let c = rest.chars().next()?;
            match c {
                '"' => {
                    self.i += 1;
                    return Some(out);
                }
                '\\' => {
                    self.f.has_escape = true;
                    self.i += 1;
                    let e = *self.b.get(self.i)?;
                    self.i += 1;
                    match e {
                        b'"' => out.push('"'),
                        b'\\' => out.push('\\'),
                        b'/' => out.push('/'),
                        b'b' => out.push('\u{8}'),
                        b'f' => out.push('\u{c}'),
                        b'n' => out.push('\n'),
                        b'r' => out.push('\r'),
                        b't' => out.push('\t'),
                        b'u' => {
                            let u = self.hex4()?;
                            if (0xD800..0xDC00).contains(&u) {
                                // high surrogate: needs \uDC00..DFFF next
                                let save = self.i;
                                if self.b.get(self.i) == Some(&b'\\') && self.b.get(self.i + 1) == Some(&b'u') {
                                    self.i += 2;
                                    match self.hex4() {
                                        Some(lo) if (0xDC00..0xE000).contains(&lo) => {
                                            let cp = 0x10000 + ((u - 0xD800) << 10) + (lo - 0xDC00);
                                            out.push(char::from_u32(cp)?);
                                        }
                                        Some(_) => {
                                            // well-formed escape but not a low surrogate: lone high surrogate
                                            self.i = save;
                                            self.f.lone_surrogate = true;
                                            out.push('\u{FFFD}');
                                        }
                                        None => return None, // malformed second escape
                                    }
                                } else {
                                    self.f.lone_surrogate = true;
                                    out.push('\u{FFFD}');
                                }
                            } else if (0xDC00..0xE000).contains(&u) {
                                self.f.lone_surrogate = true;
                                out.push('\u{FFFD}');
                            } else {
                                out.push(char::from_u32(u)?);
                            }
                        }
                        _ => return None,
                    }
                }
                c if (c as u32) < 0x20 => return None,
                c => {
                    out.push(c);
                    self.i += c.len_utf8();
                }
            }
        }
    }
    fn value(&mut self, limit: usize) -> Option<JV> {
        self.ws();
        match *self.b.get(self.i)? {
            b'n' => self.lit("null", JV::Null),
            b't' => self.lit("true", JV::Bool(true)),
            b'f' => self.lit("false", JV::Bool(false)),
            b'"' => self.string().map(JV::Str),
            b'[' => {
                self.depth += 1;
                if self.depth > limit {
                    return None;
                }
                self.f.max_depth = self.f.max_depth.max(self.depth);
                self.i += 1;
                let mut items = Vec::new();
                self.ws();
                if self.b.get(self.i) == Some(&b']') {
                    self.i += 1;
                } else {
                    loop {
                        items.push(self.value(limit)?);
                        self.ws();
                        match *self.b.get(self.i)? {
                            b',' => self.i += 1,
                            b']' => {
                                self.i += 1;
                                break;
                            }
                            _ => return None,
                        }
                    }
                }
                self.depth -= 1;
                Some(JV::Arr(items))
            }
            b'{' => {
                self.depth += 1;
                if self.depth > limit {
                    return None;
                }
                self.f.max_depth = self.f.max_depth.max(self.depth);
                self.i += 1;
                let mut members = Vec::new();
                self.ws();
                if self.b.get(self.i) == Some(&b'}') {
                    self.i += 1;
                } else {
                    loop {
                        self.ws();
                        if self.b.get(self.i) != Some(&b'"') {
                            return None;
                        }
                        let k = self.string()?;
                        self.ws();
                        if self.b.get(self.i) != Some(&b':') {
                            return None;
                        }
                        self.i += 1;
                        let v = self.value(limit)?;
                        members.push((k, v));
                        self.ws();
                        match *self.b.get(self.i)? {
                            b',' => self.i += 1,
                            b'}' => {
                                self.i += 1;
                                break;
                            }
                            _ => return None,
                        }
                    }
                }
                self.depth -= 1;
                Some(JV::Obj(members))
            }
            b'-' | b'0'..=b'9' => {
                let n = number_len(&self.b[self.i..])?;
                let text = &self.s[self.i..self.i + n];
                self.i += n;
                self.f.has_number = true;
                let v: f64 = text.parse().ok()?;
                if !v.is_finite() {
                    self.f.overflow_number = true;
                }
                if n > 40 || v.abs() > 1e300 || (v != 0.0 && v.abs() < 1e-300) {
                    self.f.extreme_number = true;
                }
                Some(JV::Num(v))
            }
            _ => None,
        }
    }
}

/// Some((value, flags)) iff `s` is a JSON text per RFC 8259 with container nesting <= `limit`.
pub fn parse(s: &str, limit: usize) -> Option<(JV, Flags)> {
    let mut p = P { b: s.as_bytes(), s, i: 0, depth: 0, f: Flags::default() };
    let v = p.value(limit)?;
    p.ws();
    if p.i != s.len() {
        return None;
    }
    Some((v, p.f))
}

pub fn from_humphrey(v: &humphrey_json::Value) -> JV {
    use humphrey_json::Value as V;
    match v {
        V::Null => JV::Null,
        V::Bool(b) => JV::Bool(*b),
        V::Number(n) => JV::Num(*n),
        V::String(s) => JV::Str(s.clone()),
        V::Array(a) => JV::Arr(a.iter().map(from_humphrey).collect()),
        V::Object(o) => JV::Obj(o.iter().map(|(k, v)| (k.clone(), from_humphrey(v))).collect()),
    }
}

pub fn to_humphrey(v: &JV) -> humphrey_json::Value {
    use humphrey_json::Value as V;
    match v {
        JV::Null => V::Null,
        JV::Bool(b) => V::Bool(*b),
        JV::Num(n) => V::Number(*n),
        JV::Str(s) => V::String(s.clone()),
        JV::Arr(a) => V::Array(a.iter().map(to_humphrey).collect()),
        JV::Obj(o) => V::Object(o.iter().map(|(k, v)| (k.clone(), to_humphrey(v))).collect()),
    }
}

pub fn depth(v: &JV) -> usize {
    match v {
        JV::Arr(a) => 1 + a.iter().map(depth).max().unwrap_or(0),
        JV::Obj(o) => 1 + o.iter().map(|(_, v)| depth(v)).max().unwrap_or(0),
        _ => 0,
    }
}
