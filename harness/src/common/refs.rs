//! Reference implementations written from the RFCs: SHA-1 (RFC 3174), Base64 (RFC 4648 §4),
//! percent-coding (RFC 3986 §2.1), civil dates (Hinnant's civil_from_days) / IMF-fixdate (RFC 7231).

// ---------------------------------------------------------------- SHA-1 (RFC 3174, method 1)

pub struct Sha1 {
    h: [u32; 5],
    buf: [u8; 64],
    buf_len: usize,
    total: u64,
}

impl Sha1 {
    pub fn new() -> Sha1 {
        Sha1 {
            h: [0x67452301, 0xEFCDAB89, 0x98BADCFE, 0x10325476, 0xC3D2E1F0],
            buf: [0; 64],
            buf_len: 0,
            total: 0,
        }
    }
    fn block(&mut self, blk: &[u8; 64]) {
        let mut w = [0u32; 80];
        for t in 0..16 {
            w[t] = ((blk[t * 4] as u32) << 24)
                | ((blk[t * 4 + 1] as u32) << 16)
                | ((blk[t * 4 + 2] as u32) << 8)
                | (blk[t * 4 + 3] as u32);
        }
        for t in 16..80 {
            w[t] = (w[t - 3] ^ w[t - 8] ^ w[t - 14] ^ w[t - 16]).rotate_left(1);
        }
        let [mut a, mut b, mut c, mut d, mut e] = self.h;
        for t in 0..80 {
            let (f, k) = if t < 20 {
                ((b & c) | ((!b) & d), 0x5A827999u32)
            } else if t < 40 {
                (b ^ c ^ d, 0x6ED9EBA1)
            } else if t < 60 {
                ((b & c) | (b & d) | (c & d), 0x8F1BBCDC)
            } else {
                (b ^ c ^ d, 0xCA62C1D6)
            };
            let temp = a
                .rotate_left(5)
                .wrapping_add(f)
                .wrapping_add(e)
                .wrapping_add(w[t])
                .wrapping_add(k);
            e = d;
            d = c;
            c = b.rotate_left(30);
            b = a;
            a = temp;
        }
        self.h[0] = self.h[0].wrapping_add(a);
        self.h[1] = self.h[1].wrapping_add(b);
        self.h[2] = self.h[2].wrapping_add(c);
        self.h[3] = self.h[3].wrapping_add(d);
        self.h[4] = self.h[4].wrapping_add(e);
    }
    pub fn update(&mut self, data: &[u8]) {
        for &x in data {
            self.buf[self.buf_len] = x;
            self.buf_len += 1;
            self.total += 1;
            if self.buf_len == 64 {
                let b = self.buf;
                self.block(&b);
                self.buf_len = 0;
            }
        }
    }
    pub fn finish(mut self) -> [u8; 20] {
        let bits = self.total.wrapping_mul(8);
        let mut pad = vec![0x80u8];
        while (self.buf_len + pad.len()) % 64 != 56 {
            pad.push(0);
        }
        pad.extend_from_slice(&bits.to_be_bytes());
        let total = self.total;
        self.update(&pad);
        self.total = total;
        let mut out = [0u8; 20];
        for i in 0..5 {
            out[i * 4..i * 4 + 4].copy_from_slice(&self.h[i].to_be_bytes());
        }
        out
    }
}

pub fn sha1(data: &[u8]) -> [u8; 20] {
    let mut s = Sha1::new();
    s.update(data);
    s.finish()
}

// ---------------------------------------------------------------- Base64 (RFC 4648 §4)

pub const B64: &[u8; 64] = b"ABCDEFGHIJKLMNOPQRSTUVWXYZabcdefghijklmnopqrstuvwxyz0123456789+/";

pub fn b64_encode(data: &[u8]) -> String {
    let mut out = String::new();
    let mut acc: u32 = 0;
    let mut bits = 0;
    for &b in data {
        acc = (acc << 8) | b as u32;
        bits += 8;
        while bits >= 6 {
            bits -= 6;
            out.push(B64[((acc >> bits) & 63) as usize] as char);
        }
    }
    if bits > 0 {
        out.push(B64[((acc << (6 - bits)) & 63) as usize] as char);
    }
    while out.len() % 4 != 0 {
        out.push('=');
    }
    out
}

fn b64_val(c: u8) -> Option<u32> {
    B64.iter().position(|&x| x == c).map(|p| p as u32)
}

/// Outcome of the strict reference decoder.
#[derive(Debug, PartialEq, Eq, Clone)]
pub enum B64Ref {
    /// canonical: must decode to exactly these bytes
    Value(Vec<u8>),
    /// well-formed except for non-zero trailing bits: either these bytes or a rejection is acceptable
    NonCanonical(Vec<u8>),
    /// malformed: must be rejected
    Reject,
}

pub fn b64_decode_strict(s: &str) -> B64Ref {
    let b = s.as_bytes();
    if b.len() % 4 != 0 {
        return B64Ref::Reject;
    }
    let mut out = Vec::new();
    let mut noncanon = false;
    let ngroups = b.len() / 4;
    for (gi, g) in b.chunks(4).enumerate() {
        let last = gi + 1 == ngroups;
        let pad = g.iter().rev().take_while(|&&c| c == b'=').count();
        if pad > 2 || (pad > 0 && !last) {
            return B64Ref::Reject;
        }
        let mut acc: u32 = 0;
        for &c in &g[..4 - pad] {
            match b64_val(c) {
                Some(v) => acc = (acc << 6) | v,
                None => return B64Ref::Reject, // includes '=' before the trailing run
            }
        }
        match pad {
            0 => out.extend_from_slice(&[(acc >> 16) as u8, (acc >> 8) as u8, acc as u8]),
            1 => {
                if acc & 0b11 != 0 {
                    noncanon = true;
                }
                out.extend_from_slice(&[(acc >> 10) as u8, (acc >> 2) as u8]);
            }
            _ => {
                if acc & 0b1111 != 0 {
                    noncanon = true;
                }
                out.push((acc >> 4) as u8);
            }
        }
    }
    if noncanon {
        B64Ref::NonCanonical(out)
    } else {
        B64Ref::Value(out)
    }
}

// ---------------------------------------------------------------- percent-coding (RFC 3986 §2.1, §2.3)

pub fn pct_encode(data: &[u8]) -> String {
    let mut out = String::new();
    for &b in data {
        let unreserved = matches!(b, b'A'..=b'Z' | b'a'..=b'z' | b'0'..=b'9' | b'-' | b'.' | b'_' | b'~');
        if unreserved {
            out.push(b as char);
        } else {
            out.push('%');
            out.push(b"0123456789ABCDEF"[(b >> 4) as usize] as char);
            out.push(b"0123456789ABCDEF"[(b & 15) as usize] as char);
        }
    }
    out
}

fn hexval(c: u8) -> Option<u8> {
    match c {
        b'0'..=b'9' => Some(c - b'0'),
        b'a'..=b'f' => Some(c - b'a' + 10),
        b'A'..=b'F' => Some(c - b'A' + 10),
        _ => None,
    }
}

/// `%` must be followed by two hex digits; `+` stays `+`; everything else is literal.
pub fn pct_decode(s: &str) -> Option<Vec<u8>> {
    let b = s.as_bytes();
    let mut out = Vec::new();
    let mut i = 0;
    while i < b.len() {
        if b[i] == b'%' {
            let hi = hexval(*b.get(i + 1)?)?;
            let lo = hexval(*b.get(i + 2)?)?;
            out.push(hi * 16 + lo);
            i += 3;
        } else {
            out.push(b[i]);
            i += 1;
        }
    }
    Some(out)
}

// ---------------------------------------------------------------- dates

/// Hinnant's civil_from_days: days since 1970-01-01 -> (year, month 1..12, day 1..31)
pub fn civil_from_days(z: i64) -> (i64, u32, u32) {
    let z = z + 719468;
    let era = if z >= 0 { z } else { z - 146096 } / 146097;
    let doe = (z - era * 146097) as u64;
    let yoe = (doe - doe / 1460 + doe / 36524 - doe / 146096) / 365;
    let y = yoe as i64 + era * 400;
    let doy = doe - (365 * yoe + yoe / 4 - yoe / 100);
    let mp = (5 * doy + 2) / 153;
    let d = (doy - (153 * mp + 2) / 5 + 1) as u32;
    let m = if mp < 10 { mp + 3 } else { mp - 9 } as u32;
    (if m <= 2 { y + 1 } else { y }, m, d)
}

pub fn days_from_civil(y: i64, m: u32, d: u32) -> i64 {
    let y = if m <= 2 { y - 1 } else { y };
    let era = if y >= 0 { y } else { y - 399 } / 400;
    let yoe = (y - era * 400) as u64;
    let mp = if m > 2 { m - 3 } else { m + 9 } as u64;
    let doy = (153 * mp + 2) / 5 + d as u64 - 1;
    let doe = yoe * 365 + yoe / 4 - yoe / 100 + doy;
    era * 146097 + doe as i64 - 719468
}

pub struct Civil {
    pub year: i64,
    pub month: u32, // 1..12
    pub day: u32,
    pub weekday: u32, // 0 = Sunday
    pub hour: u32,
    pub minute: u32,
    pub second: u32,
}

pub fn civil(ts: i64) -> Civil {
    let days = ts.div_euclid(86400);
    let secs = ts.rem_euclid(86400) as u32;
    let (year, month, day) = civil_from_days(days);
    Civil {
        year,
        month,
        day,
        weekday: (days + 4).rem_euclid(7) as u32, // 1970-01-01 was a Thursday
        hour: secs / 3600,
        minute: secs / 60 % 60,
        second: secs % 60,
    }
}

pub fn imf_fixdate(ts: i64) -> String {
    const D: [&str; 7] = ["Sun", "Mon", "Tue", "Wed", "Thu", "Fri", "Sat"];
    const M: [&str; 12] = [
        "Jan", "Feb", "Mar", "Apr", "May", "Jun", "Jul", "Aug", "Sep", "Oct", "Nov", "Dec",
    ];
    let c = civil(ts);
    format!(
        "{}, {:02} {} {:04} {:02}:{:02}:{:02} GMT",
        D[c.weekday as usize],
        c.day,
        M[(c.month - 1) as usize],
        c.year,
        c.hour,
        c.minute,
        c.second
    )
}

/// Strict IMF-fixdate parser (RFC 7231 §7.1.1.1): returns the timestamp if `s` is well-formed and consistent.
pub fn parse_imf_fixdate(s: &str) -> Option<i64> {
    const D: [&str; 7] = ["Sun", "Mon", "Tue", "Wed", "Thu", "Fri", "Sat"];
    const M: [&str; 12] = [
        "Jan", "Feb", "Mar", "Apr", "May", "Jun", "Jul", "Aug", "Sep", "Oct", "Nov", "Dec",
    ];
    let b = s.as_bytes();
    if b.len() != 29 || !s.is_ascii() {
        return None;
    }
    let wd = D.iter().position(|d| *d == &s[0..3])?;
    if &s[3..5] != ", " || b[7] != b' ' || b[11] != b' ' || b[16] != b' ' || b[19] != b':' || b[22] != b':' || &s[25..] != " GMT" {
        return None;
    }
    let num = |r: std::ops::Range<usize>| -> Option<i64> {
        let t = &s[r];
        if t.bytes().all(|c| c.is_ascii_digit()) {
            t.parse().ok()
        } else {
            None
        }
    };
    let day = num(5..7)?;
    let mon = M.iter().position(|m| *m == &s[8..11])? as u32 + 1;
    let year = num(12..16)?;
    let (h, mi, sec) = (num(17..19)?, num(20..22)?, num(23..25)?);
    if h > 23 || mi > 59 || sec > 60 || day < 1 {
        return None;
    }
    let days = days_from_civil(year, mon, day as u32);
    let (y2, m2, d2) = civil_from_days(days);
    if (y2, m2, d2 as i64) != (year, mon, day) {
        return None;
    }
    if (days + 4).rem_euclid(7) as usize != wd {
        return None;
    }
    Some(days * 86400 + h * 3600 + mi * 60 + sec)
}
