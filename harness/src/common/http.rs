//! HTTP/1.x generators (ReqSpec), strict reference parsers (request + response), scripted readers.

use crate::engine::pt;
use proptest::prelude::*;
use serde::{Deserialize, Serialize};
use std::io::Read;
use std::net::{IpAddr, Ipv4Addr, Ipv6Addr, SocketAddr};

// ---------------------------------------------------------------------------------- scripted reader

/// Delivers `data` according to `plan` (sizes of successive reads; the last size repeats), then EOF.
pub struct PlanReader {
    data: Vec<u8>,
    pos: usize,
    plan: Vec<usize>,
    step: usize,
    left_in_step: usize,
    pub reads: usize,
}

impl PlanReader {
    pub fn new(data: Vec<u8>, plan: Vec<usize>) -> PlanReader {
        let plan = if plan.is_empty() { vec![usize::MAX] } else { plan };
        let first = plan[0].max(1);
        PlanReader { data, pos: 0, plan, step: 0, left_in_step: first, reads: 0 }
    }
    pub fn consumed(&self) -> usize {
        self.pos
    }
}

impl Read for PlanReader {
    fn read(&mut self, buf: &mut [u8]) -> std::io::Result<usize> {
        self.reads += 1;
        if buf.is_empty() || self.pos >= self.data.len() {
            return Ok(0);
        }
        if self.left_in_step == 0 {
            if self.step + 1 < self.plan.len() {
                self.step += 1;
            }
            self.left_in_step = self.plan[self.step].max(1);
        }
        let n = buf.len().min(self.left_in_step).min(self.data.len() - self.pos);
        buf[..n].copy_from_slice(&self.data[self.pos..self.pos + n]);
        self.pos += n;
        self.left_in_step -= n;
        Ok(n)
    }
}

/// Read plans used for segmentation independence.
#[derive(Clone, Debug, Serialize, Deserialize, PartialEq)]
pub enum Plan {
    Whole,
    ByteWise,
    /// one split at this offset
    SplitAt(usize),
    /// explicit read sizes
    Sizes(Vec<usize>),
}

thread_local! {
    /// When set, the checks that try several read plans per message (C02, C07, C10) use exactly these instead of
    /// their own list: the fuzz targets decode the plan from the fuzzer's bytes.
    pub static PLAN_OVERRIDE: std::cell::RefCell<Option<Vec<Plan>>> = std::cell::RefCell::new(None);
}

pub fn plan_override() -> Option<Vec<Plan>> {
    PLAN_OVERRIDE.with(|p| p.borrow().clone())
}

impl Plan {
    pub fn sizes(&self, len: usize) -> Vec<usize> {
        match self {
            Plan::Whole => vec![usize::MAX],
            Plan::ByteWise => vec![1],
            Plan::SplitAt(k) => {
                let k = (*k).min(len);
                if k == 0 {
                    vec![usize::MAX]
                } else {
                    vec![k, usize::MAX]
                }
            }
            Plan::Sizes(v) => {
                let mut v = v.clone();
                v.push(usize::MAX);
                v
            }
        }
    }
}

// ---------------------------------------------------------------------------------- request specs

#[derive(Clone, Debug, Serialize, Deserialize, PartialEq)]
pub struct HeaderSpec {
    pub name: String,
    /// optional whitespace between the colon and the value
    pub ows: String,
    pub value: String,
}

#[derive(Clone, Debug, Serialize, Deserialize, PartialEq)]
pub struct ReqSpec {
    pub method: String,
    pub path: String,
    pub query: Option<String>,
    pub version: String,
    pub headers: Vec<HeaderSpec>,
    /// body bytes; a Content-Length header is part of `headers` iff this is Some
    pub body: Option<Vec<u8>>,
    /// cookies as generated (name, value) if a Cookie header is present
    pub cookies: Vec<(String, String)>,
    /// X-Forwarded-For addresses as generated
    pub xff: Vec<String>,
    pub peer: String,
}

impl ReqSpec {
    pub fn target(&self) -> String {
        match &self.query {
            Some(q) => format!("{}?{}", self.path, q),
            None => self.path.clone(),
        }
    }
    pub fn render(&self) -> Vec<u8> {
        let mut out = Vec::new();
        out.extend_from_slice(format!("{} {} {}\r\n", self.method, self.target(), self.version).as_bytes());
        for h in &self.headers {
            out.extend_from_slice(h.name.as_bytes());
            out.push(b':');
            out.extend_from_slice(h.ows.as_bytes());
            out.extend_from_slice(h.value.as_bytes());
            out.extend_from_slice(b"\r\n");
        }
        out.extend_from_slice(b"\r\n");
        if let Some(b) = &self.body {
            out.extend_from_slice(b);
        }
        out
    }
    pub fn peer_addr(&self) -> SocketAddr {
        self.peer.parse().unwrap()
    }
    /// per lower-cased name, ordered values
    pub fn header_lists(&self) -> Vec<(String, Vec<String>)> {
        let mut out: Vec<(String, Vec<String>)> = Vec::new();
        for h in &self.headers {
            let n = h.name.to_ascii_lowercase();
            if let Some(e) = out.iter_mut().find(|(k, _)| *k == n) {
                e.1.push(h.value.clone());
            } else {
                out.push((n, vec![h.value.clone()]));
            }
        }
        out
    }
    pub fn has_repeated_name(&self) -> bool {
        self.header_lists().iter().any(|(_, v)| v.len() > 1)
    }
    pub fn has_non_ascii(&self) -> bool {
        self.headers.iter().any(|h| !h.value.is_ascii())
    }
}

pub const KNOWN_HEADERS: &[&str] = &[
    "Accept", "Accept-Charset", "Accept-Encoding", "Accept-Language", "Authorization", "Cache-Control",
    "Content-Encoding", "Content-Type", "Date", "Expect", "Forwarded", "From", "Host", "Origin", "Pragma",
    "Referer", "User-Agent", "Via", "Warning", "Age", "Allow", "ETag", "Expires", "Last-Modified", "Link",
    "Location", "Server", "Content-Language", "Content-Location", "Content-Disposition",
    "Access-Control-Request-Method", "Access-Control-Request-Headers",
    // further registered field names Humphrey has no special knowledge of today (seed C02-15: a header newly made a
    // "known" one lost its name on serialisation); none of them changes framing or routing
    "If-Match", "If-None-Match", "If-Modified-Since", "If-Unmodified-Since", "If-Range", "Range", "Max-Forwards",
    "Proxy-Authorization", "Accept-Ranges", "Retry-After", "Vary", "WWW-Authenticate", "Proxy-Authenticate", "Content-Range",
    "Content-MD5", "Content-Security-Policy", "Strict-Transport-Security", "X-Requested-With", "X-Real-IP", "X-Forwarded-Host",
    "X-Forwarded-Proto", "X-Frame-Options", "X-Content-Type-Options", "DNT", "Save-Data", "Priority", "Early-Data",
    "Sec-Fetch-Site", "Sec-Fetch-Mode", "Sec-Fetch-Dest", "Sec-Fetch-User", "Sec-CH-UA", "Upgrade-Insecure-Requests", "Alt-Svc", "Refresh",
];

fn mixed_case(s: &str, bits: u64) -> String {
    s.chars()
        .enumerate()
        .map(|(i, c)| {
            if (bits >> (i % 64)) & 1 == 1 {
                if c.is_ascii_lowercase() {
                    c.to_ascii_uppercase()
                } else {
                    c.to_ascii_lowercase()
                }
            } else {
                c
            }
        })
        .collect()
}

pub fn arb_header_name() -> impl Strategy<Value = String> {
    prop_oneof![
        4 => (any::<u16>(), prop_oneof![3 => Just(0u64), 1 => any::<u64>()])
            .prop_map(|(i, bits)| mixed_case(KNOWN_HEADERS[pt::idx(i, KNOWN_HEADERS.len())], bits)),
        3 => "[Xx]-[A-Za-z0-9]{1,8}(-[A-Za-z0-9]{1,5})?",
        1 => "[A-Za-z0-9!#$%&'*+.^_`|~-]{1,12}",
        2 => prop_oneof![Just("X-Dup".to_string()), Just("x-dup".to_string()), Just("X-DUP".to_string()), Just("Accept".to_string()), Just("accept".to_string()), Just("Via".to_string())],
    ]
}

/// header value: no CR/LF/NUL, no leading or trailing whitespace; visible ASCII, inner spaces/tabs, non-ASCII UTF-8
pub fn arb_header_value() -> impl Strategy<Value = String> {
    let ch = prop_oneof![
        10 => "[!-~]".prop_map(|s| s.chars().next().unwrap()),
        2 => Just(' '),
        1 => Just('\t'),
        1 => prop_oneof![Just('é'), Just('ü'), Just('中'), Just('😀'), Just('\u{a0}'), Just('\u{3000}'), Just('\u{85}'), Just('ÿ')],
        1 => Just(':'),
        1 => Just(','),
    ];
    proptest::collection::vec(ch, 0..24).prop_map(|v| {
        let s: String = v.into_iter().collect();
        s.trim_matches(|c| c == ' ' || c == '\t').to_string()
    })
}

pub fn arb_ows() -> impl Strategy<Value = String> {
    prop_oneof![
        6 => Just(" ".to_string()),
        2 => Just("".to_string()),
        1 => Just("  ".to_string()),
        1 => Just("\t".to_string()),
        1 => Just(" \t ".to_string()),
    ]
}

pub fn arb_path() -> impl Strategy<Value = String> {
    proptest::collection::vec(
        prop_oneof![
            5 => "[a-zA-Z0-9._~-]{1,8}",
            1 => Just("%20".to_string()),
            1 => Just("%C3%A9".to_string()),
            1 => "[!$&'()*+,;=:@]{1,3}",
            1 => Just("".to_string()),
        ],
        0..5,
    )
    .prop_map(|segs| format!("/{}", segs.join("/")))
}

pub fn arb_query() -> impl Strategy<Value = Option<String>> {
    prop_oneof![
        3 => Just(None),
        3 => "[a-z]{1,5}=[a-zA-Z0-9%._-]{0,8}(&[a-z]{1,4}=[a-z0-9]{0,4}){0,3}".prop_map(Some),
        1 => "[a-z?/=&]{1,10}".prop_map(Some),
        1 => Just(Some("a=b?c=d".to_string())),
    ]
}

pub fn arb_ip() -> impl Strategy<Value = IpAddr> {
    prop_oneof![
        3 => any::<[u8; 4]>().prop_map(|b| IpAddr::V4(Ipv4Addr::from(b))),
        1 => any::<[u16; 8]>().prop_map(|s| IpAddr::V6(Ipv6Addr::new(s[0], s[1], s[2], s[3], s[4], s[5], s[6], s[7]))),
        1 => prop_oneof![Just("::1".parse::<IpAddr>().unwrap()), Just("127.0.0.1".parse::<IpAddr>().unwrap()), Just("2001:db8::8a2e:370:7334".parse::<IpAddr>().unwrap())],
    ]
}

pub fn arb_peer() -> impl Strategy<Value = SocketAddr> {
    (arb_ip(), 1u16..=65535).prop_map(|(ip, p)| SocketAddr::new(ip, p))
}

pub fn arb_body() -> impl Strategy<Value = Vec<u8>> {
    prop_oneof![
        2 => Just(Vec::new()),
        6 => proptest::collection::vec(any::<u8>(), 1..200),
        2 => proptest::collection::vec(any::<u8>(), 200..3000),
        1 => (prop_oneof![Just(8191usize), Just(8192), Just(8193), Just(16384), Just(65535), Just(65536), 3000usize..65536], any::<u8>(), any::<u8>())
            .prop_map(|(n, a, b)| (0..n).map(|i| if i % 7 == 0 { a } else if i % 13 == 0 { b'\n' } else { b.wrapping_add(i as u8) }).collect()),
        1 => Just(b"\r\n\r\nGET / HTTP/1.1\r\n\r\n".to_vec()),
    ]
}

#[derive(Clone, Debug, Default)]
pub struct ReqOpts {
    /// restrict to these methods (empty = all five)
    pub methods: Vec<&'static str>,
    pub max_headers: usize,
    pub allow_xff: bool,
    pub allow_cookie: bool,
}

pub fn arb_cookie_pairs() -> impl Strategy<Value = Vec<(String, String)>> {
    // values: cookie octets, now and then wrapped in or containing double quotes (RFC 6265 allows a quoted cookie-value;
    // the quotes are part of the value — a parser that strips them went unnoticed by a hand-made mutant)
    let value = prop_oneof![
        6 => "[A-Za-z0-9_.=/+%-]{0,12}".prop_map(|v| v),
        1 => "[A-Za-z0-9_.=/+%-]{0,8}".prop_map(|v| format!("\"{}\"", v)),
        1 => "[A-Za-z0-9\"]{1,6}".prop_map(|v| v),
    ];
    proptest::collection::vec(("[A-Za-z_][A-Za-z0-9_-]{0,7}", value), 1..5)
}

/// Generates well-formed requests of the grammar Humphrey supports (see DESIGN.md §4 / C02).
pub fn arb_req() -> impl Strategy<Value = ReqSpec> {
    let headers = prop_oneof![
        8 => proptest::collection::vec((arb_header_name(), arb_ows(), arb_header_value()), 0..10),
        3 => proptest::collection::vec((arb_header_name(), arb_ows(), arb_header_value()), 18..41),
    ];
    (
        prop_oneof![Just("GET"), Just("POST"), Just("PUT"), Just("DELETE"), Just("OPTIONS")],
        arb_path(),
        arb_query(),
        prop_oneof![3 => Just("HTTP/1.1"), 1 => Just("HTTP/1.0")],
        headers,
        proptest::option::weighted(0.5, arb_body()),
        proptest::option::weighted(0.3, (arb_cookie_pairs(), any::<u8>())),
        proptest::option::weighted(0.35, (proptest::collection::vec(arb_ip(), 1..5), any::<u8>())),
        arb_peer(),
        (any::<u16>(), any::<u16>(), any::<u16>(), any::<u64>()),
    )
        .prop_map(|(method, path, query, version, hs, body, cookie, xff, peer, (p1, p2, p3, casebits))| {
            let mut headers: Vec<HeaderSpec> = hs
                .into_iter()
                .filter(|(n, _, _)| {
                    let l = n.to_ascii_lowercase();
                    l != "content-length" && l != "cookie" && l != "x-forwarded-for" && l != "transfer-encoding" && l != "upgrade" && l != "connection"
                })
                .map(|(name, ows, value)| HeaderSpec { name, ows, value })
                .collect();
            let mut cookies = Vec::new();
            if let Some((pairs, sep)) = cookie {
                let seps = ["; ", ";", " ; ", ";  "];
                let mut v = String::new();
                for (i, (k, val)) in pairs.iter().enumerate() {
                    if i > 0 {
                        v.push_str(seps[(sep as usize + i) % seps.len()]);
                    }
                    v.push_str(k);
                    v.push('=');
                    v.push_str(val);
                }
                cookies = pairs;
                let at = pt::idx(p1, headers.len() + 1);
                headers.insert(at, HeaderSpec { name: mixed_case("Cookie", casebits & 0x3f), ows: " ".into(), value: v });
            }
            let mut xffs = Vec::new();
            if let Some((ips, sep)) = xff {
                let seps = [",", ", ", ",  ", " , "];
                let mut v = String::new();
                for (i, ip) in ips.iter().enumerate() {
                    if i > 0 {
                        v.push_str(seps[(sep as usize >> (2 * (i % 4))) % 4 % seps.len()]);
                    }
                    v.push_str(&ip.to_string());
                    xffs.push(ip.to_string());
                }
                let at = pt::idx(p2, headers.len() + 1);
                headers.insert(at, HeaderSpec { name: mixed_case("X-Forwarded-For", (casebits >> 8) & 0x7fff), ows: " ".into(), value: v });
            }
            if let Some(b) = &body {
                let at = pt::idx(p3, headers.len() + 1);
                headers.insert(at, HeaderSpec { name: mixed_case("Content-Length", (casebits >> 24) & 0x3fff), ows: " ".into(), value: b.len().to_string() });
            }
            ReqSpec {
                method: method.to_string(),
                path,
                query,
                version: version.to_string(),
                headers,
                body,
                cookies,
                xff: xffs,
                peer: peer.to_string(),
            }
        })
}

// ---------------------------------------------------------------------------------- reference parsers

#[derive(Clone, Debug, PartialEq)]
pub struct RefRequest {
    pub method: String,
    pub target: String,
    pub version: String,
    /// (lower-cased name, value with OWS trimmed) in wire order
    pub headers: Vec<(String, String)>,
    pub body: Vec<u8>,
    pub has_content_length: bool,
    /// bytes after the message
    pub leftover: Vec<u8>,
}

fn is_tchar(c: u8) -> bool {
    c.is_ascii_alphanumeric() || b"!#$%&'*+-.^_`|~".contains(&c)
}

fn find_crlf(b: &[u8], from: usize) -> Option<usize> {
    (from..b.len().saturating_sub(1)).find(|&i| b[i] == b'\r' && b[i + 1] == b'\n')
}

fn trim_ows(b: &[u8]) -> &[u8] {
    let mut s = 0;
    let mut e = b.len();
    while s < e && (b[s] == b' ' || b[s] == b'\t') {
        s += 1;
    }
    while e > s && (b[e - 1] == b' ' || b[e - 1] == b'\t') {
        e -= 1;
    }
    &b[s..e]
}

/// Parses header fields starting at `pos`; returns (headers, position after the empty line).
fn parse_fields(b: &[u8], mut pos: usize) -> Result<(Vec<(String, String)>, usize), String> {
    let mut headers = Vec::new();
    loop {
        let end = find_crlf(b, pos).ok_or("header section not terminated")?;
        if end == pos {
            return Ok((headers, pos + 2));
        }
        let line = &b[pos..end];
        let colon = line.iter().position(|&c| c == b':').ok_or("header line without colon")?;
        let name = &line[..colon];
        if name.is_empty() || !name.iter().all(|&c| is_tchar(c)) {
            return Err(format!("bad field name {:?}", String::from_utf8_lossy(name)));
        }
        let value = trim_ows(&line[colon + 1..]);
        if value.iter().any(|&c| c == b'\r' || c == b'\n' || c == 0) {
            return Err("bad byte in field value".into());
        }
        let value = String::from_utf8(value.to_vec()).map_err(|_| "field value not UTF-8")?;
        headers.push((String::from_utf8_lossy(name).to_ascii_lowercase(), value));
        pos = end + 2;
    }
}

/// Strict RFC 7230 request parser for origin-form targets and Content-Length bodies.
pub fn parse_request(b: &[u8]) -> Result<RefRequest, String> {
    let end = find_crlf(b, 0).ok_or("no request line")?;
    let line = std::str::from_utf8(&b[..end]).map_err(|_| "request line not UTF-8")?;
    let parts: Vec<&str> = line.split(' ').collect();
    if parts.len() != 3 {
        return Err(format!("request line has {} parts", parts.len()));
    }
    let (method, target, version) = (parts[0], parts[1], parts[2]);
    if method.is_empty() || !method.bytes().all(is_tchar) {
        return Err("bad method".into());
    }
    if !target.starts_with('/') && target != "*" {
        return Err("target not origin-form".into());
    }
    if !(version.len() == 8 && version.starts_with("HTTP/") && version.as_bytes()[5].is_ascii_digit() && version.as_bytes()[6] == b'.' && version.as_bytes()[7].is_ascii_digit()) {
        return Err("bad version".into());
    }
    let (headers, pos) = parse_fields(b, end + 2)?;
    let cls: Vec<&String> = headers.iter().filter(|(n, _)| n == "content-length").map(|(_, v)| v).collect();
    let mut body = Vec::new();
    let mut after = pos;
    let has_cl = !cls.is_empty();
    if has_cl {
        if cls.iter().any(|v| *v != cls[0]) {
            return Err("conflicting Content-Length".into());
        }
        if cls[0].is_empty() || !cls[0].bytes().all(|c| c.is_ascii_digit()) {
            return Err("bad Content-Length".into());
        }
        let n: usize = cls[0].parse().map_err(|_| "Content-Length overflow")?;
        if b.len() < pos + n {
            return Err("body truncated".into());
        }
        body = b[pos..pos + n].to_vec();
        after = pos + n;
    }
    Ok(RefRequest {
        method: method.into(),
        target: target.into(),
        version: version.into(),
        headers,
        body,
        has_content_length: has_cl,
        leftover: b[after..].to_vec(),
    })
}

#[derive(Clone, Debug, PartialEq)]
pub struct RefResponse {
    pub version: String,
    pub status: u16,
    pub reason: String,
    pub headers: Vec<(String, String)>,
    pub body: Vec<u8>,
    /// how the body was delimited
    pub framing: Framing,
    /// number of bytes of the input this message occupies (for close-delimited: all of it)
    pub consumed: usize,
}

#[derive(Clone, Copy, Debug, PartialEq, Eq)]
pub enum Framing {
    NoBody,
    ContentLength,
    Chunked,
    CloseDelimited,
}

#[derive(Clone, Debug, PartialEq)]
pub enum RespParse {
    Complete(RefResponse),
    /// the bytes are a proper prefix of a valid message (more input needed)
    Incomplete(String),
    /// not HTTP
    Invalid(String),
}

/// Strict response parser. `eof` says whether the input ended (needed for close-delimited bodies).
/// `head_request`: response to HEAD (never a body). 
pub fn parse_response(b: &[u8], eof: bool) -> RespParse {
    use RespParse::*;
    let end = match find_crlf(b, 0) {
        Some(e) => e,
        None => {
            // could still become valid?
            return if looks_like_status_prefix(b) && !eof { Incomplete("status line".into()) } else if looks_like_status_prefix(b) { Incomplete("status line cut by EOF".into()) } else { Invalid("no status line".into()) };
        }
    };
    let line = match std::str::from_utf8(&b[..end]) {
        Ok(l) => l,
        Err(_) => return Invalid("status line not UTF-8".into()),
    };
    let mut it = line.splitn(3, ' ');
    let version = it.next().unwrap_or("");
    let code = it.next().unwrap_or("");
    let reason = it.next();
    if !(version.len() == 8 && version.starts_with("HTTP/") && version.as_bytes()[5].is_ascii_digit() && version.as_bytes()[6] == b'.' && version.as_bytes()[7].is_ascii_digit()) {
        return Invalid(format!("bad version {:?}", version));
    }
    if code.len() != 3 || !code.bytes().all(|c| c.is_ascii_digit()) {
        return Invalid(format!("bad status code {:?}", code));
    }
    let reason = match reason {
        Some(r) => r,
        None => return Invalid("status line without SP after the code".into()),
    };
    let status: u16 = code.parse().unwrap();
    let (headers, pos) = match parse_fields(b, end + 2) {
        Ok(x) => x,
        Err(e) => {
            // distinguish truncation from garbage: if no blank line yet, it may be incomplete
            if e == "header section not terminated" {
                // every complete line so far must be a valid field line
                let mut p = end + 2;
                while let Some(e2) = find_crlf(b, p) {
                    let l = &b[p..e2];
                    if l.is_empty() {
                        break;
                    }
                    match l.iter().position(|&c| c == b':') {
                        Some(c) if c > 0 && l[..c].iter().all(|&x| is_tchar(x)) => {}
                        _ => return Invalid("malformed header line".into()),
                    }
                    p = e2 + 2;
                }
                return Incomplete("header section".into());
            }
            return Invalid(e);
        }
    };
    let get = |n: &str| headers.iter().filter(|(k, _)| k == n).map(|(_, v)| v.clone()).collect::<Vec<_>>();
    let te = get("transfer-encoding");
    let cl = get("content-length");
    let mk = |body: Vec<u8>, framing: Framing, consumed: usize| {
        Complete(RefResponse { version: version.into(), status, reason: reason.into(), headers: headers.clone(), body, framing, consumed })
    };
    if (100..200).contains(&status) || status == 204 || status == 304 {
        return mk(Vec::new(), Framing::NoBody, pos);
    }
    if !te.is_empty() {
        if te.len() != 1 || !te[0].eq_ignore_ascii_case("chunked") {
            return Invalid("unsupported transfer-encoding".into());
        }
        // chunked
        let mut p = pos;
        let mut body = Vec::new();
        loop {
            let e = match find_crlf(b, p) {
                Some(e) => e,
                None => {
                    // partial size line must be hex digits (optionally followed by CR)
                    let rest = &b[p..];
                    let rest = rest.strip_suffix(b"\r").unwrap_or(rest);
                    if rest.iter().all(|c| c.is_ascii_hexdigit()) {
                        return Incomplete("chunk size".into());
                    }
                    return Invalid("bad chunk size".into());
                }
            };
            let sz = &b[p..e];
            if sz.is_empty() || !sz.iter().all(|c| c.is_ascii_hexdigit()) || sz.len() > 15 {
                return Invalid("bad chunk size".into());
            }
            let n = usize::from_str_radix(std::str::from_utf8(sz).unwrap(), 16).unwrap();
            p = e + 2;
            if n == 0 {
                // trailer section: we only model the empty one
                if b.len() < p + 2 {
                    if b[p..].iter().zip(b"\r\n").all(|(a, c)| a == c) {
                        return Incomplete("final CRLF".into());
                    }
                    return Invalid("bad chunked terminator".into());
                }
                if &b[p..p + 2] != b"\r\n" {
                    return Invalid("trailers not modelled".into());
                }
                return mk(body, Framing::Chunked, p + 2);
            }
            if b.len() < p + n + 2 {
                // data or its CRLF incomplete
                if b.len() > p + n {
                    if b[p + n] != b'\r' {
                        return Invalid("chunk data not followed by CRLF".into());
                    }
                }
                return Incomplete("chunk data".into());
            }
            if &b[p + n..p + n + 2] != b"\r\n" {
                return Invalid("chunk data not followed by CRLF".into());
            }
            body.extend_from_slice(&b[p..p + n]);
            p += n + 2;
        }
    }
    if !cl.is_empty() {
        if cl.iter().any(|v| *v != cl[0]) || cl[0].is_empty() || !cl[0].bytes().all(|c| c.is_ascii_digit()) {
            return Invalid("bad Content-Length".into());
        }
        let n: usize = match cl[0].parse() {
            Ok(n) => n,
            Err(_) => return Invalid("Content-Length overflow".into()),
        };
        if b.len() < pos + n {
            return Incomplete("body".into());
        }
        return mk(b[pos..pos + n].to_vec(), Framing::ContentLength, pos + n);
    }
    if eof {
        mk(b[pos..].to_vec(), Framing::CloseDelimited, b.len())
    } else {
        Incomplete("close-delimited body".into())
    }
}

fn looks_like_status_prefix(b: &[u8]) -> bool {
    // prefix of "HTTP/d.d ddd ..." without CRLF yet
    let pat = b"HTTP/";
    for (i, &c) in b.iter().enumerate() {
        let ok = match i {
            0..=4 => c == pat[i],
            5 | 7 => c.is_ascii_digit(),
            6 => c == b'.',
            8 | 12 => c == b' ',
            9..=11 => c.is_ascii_digit(),
            _ => c != b'\n' && (c != b'\r' || i == b.len() - 1),
        };
        if !ok {
            return false;
        }
    }
    true
}
