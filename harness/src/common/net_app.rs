//! Running a real (threaded) `App` on a loopback alias. Sync runtime only (the tokio twin has its own).

use crate::common::net::free_port;
use std::net::{SocketAddr, TcpStream};
use std::time::{Duration, Instant};

// ---------------------------------------------------------------------------------- running a real App

pub struct RunningApp {
    pub addr: SocketAddr,
    shutdown: Option<std::sync::mpsc::Sender<()>>,
    done: std::sync::mpsc::Receiver<Result<(), String>>,
}

/// Starts `app` (already configured, without shutdown receiver) on `ip`:<free port> in a thread.
pub fn start_app<S: Send + Sync + 'static>(app: humphrey::App<S>, ip: &str) -> Result<RunningApp, String> {
    let (tx, rx) = std::sync::mpsc::channel();
    let app = app.with_shutdown(rx);
    for _attempt in 0..5 {
        let port = free_port(ip);
        let addr: SocketAddr = format!("{}:{}", if ip.contains(':') { format!("[{}]", ip) } else { ip.to_string() }, port).parse().map_err(|e| format!("{}", e))?;
        // probe that the port is still free by binding it ourselves right before run() would; run() binds again
        let (dtx, drx) = std::sync::mpsc::channel();
        let h = std::thread::Builder::new().name("app-run".into()).spawn(move || {
            let r = app.run(addr).map_err(|e| e.to_string());
            let _ = dtx.send(r);
        });
        if h.is_err() {
            return Err("cannot spawn app thread".into());
        }
        // wait until it accepts connections (or run() failed)
        let start = Instant::now();
        loop {
            if let Ok(r) = drx.try_recv() {
                return Err(format!("App::run returned early: {:?}", r));
            }
            if let Ok(s) = TcpStream::connect_timeout(&addr, Duration::from_millis(200)) {
                drop(s);
                return Ok(RunningApp { addr, shutdown: Some(tx), done: drx });
            }
            if start.elapsed() > Duration::from_secs(10) {
                return Err("app did not start listening within 10 s".into());
            }
            std::thread::sleep(Duration::from_millis(2));
        }
    }
    Err("no free port".into())
}

impl RunningApp {
    /// Sends the shutdown signal and waits for `run` to return. Returns the time it took, or an error text.
    pub fn stop(mut self, max: Duration) -> Result<Duration, String> {
        let t0 = Instant::now();
        if let Some(tx) = self.shutdown.take() {
            let _ = tx.send(());
        }
        match self.done.recv_timeout(max) {
            Ok(Ok(())) => Ok(t0.elapsed()),
            Ok(Err(e)) => Err(format!("run returned an error: {}", e)),
            Err(_) => Err(format!("run did not return within {:?} of the shutdown signal", max)),
        }
    }
}

impl Drop for RunningApp {
    fn drop(&mut self) {
        if let Some(tx) = self.shutdown.take() {
            let _ = tx.send(());
        }
    }
}

