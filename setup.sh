#!/bin/bash
# MANIFEST.setup_cmd — offline build of the verification harnesses from files on disk only.
set -e
cd "$(dirname "$0")"
export CARGO_NET_OFFLINE=true
(cd harness && cargo build --release 2>&1 | tail -2)
(cd harness-tokio && cargo build --release 2>&1 | tail -2)
echo "setup done"
