#![no_main]
//! libFuzzer target `c03_parsers`: the oracle lives in hv::props::fuzzers (see /verif/harness/src/props/fuzzers.rs).
use libfuzzer_sys::fuzz_target;

#[global_allocator]
static ALLOC: hv::engine::worker::CountingAlloc = hv::engine::worker::CountingAlloc;

fuzz_target!(|data: &[u8]| {
    hv::props::fuzzers::fuzz_entry("c03_parsers", data);
});
